#!/venv/bin/python
"""Entry point:  run_check.py <Cxx> --tier quick|thorough [--replay FILE]"""
import os
import sys

sys.path.insert(0, os.path.dirname(os.path.abspath(__file__)))

from vlib.runner import main  # noqa: E402

if __name__ == "__main__":
    sys.exit(main())
