"""
Reference calendar built on Python's datetime/calendar only.

A *regular* period is described as (freq, year, segment) with freq in
{1, 2, 4, 12}; a daily period as a datetime.date; an integer period as an int.
Nothing here uses irispie's serial arithmetic.
"""

import calendar
import datetime as dt

REGULAR = (1, 2, 4, 12)
CALENDAR = (1, 2, 4, 12, 365)
ALL = (1, 2, 4, 12, 365, 0)
LETTER = {1: "Y", 2: "H", 4: "Q", 12: "M", 365: "D", 0: "I"}
MIN_YEAR, MAX_YEAR = 1, 9999


def months_per_segment(freq):
    return 12 // freq


def start_day(freq, year, seg):
    return dt.date(year, (seg - 1) * months_per_segment(freq) + 1, 1)


def end_day(freq, year, seg):
    last_month = seg * months_per_segment(freq)
    return dt.date(year, last_month, calendar.monthrange(year, last_month)[1])


def next_regular(freq, year, seg, by=1):
    """(year, seg) moved by `by` periods - by counting, not by serials."""
    k = (seg - 1) + by
    return year + k // freq, k % freq + 1


def containing(freq, day: dt.date):
    """(year, seg) of the regular period of `freq` containing calendar day."""
    return day.year, (day.month - 1) // months_per_segment(freq) + 1


def index_regular(freq, year, seg):
    """Position in the total order (number of periods since year 0)."""
    return year * freq + (seg - 1)


def is_leap(year):
    return calendar.isleap(year)


def days_in_year(year):
    return 366 if calendar.isleap(year) else 365


def sdmx_regular(freq, year, seg):
    if freq == 1:
        return f"{year:04d}"
    if freq == 2:
        return f"{year:04d}-H{seg}"
    if freq == 4:
        return f"{year:04d}-Q{seg}"
    if freq == 12:
        return f"{year:04d}-{seg:02d}"
    raise ValueError(freq)


def enumerate_span(start, end, step):
    """The statement of C09 read literally: start, start+step, ... up to end."""
    out = []
    x = start
    if step > 0:
        while x <= end:
            out.append(x)
            x += step
    elif step < 0:
        while x >= end:
            out.append(x)
            x += step
    else:
        raise ValueError("step 0")
    return out
