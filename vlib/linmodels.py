"""
Structural linear / log-linear model generator with an independent evaluator.

A *spec* (JSON-able) describes

    x_i(t) = sum_terms a * x_j(t+k) + c_i + s_i * e_i(t)            i = 0..n-1
    y_m(t) = sum_terms z * x_j(t+k) + d_m + h_m * w_m(t)            k <= 0

It is rendered to irispie source either additively (linear=True) or
multiplicatively with every variable declared a log-variable (linear=False);
in logs the second rendering is exactly the first, so first-order results must
satisfy it exactly.  Everything the oracles need (coefficient matrices,
generalized eigenvalues of the harness's own companion pencil, steady state,
equation residuals) is computed here from the spec, never from irispie.
"""

import math

import numpy as np
import scipy.linalg as sla
from hypothesis import strategies as st

VAR_NAMES = ["x", "yy", "pi", "rr", "k_1", "zeta", "q"]
MARGIN = 0.07


# ---------------------------------------------------------------------------
# Strategy
# ---------------------------------------------------------------------------

def _coef(lo, hi):
    return st.one_of(
        st.integers(int(lo * 20), int(hi * 20)).map(lambda k: k / 20.0),
        st.floats(lo, hi, allow_nan=False, width=64).map(lambda x: round(x, 6)),
    )


@st.composite
def spec_strategy(draw, max_n=4, max_lag=3, max_lead=2, meas=(0, 2), allow_params=True,
                  allow_log=True, allow_const=True, min_leads=0, cross_scale=0.5, allow_wild=False):
    n = draw(st.integers(1, max_n))
    eqs = []
    wild = draw(st.integers(0, 5)) == 0 if allow_wild else False
    own = 1.6 if wild else 0.9
    for i in range(n):
        kind = draw(st.sampled_from(["ar", "fwd", "hybrid", "hybrid", "static"]))
        terms = []
        if kind in ("ar", "hybrid"):
            lag = draw(st.integers(1, max_lag))
            terms.append([i, -lag, draw(_coef(-own, own))])
            if lag > 1 and draw(st.booleans()):
                terms.append([i, -1, draw(_coef(-0.4, 0.4))])
        if kind in ("fwd", "hybrid") and max_lead >= 1:
            lead = draw(st.integers(1, max_lead))
            terms.append([i, lead, draw(_coef(-own, own))])
        if kind == "hybrid" and not wild:
            tot = sum(abs(t[2]) for t in terms)
            if tot > 0.95:
                for t in terms:
                    t[2] = round(t[2] * 0.95 / tot, 6)
        ncross = draw(st.integers(0, min(3, 2 * (n - 1)))) if n > 1 else 0
        for _ in range(ncross):
            j = draw(st.integers(0, n - 1).filter(lambda j_: j_ != i))
            k = draw(st.integers(-max_lag, max_lead))
            if any(t[0] == j and t[1] == k for t in terms):
                continue
            terms.append([j, k, draw(_coef(-cross_scale, cross_scale))])
        terms = [t for t in terms if t[2] != 0.0]
        const = draw(st.one_of(st.just(0.0), _coef(-1.0, 1.0))) if allow_const else 0.0
        shock = draw(st.sampled_from([1.0, 1.0, 0.5, -2.0, 0.0]))
        eqs.append({"terms": terms, "const": const, "shock": shock})
    nm = draw(st.integers(meas[0], meas[1]))
    meqs = []
    for m in range(nm):
        nt = draw(st.integers(1, min(2, n)))
        terms = []
        for _ in range(nt):
            j = draw(st.integers(0, n - 1))
            k = draw(st.sampled_from([0, 0, 0, -1, -2]))
            if any(t[0] == j and t[1] == k for t in terms):
                continue
            terms.append([j, k, draw(_coef(-2.0, 2.0).filter(lambda a: abs(a) >= 0.1))])
        const = draw(st.one_of(st.just(0.0), _coef(-1.0, 1.0))) if allow_const else 0.0
        mshock = draw(st.sampled_from([1.0, 0.0, 0.5, 1.0]))
        meqs.append({"terms": terms, "const": const, "shock": mshock})
    # parameters: replace some coefficients by named parameters
    params = []
    if allow_params and draw(st.booleans()):
        slots = [(i, ti) for i, e in enumerate(eqs) for ti in range(len(e["terms"]))]
        npar = draw(st.integers(1, 2))
        for p in range(min(npar, len(slots))):
            i, ti = slots[draw(st.integers(0, len(slots) - 1))]
            if len(eqs[i]["terms"][ti]) == 3:
                eqs[i]["terms"][ti].append(len(params))
                params.append({"name": f"p{len(params)}", "value": eqs[i]["terms"][ti][2]})
    perm = draw(st.permutations(list(range(len(VAR_NAMES)))))
    names = [VAR_NAMES[perm[i]] for i in range(n)]
    log = draw(st.booleans()) if allow_log else False
    spec = {"n": n, "names": names, "eqs": eqs, "meas": meqs, "params": params, "log": log,
            "render": {"norm": [draw(st.integers(0, 5)) for _ in range(n)],
                       "order": draw(st.integers(0, 3))}}
    if num_forwards(spec) < min_leads:
        # make the first variable forward-looking by construction
        eqs[0]["terms"] = [t for t in eqs[0]["terms"] if not (t[0] == 0 and t[1] > 0)] + [[0, 1, 0.5]]
    return spec


@st.composite
def nl_spec_strategy(draw, **kwargs):
    """Additive spec with 1-3 anchored nonlinear terms (no parameters, single variant)."""
    kwargs.setdefault("allow_params", False)
    kwargs.setdefault("allow_log", False)
    spec = draw(spec_strategy(**kwargs))
    n = spec["n"]
    L, F = shifts(spec)
    nl = []
    for _ in range(draw(st.integers(1, 3))):
        i = draw(st.integers(0, n - 1))
        j = draw(st.integers(0, n - 1))
        k = draw(st.integers(-max(L[j], 0), F[j]))
        gamma = draw(st.sampled_from([0.1, -0.1, 0.2, -0.2, 0.05, 0.3]))
        nl.append([i, j, k, gamma, draw(st.sampled_from(sorted(NL_KINDS)))])
    spec["nl"] = nl
    return spec


# ---------------------------------------------------------------------------
# Structure
# ---------------------------------------------------------------------------

def param_values(spec, variant=None):
    out = {}
    for p in spec["params"]:
        v = p["value"]
        if isinstance(v, list):
            v = v[variant or 0]
        out[p["name"]] = v
    return out


def _term_value(spec, term, variant=None):
    if len(term) > 3 and term[3] is not None:
        v = spec["params"][term[3]]["value"]
        return v[variant or 0] if isinstance(v, list) else v
    return term[2]


def shifts(spec):
    """(max lag, max lead) per variable over transition equations."""
    n = spec["n"]
    L, F = [0] * n, [0] * n
    for e in spec["eqs"]:
        for t in e["terms"]:
            j, k = t[0], t[1]
            L[j] = max(L[j], -k)
            F[j] = max(F[j], k)
    for _i, j, k, _g, _kind in nl_terms(spec):
        L[j] = max(L[j], -k)
        F[j] = max(F[j], k)
    return L, F


def num_forwards(spec):
    return sum(shifts(spec)[1])


def max_lag_lead(spec):
    L, F = shifts(spec)
    Lm = max([0] + [-t[1] for e in spec["meas"] for t in e["terms"]])
    return max(L + [Lm]), max(F)


# Nonlinear "anchored" terms: gamma * (g(x_j(t+k)) - g(xbar_j)) vanish at the steady state of the linear part,
# so the steady state stays known; the linearisation gains the slope gamma * g'(xbar_j).
NL_KINDS = {
    "sq": (lambda x: x * x, lambda x: 2 * x, lambda tok: f"({tok})^2"),
    "cube": (lambda x: x ** 3, lambda x: 3 * x * x, lambda tok: f"({tok})^3"),
    "exp": (lambda x: math.exp(x), lambda x: math.exp(x), lambda tok: f"exp({tok})"),
    "logistic": (lambda x: 1 / (1 + math.exp(-x)), lambda x: math.exp(-x) / (1 + math.exp(-x)) ** 2, lambda tok: f"(1/(1+exp(-{tok})))"),
    "sqrt1": (lambda x: math.sqrt(x * x + 1), lambda x: x / math.sqrt(x * x + 1), lambda tok: f"sqrt(({tok})^2+1)"),
}


def nl_terms(spec):
    return spec.get("nl") or []


def coefficient_matrices(spec, variant=None, linearized=True):
    """dict k -> n x n matrix A_k of  sum_k A_k x(t+k) + c + S e = 0  (A_0 has -1 on the diagonal).

    With anchored nonlinear terms: the linear part only (linearized=False, used for the steady
    state) or the first-order expansion around the steady state (linearized=True)."""
    n = spec["n"]
    A = {}
    for i, e in enumerate(spec["eqs"]):
        A.setdefault(0, np.zeros((n, n)))[i, i] += -1.0
        for t in e["terms"]:
            A.setdefault(t[1], np.zeros((n, n)))[i, t[0]] += _term_value(spec, t, variant)
    if linearized and nl_terms(spec):
        xs, _ = steady(spec, variant)
        if xs is not None:
            for i, j, k, gamma, kind in nl_terms(spec):
                A.setdefault(k, np.zeros((n, n)))[i, j] += gamma * NL_KINDS[kind][1](float(xs[j]))
    c = np.array([e["const"] for e in spec["eqs"]], dtype=float)
    s = np.array([e["shock"] for e in spec["eqs"]], dtype=float)
    return A, c, s


def pencil(spec, variant=None):
    """Own companion pencil  A s(t) + B s(t-1) = ...  and the state tokens."""
    L, F = shifts(spec)
    n = spec["n"]
    tokens = []
    for j in range(n):
        Lp = max(L[j], 1)
        for k in range(-Lp + 1, F[j] + 1):
            tokens.append((j, k))
    pos = {tok: i for i, tok in enumerate(tokens)}
    ns = len(tokens)
    Am, _, _ = coefficient_matrices(spec, variant)
    A = np.zeros((ns, ns))
    B = np.zeros((ns, ns))
    row = 0
    for i in range(n):
        for k, M in Am.items():
            for j in range(n):
                a = M[i, j]
                if a == 0.0:
                    continue
                if (j, k) in pos:
                    A[row, pos[(j, k)]] += a
                else:
                    B[row, pos[(j, k + 1)]] += a
        row += 1
    for (j, k) in tokens:
        if k < F[j]:
            A[row, pos[(j, k)]] = 1.0
            B[row, pos[(j, k + 1)]] = -1.0
            row += 1
    assert row == ns
    return A, B, tokens


def eigenvalues(spec, variant=None):
    A, B, _ = pencil(spec, variant)
    w = sla.eig(-B, A, right=False, homogeneous_eigvals=True)
    alpha, beta = w[0], w[1]
    out = []
    for a, b in zip(alpha, beta):
        if abs(b) < 1e-13 * max(1.0, abs(a)):
            out.append(complex(np.inf))
        else:
            out.append(complex(a / b))
    return out


def rank_condition(spec, variant=None):
    """Condition number of the predetermined rows of the stable deflating subspace (own ordered QZ)."""
    A, B, tokens = pencil(spec, variant)
    # -B v = lambda A v ; stable = inside the unit circle
    try:
        _, _, _, _, _, Z = sla.ordqz(-B, A, sort="iuc", output="real")
    except Exception:  # noqa: BLE001 - LAPACK refuses to reorder a very ill-conditioned pencil: not a model to judge
        return float("inf")
    nf = num_forwards(spec)
    ns = len(tokens)
    nstable = ns - nf
    rows = [i for i, (j, k) in enumerate(tokens) if k <= 0]
    M = Z[np.ix_(rows, list(range(nstable)))]
    if M.shape[0] != M.shape[1]:
        return np.inf
    return float(np.linalg.cond(M))


def classify(spec, variant=None, margin=MARGIN):
    """'determinate' | 'near_unit' | 'indeterminate' | 'no_stable' | 'rank_deficient' with own eigenvalues.

    determinate = root count equals the number of leads with margin AND the predetermined block of
    the stable deflating subspace is well conditioned (Blanchard-Kahn rank condition)."""
    ev = eigenvalues(spec, variant)
    mags = [abs(x) for x in ev]
    if any(1 - margin <= m <= 1 + margin for m in mags):
        return "near_unit", ev
    nun = sum(1 for m in mags if m > 1 + margin)
    nf = num_forwards(spec)
    if nun == nf:
        if rank_condition(spec, variant) > 1e6:
            return "rank_deficient", ev
        return "determinate", ev
    return ("no_stable" if nun > nf else "indeterminate"), ev


def steady(spec, variant=None):
    """Steady state of the additive form (log-levels for the log rendering); None if singular."""
    Am, c, _ = coefficient_matrices(spec, variant, linearized=False)
    S = sum(Am.values())
    if abs(np.linalg.det(S)) < 1e-8 or np.linalg.cond(S) > 1e8:
        return None, None
    xs = np.linalg.solve(S, -c)
    if np.max(np.abs(xs), initial=0.0) > (5.0 if spec["log"] else 50.0):
        return None, None       # extreme steady state (exp overflow / conditioning): not generated
    ys = []
    for e in spec["meas"]:
        ys.append(sum(_term_value(spec, t, variant) * xs[t[0]] for t in e["terms"]) + e["const"])
    if np.max(np.abs(ys), initial=0.0) > (8.0 if spec["log"] else 200.0):
        return None, None
    return xs, np.array(ys, dtype=float)


# ---------------------------------------------------------------------------
# Names
# ---------------------------------------------------------------------------

def var_names(spec):
    return list(spec["names"])


def shock_names(spec):
    return [f"e_{nm}" if spec["eqs"][i]["shock"] != 0 else None for i, nm in enumerate(spec["names"])]


def meas_names(spec):
    return [f"obs{m}" for m in range(len(spec["meas"]))]


def mshock_names(spec):
    return [f"w{m}" if e["shock"] != 0 else None for m, e in enumerate(spec["meas"])]


# ---------------------------------------------------------------------------
# Rendering to irispie source
# ---------------------------------------------------------------------------

def _num(a):
    r = repr(float(a))
    return r if a >= 0 else f"({r})"


def _tok(name, k):
    return name if k == 0 else f"{name}{{{k:+d}}}"


def _coef_text(spec, t):
    if len(t) > 3 and t[3] is not None:
        return spec["params"][t[3]]["name"]
    return _num(t[2])


def _render_additive(spec, i):
    e = spec["eqs"][i]
    names = spec["names"]
    pieces = []
    for t in e["terms"]:
        pieces.append(f"{_coef_text(spec, t)}*{_tok(names[t[0]], t[1])}")
    if e.get("const_param"):
        pieces.append(e["const_param"])       # the constant is a parameter of the model (value kept in e["const"])
    elif e["const"] != 0:
        pieces.append(_num(e["const"]))
    if nl_terms(spec):
        xs, _ = steady(spec)
        for ii, j, k, gamma, kind in nl_terms(spec):
            if ii == i:
                g0 = NL_KINDS[kind][0](float(xs[j]))
                pieces.append(f"{_num(gamma)}*({NL_KINDS[kind][2](_tok(names[j], k))} - {_num(g0)})")
    if e["shock"] != 0:
        sh = shock_names(spec)[i]
        pieces.append(sh if e["shock"] == 1.0 else f"{_num(e['shock'])}*{sh}")
    order = spec["render"]["order"]
    if order % 2 == 1:
        pieces = pieces[::-1]
    rhs = " + ".join(pieces) if pieces else "0"
    norm = spec["render"]["norm"][i]
    lhs = names[i]
    if norm % 3 == 1:
        return f"{lhs} - ({rhs}) = 0"
    if norm % 3 == 2:
        return f"0 = {rhs} - {lhs}"
    return f"{lhs} = {rhs}"


def _render_multiplicative(spec, i):
    e = spec["eqs"][i]
    names = spec["names"]
    pieces = []
    if e.get("const_param"):
        pieces.append(f"exp({e['const_param']})")
    elif e["const"] != 0:
        pieces.append(f"exp({_num(e['const'])})")
    for t in e["terms"]:
        pieces.append(f"{_tok(names[t[0]], t[1])}^{_coef_text(spec, t) if (len(t) > 3 and t[3] is not None) else _num(t[2])}")
    if e["shock"] != 0:
        sh = shock_names(spec)[i]
        pieces.append(f"exp({sh})" if e["shock"] == 1.0 else f"exp({_num(e['shock'])}*{sh})")
    if spec["render"]["order"] % 2 == 1:
        pieces = pieces[::-1]
    rhs = " * ".join(pieces) if pieces else "1"
    return f"{names[i]} = {rhs}"


def _render_meas(spec, m, log):
    e = spec["meas"][m]
    names = spec["names"]
    y = meas_names(spec)[m]
    w = mshock_names(spec)[m]
    if not log:
        pieces = [f"{_num(t[2])}*{_tok(names[t[0]], t[1])}" for t in e["terms"]]
        if e["const"] != 0:
            pieces.append(_num(e["const"]))
        if w:
            pieces.append(w if e["shock"] == 1.0 else f"{_num(e['shock'])}*{w}")
        return f"{y} = " + " + ".join(pieces)
    pieces = [f"{_tok(names[t[0]], t[1])}^{_num(t[2])}" for t in e["terms"]]
    if e["const"] != 0:
        pieces.append(f"exp({_num(e['const'])})")
    if w:
        pieces.append(f"exp({w})" if e["shock"] == 1.0 else f"exp({_num(e['shock'])}*{w})")
    return f"{y} = " + " * ".join(pieces)


def source(spec):
    log = spec["log"]
    names = spec["names"]
    lines = ["!transition-variables", "    " + ", ".join(names)]
    sh = [s for s in shock_names(spec) if s]
    if sh:
        lines += ["!transition-shocks", "    " + ", ".join(sh)]
    pnames = [p["name"] for p in spec["params"]] + [e["const_param"] for e in spec["eqs"] if e.get("const_param")]
    if pnames:
        lines += ["!parameters", "    " + ", ".join(pnames)]
    if spec["meas"]:
        lines += ["!measurement-variables", "    " + ", ".join(meas_names(spec))]
        ms = [w for w in mshock_names(spec) if w]
        if ms:
            lines += ["!measurement-shocks", "    " + ", ".join(ms)]
    if log:
        lines += ["!log-variables", "    " + ", ".join(names + meas_names(spec))]
    lines.append("!transition-equations")
    for i in (spec.get("eq_order") or range(spec["n"])):
        lines.append("    " + (_render_multiplicative(spec, i) if log else _render_additive(spec, i)) + ";")
    if spec["meas"]:
        lines.append("!measurement-equations")
        for m in range(len(spec["meas"])):
            lines.append("    " + _render_meas(spec, m, log) + ";")
    return "\n".join(lines) + "\n"


# ---------------------------------------------------------------------------
# irispie model
# ---------------------------------------------------------------------------

def build_model(spec, variant_count=1, solve=True, stds=None, zero_steady=False, flat=None):
    """Simultaneous model with parameters and the harness-computed steady state assigned.

    zero_steady: assign the all-zero (log: all-one) steady state - valid for constant-free
    models, and the only option for the unit-root family where sum_k A_k is singular."""
    import irispie as ir
    kw = {} if flat is None else {"flat": flat}
    m = ir.Simultaneous.from_string(source(spec), linear=not (spec["log"] or nl_terms(spec)), **kw)
    if variant_count > 1:
        m.alter_num_variants(variant_count)
    assign = {}
    for p in spec["params"]:
        assign[p["name"]] = p["value"]
    levels = []
    for v in range(variant_count):
        if zero_steady:
            xs, ys = np.zeros(spec["n"]), np.zeros(len(spec["meas"]))
        else:
            xs, ys = steady(spec, v)
        if xs is None:
            raise ValueError("singular steady state")
        levels.append((xs, ys))
    f = (lambda a: math.exp(a)) if spec["log"] else (lambda a: float(a))
    for j, nm in enumerate(spec["names"]):
        vals = [f(levels[v][0][j]) for v in range(variant_count)]
        assign[nm] = vals if variant_count > 1 else vals[0]
    for mi, nm in enumerate(meas_names(spec)):
        vals = [f(levels[v][1][mi]) for v in range(variant_count)]
        assign[nm] = vals if variant_count > 1 else vals[0]
    if stds:
        assign.update(stds)
    m.assign(**assign)
    if solve:
        m.solve()
    return m


# ---------------------------------------------------------------------------
# Own evaluation of the equations
# ---------------------------------------------------------------------------

def residuals(spec, get, t, deviation=False, variant=None, which="transition"):
    """Residuals of all transition (or measurement) equations at harness time t.

    get(name, t) -> value of a variable/shock at t (levels, or deviations when deviation=True);
    shocks of transition equations are read as e + ant_e by the caller-provided getter name
    'shock:<name>'.
    """
    log = spec["log"]
    names = spec["names"]

    def v(name, tt):
        x = get(name, tt)
        if log:
            return math.log(x) if x > 0 else float("nan")      # a non-positive log-variable makes the residual NaN
        return x

    out = []
    nl_steady = None
    if which == "transition":
        shn = shock_names(spec)
        for i, e in enumerate(spec["eqs"]):
            r = -v(names[i], t)
            for term in e["terms"]:
                r += _term_value(spec, term, variant) * v(names[term[0]], t + term[1])
            if not deviation:
                r += e["const"]
            for ii, j, k, gamma, kind in nl_terms(spec):
                if ii == i:
                    if nl_steady is None:
                        nl_steady = steady(spec, variant)[0]
                    g = NL_KINDS[kind][0]
                    r += gamma * (g(get(names[j], t + k)) - g(float(nl_steady[j])))
            if e["shock"] != 0:
                r += e["shock"] * get("shock:" + shn[i], t)
            out.append(r)
    else:
        mn, wn = meas_names(spec), mshock_names(spec)
        for m, e in enumerate(spec["meas"]):
            r = -v(mn[m], t)
            for term in e["terms"]:
                r += _term_value(spec, term, variant) * v(names[term[0]], t + term[1])
            if not deviation:
                r += e["const"]
            if e["shock"] != 0:
                r += e["shock"] * get(wn[m], t)
            out.append(r)
    return out


def residuals_as_written(spec, get, t, variant=None, which="transition"):
    """Residuals lhs - rhs of the equations in the form they are written in the source: identical to
    residuals() for the additive rendering; x_i - exp(c) * prod x_j(t+k)**a * exp(s*e) for the
    multiplicative (log-variable) rendering.  Returns (residuals, largest term magnitude)."""
    if not spec["log"]:
        r = residuals(spec, get, t, variant=variant, which=which)
        names = spec["names"] + meas_names(spec)
        Lm, Fm = max_lag_lead(spec)
        mag = max([abs(get(nm, t + k)) for nm in names for k in range(-Lm, Fm + 1) if not math.isnan(get(nm, t + k))] + [0.0])
        return r, mag
    names = spec["names"]
    out, mag = [], 0.0
    if which == "transition":
        shn = shock_names(spec)
        rows = [(names[i], e, (shn[i] and "shock:" + shn[i])) for i, e in enumerate(spec["eqs"])]
    else:
        mn, wn = meas_names(spec), mshock_names(spec)
        rows = [(mn[m], e, wn[m]) for m, e in enumerate(spec["meas"])]
    for lhs_name, e, shock in rows:
        rhs = math.exp(e["const"])
        for term in e["terms"]:
            x = get(names[term[0]], t + term[1])
            rhs *= x ** _term_value(spec, term, variant) if x > 0 else float("nan")
        if e["shock"] != 0 and shock:
            rhs *= math.exp(e["shock"] * get(shock, t))
        lhs = get(lhs_name, t)
        out.append(lhs - rhs)
        mag = max(mag, abs(lhs), abs(rhs) if not math.isnan(rhs) else 0.0)
    return out, mag


def unit_root_domain(spec, n_unit, variant=None, band=0.1):
    """True iff the own eigenvalues have exactly n_unit roots at 1 (to 1e-8), no other root within `band`
    of the unit circle, and the number of roots outside equals the number of leads."""
    ev = eigenvalues(spec, variant)
    mags = sorted(abs(x) for x in ev)
    units = [m for m in mags if abs(m - 1) < 1e-8]
    rest = [m for m in mags if abs(m - 1) >= 1e-8]
    if len(units) != n_unit:
        return False
    if any(1 - band < m < 1 + band for m in rest):
        return False
    return sum(1 for m in rest if m > 1) == num_forwards(spec)


@st.composite
def growth_spec_strategy(draw, log=True, **kwargs):
    """Spec with one exact random walk with drift (variable index returned as spec['rw'])."""
    kwargs.setdefault("allow_params", False)
    spec = draw(spec_strategy(allow_log=True, **kwargs))
    spec["log"] = log
    rw = draw(st.integers(0, spec["n"] - 1))
    spec["eqs"][rw] = {"terms": [[rw, -1, 1.0]], "const": draw(st.sampled_from([0.02, -0.01, 0.05])), "shock": 1.0}
    spec["rw"] = rw
    return spec
