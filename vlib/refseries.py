"""
Reference model of a time series: a dict {(position, variant): value} holding
only the non-missing cells, plus a frequency and a number of variants.
Positions are the harness-side integers of vlib.pgen.ref_index.
"""

import datetime as dt
import math

import numpy as np
from hypothesis import strategies as st

from . import pgen, refcal

NAN = float("nan")


class Ref:
    def __init__(self, f, nv=1, cells=None):
        self.f = f
        self.nv = nv
        self.cells = dict(cells or {})

    def copy(self):
        return Ref(self.f, self.nv, self.cells)

    def get(self, i, v):
        return self.cells.get((i, v), NAN)

    def set(self, i, v, x):
        if x is None or (isinstance(x, float) and math.isnan(x)):
            self.cells.pop((i, v), None)
        else:
            self.cells[(i, v)] = float(x)

    def row(self, i):
        return [self.get(i, v) for v in range(self.nv)]

    def positions(self):
        return sorted({i for (i, _) in self.cells})

    def span(self):
        pos = self.positions()
        return (pos[0], pos[-1]) if pos else None

    def is_empty(self):
        return not self.cells

    def map(self, fn):
        out = Ref(self.f, self.nv)
        for (i, v), x in self.cells.items():
            out.set(i, v, fn(x))
        return out

    def shifted(self, k):
        """new[t] = old[t + k]  (k = -1 is a lag)."""
        return Ref(self.f, self.nv, {(i - k, v): x for (i, v), x in self.cells.items()})

    def array(self, lo, hi):
        a = np.full((hi - lo + 1, self.nv), np.nan)
        for (i, v), x in self.cells.items():
            if lo <= i <= hi:
                a[i - lo, v] = x
        return a


# ---------------------------------------------------------------------------
# Conversions to / from irispie Series
# ---------------------------------------------------------------------------

def origin(f):
    import irispie as ir
    if f in refcal.REGULAR:
        return pgen.mk({"f": f, "y": 0, "s": 1})
    if f == 0:
        return ir.ii(0)
    return None


def idx_of(p, f):
    """Harness position of an irispie Period (public API only)."""
    if f == 365:
        return p.to_python_date().toordinal()
    return p - origin(f)


def period_at(f, idx):
    return pgen.mk(pgen.from_index(f, idx))


def build(ref, description=None):
    """irispie Series holding exactly the cells of `ref`."""
    import irispie as ir
    sp = ref.span()
    if sp is None:
        x = ir.Series(num_variants=ref.nv)
    else:
        lo, hi = sp
        x = ir.Series(num_variants=ref.nv, start=period_at(ref.f, lo), values=ref.array(lo, hi))
    if description is not None:
        x.set_description(description)
    return x


def read(x, f):
    """Ref with the cells of an irispie Series, read through get_data()."""
    nv = x.num_variants
    out = Ref(f, nv)
    if x.start is None:
        return out
    lo = idx_of(x.start, f)
    data = x.get_data()
    for r in range(data.shape[0]):
        for v in range(nv):
            val = data[r, v]
            if not np.isnan(val):
                out.cells[(lo + r, v)] = float(val)
    return out


def close(a, b, rtol, atol):
    if math.isnan(a) or math.isnan(b):
        return math.isnan(a) and math.isnan(b)
    if math.isinf(a) or math.isinf(b):
        return a == b
    return abs(a - b) <= atol + rtol * max(abs(a), abs(b))


def compare(x, ref, rtol=0.0, atol=0.0, check_span=True, trimmed=True):
    """Differences between irispie Series `x` and reference `ref`; '' if none.

    check_span: the reported span must cover every non-missing value (always)
    trimmed: and must have no all-missing leading/trailing period.
    """
    import irispie as ir
    if not isinstance(x, ir.Series):
        return f"result is {type(x).__name__}, not a Series"
    if x.num_variants != ref.nv:
        return f"number of variants {x.num_variants} != {ref.nv}"
    got = read(x, ref.f)
    keys = set(got.cells) | set(ref.cells)
    for key in sorted(keys):
        a, b = got.get(*key), ref.get(*key)
        if not close(a, b, rtol, atol):
            return f"cell {pgen.describe(pgen.from_index(ref.f, key[0]))} variant {key[1]}: got {a!r} expected {b!r}"
    if check_span:
        sp = ref.span()
        if sp is None:
            if trimmed and x.start is not None:
                return f"all-missing result has start {x.start!r} (expected the empty series)"
        else:
            if x.start is None:
                return "series with values reports no start"
            lo, hi = idx_of(x.start, ref.f), idx_of(x.end, ref.f)
            if lo > sp[0] or hi < sp[1]:
                return f"reported span {x.start!r}..{x.end!r} does not cover the values"
            if trimmed and (lo, hi) != sp:
                return f"reported span {x.start!r}..{x.end!r} has all-missing leading/trailing periods"
            if x.get_data().shape[0] != hi - lo + 1 or len(x.periods) != hi - lo + 1:
                return "span length disagrees with data length"
    return ""


# ---------------------------------------------------------------------------
# Strategies (cases are JSON-able: lists of [position offset, variant, value])
# ---------------------------------------------------------------------------

def _mantissa_floats(lo, hi):
    if hi - lo < 1:
        return st.floats(lo, hi, allow_nan=False, allow_infinity=False, width=64)
    return st.one_of(
        st.integers(int(math.ceil(lo * 8)), int(hi * 8)).map(lambda k: k / 8.0),
        st.floats(lo, hi, allow_nan=False, allow_infinity=False, width=64),
    )


@st.composite
def series_desc(draw, freqs=refcal.ALL, freq=None, min_len=1, max_len=24, max_variants=3,
                positive=False, nan_prob=True, margin_years=30, lo=-5.0, hi=5.0, daily_max_len=None, plo=0.25):
    """{"f", "start": period desc, "nv", "rows": [[v0, v1..], ...]} (None = missing)."""
    f = freq if freq is not None else draw(st.sampled_from(freqs))
    start = draw(pgen.period_desc(freq=f, margin_years=margin_years))
    if f == 0:
        start = {"f": 0, "n": draw(st.integers(-60, 60))}
    n = draw(st.integers(min_len, max_len if (f != 365 or daily_max_len is None) else daily_max_len))
    nv = draw(st.integers(1, max_variants))
    vals = _mantissa_floats(plo, hi) if positive else _mantissa_floats(lo, hi)
    cell = st.one_of(vals, vals, vals, vals, st.none()) if nan_prob else vals
    rows = draw(st.lists(st.lists(cell, min_size=nv, max_size=nv), min_size=n, max_size=n))
    return {"f": f, "start": start, "nv": nv, "rows": rows}


def ref_from_desc(d):
    ref = Ref(d["f"], d["nv"])
    lo = pgen.ref_index(d["start"])
    for r, row in enumerate(d["rows"]):
        for v, x in enumerate(row):
            if x is not None:
                ref.cells[(lo + r, v)] = float(x)
    return ref


def desc_has_interior_nan(d):
    ref = ref_from_desc(d)
    sp = ref.span()
    if sp is None:
        return False
    return any(math.isnan(ref.get(i, v)) for i in range(sp[0], sp[1] + 1) for v in range(ref.nv))


# ---------------------------------------------------------------------------
# Calendar helpers on positions
# ---------------------------------------------------------------------------

def year_of(f, idx):
    if f in refcal.REGULAR:
        return idx // f
    if f == 365:
        return dt.date.fromordinal(idx).year
    raise ValueError("integer frequency has no year")


def soy(f, idx):
    if f in refcal.REGULAR:
        return (idx // f) * f
    return dt.date(dt.date.fromordinal(idx).year, 1, 1).toordinal()


def eopy(f, idx):
    return soy(f, idx) - 1


def is_soy(f, idx):
    return soy(f, idx) == idx
