"""
Import irispie from the tree under test ($IRISPIE_SRC, default /repo/src).

Every check process calls `setup()` before importing irispie, so that the
package comes from the *current working tree* (or from a scratch copy in a
mutation run) and never from a stale installed copy.
"""

import os
import sys
import warnings

_DONE = False


def src_dir() -> str:
    return os.path.realpath(os.environ.get("IRISPIE_SRC", "/repo/src"))


def setup():
    global _DONE
    if _DONE:
        return
    warnings.filterwarnings("ignore")
    os.environ.setdefault("IRISPIE_VERIF", "1")
    src = src_dir()
    if src in sys.path:
        sys.path.remove(src)
    sys.path.insert(0, src)
    import numpy as np
    np.seterr(all="ignore")
    import irispie  # noqa: F401
    where = os.path.realpath(irispie.__file__)
    if not where.startswith(src + os.sep):
        raise RuntimeError(f"irispie imported from {where}, expected under {src}")
    _DONE = True
