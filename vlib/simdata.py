"""Helpers shared by the model checks: input databoxes and path readers."""

import math

import numpy as np

from . import linmodels as lm


def start_period(code):
    import irispie as ir
    return {"Q": ir.qq(2020, 1), "M": ir.mm(2019, 11), "Y": ir.yy(2001), "I": ir.ii(5)}[code]


def steady_db(m, spec, start, first, last, deviation):
    """Databox.steady over [start+first, start+last] (first <= 0)."""
    import irispie as ir
    return ir.Databox.steady(m, (start + first) >> (start + last), deviation=deviation)


def apply_init(db, spec, start, init, deviation):
    """init: list of [j, lag>=1, delta]; additive for plain, multiplicative exp(delta) for log variables."""
    L, _ = lm.shifts(spec)
    for j, lag, delta in init:
        if lag > max(L[j], 1):
            continue
        name = spec["names"][j]
        t = start - lag
        old = float(db[name].get_data(t)[0, 0])
        db[name][t] = old * math.exp(delta) if spec["log"] else old + delta


def apply_shocks(db, spec, start, ushocks, ashocks, mshocks=()):
    shn = lm.shock_names(spec)
    for i, tau, val in ushocks:
        if shn[i % spec["n"]]:
            db[shn[i % spec["n"]]][start + tau] = val
    for i, tau, val in ashocks:
        if shn[i % spec["n"]]:
            db["ant_" + shn[i % spec["n"]]][start + tau] = val
    wn = lm.mshock_names(spec)
    for m, tau, val in mshocks:
        if wn and wn[m % len(wn)]:
            db[wn[m % len(wn)]][start + tau] = val


def effective_shocks(spec, ushocks, ashocks):
    """Same lists with indices resolved and shock-less equations dropped."""
    shn = lm.shock_names(spec)
    u = [[i % spec["n"], tau, val] for i, tau, val in ushocks if shn[i % spec["n"]] and val != 0]
    a = [[i % spec["n"], tau, val] for i, tau, val in ashocks if shn[i % spec["n"]] and val != 0]
    return u, a


class Paths:
    """Arrays of every model quantity over [start+first, start+last], read through get_data."""

    def __init__(self, db, spec, start, first, last, variant=0):
        import irispie as ir
        self.first, self.last = first, last
        span = (start + first) >> (start + last)
        self.data = {}
        names = list(spec["names"]) + lm.meas_names(spec)
        for s in lm.shock_names(spec):
            if s:
                names += [s, "ant_" + s]
        names += [w for w in lm.mshock_names(spec) if w]
        for nm in names:
            try:
                x = db[nm]
            except Exception:  # noqa: BLE001
                self.data[nm] = np.full(last - first + 1, np.nan)
                continue
            self.data[nm] = np.asarray(x.get_data(span))[:, variant].astype(float)

    def get(self, name, t):
        if t < self.first or t > self.last:
            return float("nan")
        return float(self.data[name][t - self.first])

    def arr(self, name):
        return self.data[name]


def getter(paths, spec, unanticipated_only_at=None):
    """Getter for lm.residuals: 'shock:<e>' is e + ant_e; with unanticipated_only_at = tau the
    unanticipated part counts at tau only (information set of a continuation started at tau)."""
    def get(name, t):
        if name.startswith("shock:"):
            e = name[6:]
            a = paths.get("ant_" + e, t)
            u = paths.get(e, t)
            a = 0.0 if math.isnan(a) else a
            u = 0.0 if math.isnan(u) else u
            if unanticipated_only_at is not None and t != unanticipated_only_at:
                u = 0.0
            return u + a
        return paths.get(name, t)
    return get
