"""Case strategy and data construction shared by the Kalman checks (C03, C08)."""

import math

import numpy as np
from hypothesis import strategies as st

from . import linmodels as lm

MARGIN = 0.15


@st.composite
def kalman_case(draw, max_n=3, max_N=8, allow_tv_stds=True):
    spec = draw(lm.spec_strategy(max_n=max_n, meas=(1, 3)))
    n, nm = spec["n"], len(spec["meas"])
    N = draw(st.integers(1, max_N))
    std = st.sampled_from([1.0, 0.5, 2.0, 1.3, 0.2, 3.0, 0.0])
    pstd = st.sampled_from([1.0, 0.5, 2.0, 1.3, 0.2])
    std_u = [draw(std) for _ in range(n)]
    std_w = [draw(pstd if draw(st.integers(0, 3)) else std) for _ in range(nm)]
    off = st.floats(-2, 2, allow_nan=False).map(lambda x: round(x, 3))
    data = [[draw(off) for _ in range(nm)] for _ in range(N)]
    mode = draw(st.sampled_from(["cells", "cells", "none", "period", "variable"]))
    mask = [[False] * nm for _ in range(N)]
    if mode == "cells":
        mask = [[draw(st.integers(0, 3)) == 0 for _ in range(nm)] for _ in range(N)]
    elif mode == "period":
        mask = [[draw(st.integers(0, 4)) == 0 for _ in range(nm)] for _ in range(N)]
        t = draw(st.integers(0, N - 1))
        mask[t] = [True] * nm
    elif mode == "variable":
        mask = [[draw(st.integers(0, 4)) == 0 for _ in range(nm)] for _ in range(N)]
        k = draw(st.integers(0, nm - 1))
        for row in mask:
            row[k] = True
    tv = {}
    if allow_tv_stds and draw(st.integers(0, 2)) == 0:
        which = draw(st.integers(0, n + nm - 1))
        tv = {"index": which, "values": [draw(pstd) for _ in range(N)]}
    return {"spec": spec, "N": N, "std_u": std_u, "std_w": std_w, "data": data, "mask": mask, "tv": tv,
            "deviation": draw(st.booleans()), "rescale": draw(st.integers(0, 3)) == 0,
            "freq": draw(st.sampled_from(["Q", "Q", "M", "Y", "I"])),
            "returns": draw(st.integers(0, len(RETURN_CHOICES) - 1))}


# Output selections of kalman_filter (index 0: everything, the default). Selecting fewer outputs must not change
# the values of those that are returned.
RETURN_CHOICES = [
    {},
    {"return_": ("smooth",)},
    {"return_": ("update", "smooth")},
    {"return_predict": False},
    {"return_": ("predict",)},
    {"return_": ("update",)},
    {"return_update": False, "return_predict_err": False},
    {"likelihood_contributions": False},
    {"return_": ()},
]


def return_kwargs(case, need=None):
    """Keyword arguments of the case's output selection; {} if `need` (a step name) would not be returned."""
    kw = RETURN_CHOICES[case.get("returns", 0) % len(RETURN_CHOICES)]
    if need is not None:
        if "return_" in kw and need not in kw["return_"]:
            return {}
        if kw.get("return_" + need) is False:
            return {}
    return dict(kw)


def compare_selected(col, bucket, out_sel, out_full, span, rtol=1e-10):
    """Every series of every databox returned under an output selection equals the same series of the full run."""
    for key in out_sel.keys():
        a, b = out_sel[key], out_full[key]
        if key == "predict_mse_obs":
            for va, vb in zip(a, b):
                for t, (x, y) in enumerate(zip(va, vb)):
                    x, y = np.asarray(x, dtype=float), np.asarray(y, dtype=float)
                    ok = x.shape == y.shape and bool(np.allclose(x, y, rtol=rtol, atol=1e-12, equal_nan=True))
                    col.check(ok, f"{bucket}:predict_mse_obs", lambda: f"t={t}: selected run {x.tolist()} full run {y.tolist()}")
            continue
        for name in a.keys():
            x = np.asarray(a[name].get_data(span), dtype=float)
            y = np.asarray(b[name].get_data(span), dtype=float)
            ok = x.shape == y.shape and bool(np.allclose(x, y, rtol=rtol, atol=1e-12, equal_nan=True))
            col.check(ok, f"{bucket}:{key}", lambda: f"{key}[{name}]: selected run {x.ravel().tolist()} full run {y.ravel().tolist()}")


def in_domain(spec):
    """Determinate with all stable roots <= 1-MARGIN (fast decay of the MA representation)."""
    if lm.steady(spec)[0] is None:
        return False
    ev = lm.eigenvalues(spec)
    mags = [abs(x) for x in ev]
    if any(1 - MARGIN < m < 1 + MARGIN for m in mags):
        return False
    if sum(1 for m in mags if m > 1) != lm.num_forwards(spec):
        return False
    return lm.rank_condition(spec) <= 1e6


def std_dicts(spec, case):
    su = {s: case["std_u"][i] for i, s in enumerate(lm.shock_names(spec)) if s}
    sw = {w: case["std_w"][k] for k, w in enumerate(lm.mshock_names(spec)) if w}
    return su, sw


def assigned_stds(spec, case):
    su, sw = std_dicts(spec, case)
    out = {"std_" + k: v for k, v in su.items()}
    out.update({"std_" + k: v for k, v in sw.items()})
    return out


def tv_dicts(spec, case):
    """Time-varying std series drawn for one shock: (tv_u, tv_w) dicts name -> list."""
    tv = case.get("tv") or {}
    if not tv:
        return {}, {}
    names = [s for s in lm.shock_names(spec)] + [w for w in lm.mshock_names(spec)]
    nm = names[tv["index"] % len(names)]
    if not nm:
        return {}, {}
    if nm in [s for s in lm.shock_names(spec) if s]:
        return {nm: tv["values"]}, {}
    return {}, {nm: tv["values"]}


def observed_values(spec, case):
    """N x nm array of observations in *model units* (levels; NaN where masked) and in logs."""
    xs, ys = lm.steady(spec)
    N, nm = case["N"], len(spec["meas"])
    lin = np.full((N, nm), np.nan)
    for t in range(N):
        for k in range(nm):
            if case["mask"][t][k]:
                continue
            base = 0.0 if case["deviation"] else float(ys[k])
            lin[t, k] = base + case["data"][t][k]
    levels = np.exp(lin) if spec["log"] else lin
    return levels, lin


def input_databox(spec, case, start, levels):
    import irispie as ir
    db = ir.Databox()
    for k, nm in enumerate(lm.meas_names(spec)):
        db[nm] = ir.Series(start=start, values=levels[:, [k]].copy(), trim=False) if False else ir.Series(
            periods=tuple(start + t for t in range(case["N"])), values=levels[:, [k]].copy())
    tvu, tvw = tv_dicts(spec, case)
    for nm, vals in list(tvu.items()) + list(tvw.items()):
        db["std_" + nm] = ir.Series(start=start, values=np.asarray(vals, dtype=float).reshape(-1, 1))
    return db
