"""
Expression ASTs for generated model equations: construction helpers,
placeholder substitution (the harness's own macro expansion), and a float
evaluator with a running rounding-error bound.

An AST is plain JSON data (nested lists):

    ["num", v]                      non-negative int/float literal
    ["var", name, shift]            any declared quantity; `name` may contain
                                    placeholders "{0}", "{1}", "{2}" (loop
                                    levels); shift is an int or ["ctl", L, sign]
                                    (shift = sign * int(token of level L))
    ["ctl", L]                      the token of loop level L read as a number
    ["tab", L, {token: value}]      a per-token constant of loop level L
    ["neg", a]
    ["add"|"sub"|"mul"|"div"|"pow", a, b]
    ["fn", "log"|"exp"|"sqrt", a]
    ["pf", name, a, k]              pseudo-function, canonical names
                                    diff difflog pct roc movsum movavg movprod shift;
                                    k int or None (documented default)
    ["fsum", sign, L, [tokens], t]  inline loop  !for ?k = tokens !do <sign> t !end
    ["sum", sign, [terms]]          an expanded fsum

Rendering to source text lives with the check that owns the syntax recipe.
"""

import math

PF_DEFAULT = {"diff": -1, "difflog": -1, "pct": -1, "roc": -1, "shift": -1,
              "movsum": -4, "movavg": -4, "movprod": -4}
PF_SPELLINGS = {
    "diff": ["diff"], "difflog": ["diff_log", "difflog"], "pct": ["pct"], "roc": ["roc"], "shift": ["shift"],
    "movsum": ["mov_sum", "movsum"], "movavg": ["mov_avg", "movavg"], "movprod": ["mov_prod", "movprod"],
}
BINOPS = ("add", "sub", "mul", "div", "pow")
EPS = 2.0 ** -52


# ---------------------------------------------------------------------------
# Structure
# ---------------------------------------------------------------------------

def children(ast):
    op = ast[0]
    if op in ("num", "var", "ctl", "tab"):
        return []
    if op == "neg":
        return [ast[1]]
    if op in BINOPS:
        return [ast[1], ast[2]]
    if op in ("fn", "pf"):
        return [ast[2]]
    if op == "fsum":
        return [ast[4]]
    if op == "sum":
        return list(ast[2])
    raise ValueError(f"unknown node {op!r}")


def walk(ast):
    yield ast
    for c in children(ast):
        yield from walk(c)


def depth(ast):
    return 1 + max([depth(c) for c in children(ast)], default=0)


def has_op(ast, ops):
    return any(n[0] in ops for n in walk(ast))


def uses_levels(ast):
    """Set of loop levels the AST refers to (outside of fsum-bound levels)."""
    out = set()
    op = ast[0]
    if op == "var":
        for lv in (0, 1, 2):
            if "{%d}" % lv in ast[1]:
                out.add(lv)
        if isinstance(ast[2], list):
            out.add(ast[2][1])
    elif op in ("ctl", "tab"):
        out.add(ast[1])
    elif op == "fsum":
        out |= uses_levels(ast[4]) - {ast[2]}
    else:
        for c in children(ast):
            out |= uses_levels(c)
    return out


def fill_name(name, env):
    for lv, tok in env.items():
        name = name.replace("{%d}" % int(lv), tok)
    return name


def subst(ast, env, keep_fsum=False):
    """The harness's own macro expansion: replace loop placeholders by tokens.
    `env` maps level (int) -> token (str).  fsum nodes become sum nodes unless
    keep_fsum (used by renderers that want to write the loop themselves)."""
    if keep_fsum:
        return _subst_keep(ast, env)
    op = ast[0]
    if op == "num":
        return ast
    if op == "var":
        sh = ast[2]
        if isinstance(sh, list) and sh[1] in env:
            sh = sh[2] * int(env[sh[1]])
        return ["var", fill_name(ast[1], env), sh]
    if op == "ctl":
        return ["num", int(env[ast[1]])] if ast[1] in env else ast
    if op == "tab":
        return ["num", ast[2][env[ast[1]]]] if ast[1] in env else ast
    if op == "neg":
        return ["neg", subst(ast[1], env)]
    if op in BINOPS:
        return [op, subst(ast[1], env), subst(ast[2], env)]
    if op == "fn":
        return ["fn", ast[1], subst(ast[2], env)]
    if op == "pf":
        return ["pf", ast[1], subst(ast[2], env), ast[3]]
    if op == "fsum":
        _, sign, lv, toks, term = ast
        inner = subst(term, {k: v for k, v in env.items() if k != lv})
        return ["sum", sign, [subst(inner, {lv: t}) for t in toks]]
    if op == "sum":
        return ["sum", ast[1], [subst(t, env) for t in ast[2]]]
    raise ValueError(op)


def _subst_keep(ast, env):
    op = ast[0]
    if op == "fsum":
        _, sign, lv, toks, term = ast
        return ["fsum", sign, lv, list(toks), _subst_keep(term, {k: v for k, v in env.items() if k != lv})]
    if op in ("num", "var", "ctl", "tab"):
        return subst(ast, env)
    if op == "neg":
        return ["neg", _subst_keep(ast[1], env)]
    if op in BINOPS:
        return [op, _subst_keep(ast[1], env), _subst_keep(ast[2], env)]
    if op == "fn":
        return ["fn", ast[1], _subst_keep(ast[2], env)]
    if op == "pf":
        return ["pf", ast[1], _subst_keep(ast[2], env), ast[3]]
    if op == "sum":
        return ["sum", ast[1], [_subst_keep(t, env) for t in ast[2]]]
    raise ValueError(op)


def is_concrete(ast):
    return not uses_levels(ast) and not has_op(ast, ("fsum",))


# ---------------------------------------------------------------------------
# Evaluation with a first-order rounding-error bound
# ---------------------------------------------------------------------------

class NotFinite(Exception):
    pass


def _chk(v):
    if not math.isfinite(v):
        raise NotFinite()
    return v


def evaluate(ast, lookup, off=0):
    """Value and rounding-error bound of a concrete AST.

    lookup(name, shift) -> float.  Pseudo-functions are evaluated by their
    definition on the whole argument shifted (`off` accumulates the shift).
    Raises NotFinite when any intermediate result is not a finite real.
    """
    op = ast[0]
    if op == "num":
        return float(ast[1]), 0.0
    if op == "var":
        return _chk(float(lookup(ast[1], ast[2] + off))), 0.0
    if op == "neg":
        v, e = evaluate(ast[1], lookup, off)
        return -v, e
    if op in BINOPS:
        a, ea = evaluate(ast[1], lookup, off)
        b, eb = evaluate(ast[2], lookup, off)
        return _binop(op, a, ea, b, eb)
    if op == "fn":
        a, ea = evaluate(ast[2], lookup, off)
        return _fn(ast[1], a, ea)
    if op == "sum":
        tot, err = 0.0, 0.0
        for t in ast[2]:
            v, e = evaluate(t, lookup, off)
            tot = tot + v if ast[1] == "+" else tot - v
            err += e + EPS * abs(tot)
        return _chk(tot), err
    if op == "pf":
        return _pf(ast, lookup, off)
    raise ValueError(f"cannot evaluate node {op!r} (not concrete?)")


def _binop(op, a, ea, b, eb):
    try:
        if op == "add":
            v = a + b
            e = ea + eb
        elif op == "sub":
            v = a - b
            e = ea + eb
        elif op == "mul":
            v = a * b
            e = abs(a) * eb + abs(b) * ea
        elif op == "div":
            if b == 0:
                raise NotFinite()
            v = a / b
            e = ea / abs(b) + abs(a) * eb / (b * b)
        else:
            if a < 0 and b != int(b):
                raise NotFinite()
            if a == 0 and b <= 0:
                raise NotFinite()
            v = a ** b
            if isinstance(v, complex):
                raise NotFinite()
            e = abs(v) * (abs(b) * ea / abs(a) if a != 0 else 0.0)
            if a > 0:
                e += abs(v) * abs(math.log(a)) * eb
            elif eb:
                raise NotFinite()
    except (OverflowError, ZeroDivisionError, ValueError):
        raise NotFinite()
    _chk(v)
    return v, _chk(e + 2 * EPS * abs(v))


def _fn(name, a, ea):
    try:
        if name == "log":
            if a <= 0:
                raise NotFinite()
            v, e = math.log(a), ea / a
        elif name == "exp":
            v = math.exp(a)
            e = v * ea
        elif name == "sqrt":
            if a <= 0:
                raise NotFinite()
            v = math.sqrt(a)
            e = ea / (2 * v)
        else:
            raise ValueError(name)
    except OverflowError:
        raise NotFinite()
    _chk(v)
    return v, _chk(e + 2 * EPS * abs(v))


def _pf(ast, lookup, off):
    _, name, arg, k = ast
    if k is None:
        k = PF_DEFAULT[name]
    if name == "shift":
        return evaluate(arg, lookup, off + k)
    if name in ("diff", "difflog", "pct", "roc"):
        a, ea = evaluate(arg, lookup, off)
        b, eb = evaluate(arg, lookup, off + k)
        if name == "diff":
            return _binop("sub", a, ea, b, eb)
        if name == "difflog":
            la, lea = _fn("log", a, ea)
            lb, leb = _fn("log", b, eb)
            return _binop("sub", la, lea, lb, leb)
        r, er = _binop("div", a, ea, b, eb)
        if name == "roc":
            return r, er
        # percent change: 100*(x/x[k] - 1); the bound covers 100*x/x[k] - 100 too
        v = 100.0 * (r - 1.0)
        return _chk(v), 100.0 * er + 4 * EPS * (100.0 * abs(r) + 100.0)
    if name in ("movsum", "movavg", "movprod"):
        if k == 0:
            raise ValueError("zero moving window is not generated")
        n = abs(k)
        step = 1 if k > 0 else -1
        vals = [evaluate(arg, lookup, off + step * j) for j in range(n)]
        acc, err = vals[0]
        for v, e in vals[1:]:
            acc, err = _binop("mul" if name == "movprod" else "add", acc, err, v, e)
        if name == "movavg":
            acc, err = _binop("div", acc, err, float(n), 0.0)
        return acc, err
    raise ValueError(name)


def shift_range(ast, off=0):
    """(min, max) total shift reached by a concrete AST."""
    lo, hi = 0, 0
    op = ast[0]
    if op == "var":
        return min(0, ast[2] + off), max(0, ast[2] + off)
    if op == "pf":
        k = ast[3] if ast[3] is not None else PF_DEFAULT[ast[1]]
        if ast[1] in ("movsum", "movavg", "movprod"):
            step = 1 if k > 0 else -1
            offs = [off + step * j for j in range(abs(k))]
        elif ast[1] == "shift":
            offs = [off + k]
        else:
            offs = [off, off + k]
        for o in offs:
            a, b = shift_range(ast[2], o)
            lo, hi = min(lo, a), max(hi, b)
        return lo, hi
    for c in children(ast):
        a, b = shift_range(c, off)
        lo, hi = min(lo, a), max(hi, b)
    return lo, hi
