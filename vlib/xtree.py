"""
Expression trees for the differentiation check (C02): strategy, renderer to
irispie source, and a forward-mode (dual number) evaluator returning the value
and the partial derivative with respect to every variable occurrence.

A tree is JSON-able nested lists:
  ["num", c] ["par", i] ["var", j, k] ["shk", i]
  ["neg", a] ["add", a, b] ["sub", a, b] ["mul", a, b] ["div", a, b]
  ["powc", a, c] (constant exponent)  ["powv", a, b] (variable exponent)  ["cpow", c, b] (constant base)
  ["f1", name, a]   name in log exp sqrt logistic abs normal_cdf normal_pdf
  ["max", a, b] ["min", a, b] ["maxc", a, c] ["minc", a, c]
  ["ctx", name, [args]]   user context functions
"""

import math

from hypothesis import strategies as st

SAFE_F1 = ("log", "exp", "sqrt", "logistic")
RISKY_F1 = ("abs", "normal_cdf", "normal_pdf")


# ---------------------------------------------------------------------------
# user context functions (plain Python, smooth); analytic partials for the oracle
# ---------------------------------------------------------------------------

def softplus(x):
    return math.log(1.0 + math.exp(x)) if not hasattr(x, "shape") else __import__("numpy").log(1.0 + __import__("numpy").exp(x))


def mixer(x, y):
    return x * y / (1.0 + y * y)


CONTEXT = {"softplus": softplus, "mixer": mixer}
CTX_PARTIALS = {
    "softplus": lambda a: (1.0 / (1.0 + math.exp(-a[0])),),
    "mixer": lambda a: (a[1] / (1 + a[1] ** 2), a[0] * (1 - a[1] ** 2) / (1 + a[1] ** 2) ** 2),
}


# ---------------------------------------------------------------------------
# strategy
# ---------------------------------------------------------------------------

_NUM_POS = st.sampled_from([0.5, 1.0, 2.0, 1.5, 0.25, 3.0])
_NUM_ANY = st.sampled_from([0.5, 1.0, 2.0, -1.0, -0.5, 1.5, -2.0, 3.0])
_EXPO = st.sampled_from([2.0, 3.0, 0.5, -1.0, -0.5, 1.5, -2.0])


@st.composite
def tree(draw, nvars, npars, nshocks, depth, pos, min_shift=-3, max_shift=2, risky=False, ctx=True, shocks_ok=True, shift_ok=True):
    def leaf(pos_):
        kind = draw(st.integers(0, 9))
        if kind <= 5 or (not pos_ and kind <= 6):
            k = draw(st.integers(min_shift, max_shift)) if shift_ok and draw(st.integers(0, 2)) else 0
            return ["var", draw(st.integers(0, nvars - 1)), k]
        if kind <= 7 and npars:
            return ["par", draw(st.integers(0, npars - 1))]
        if not pos_ and shocks_ok and nshocks and kind == 8:
            return ["shk", draw(st.integers(0, nshocks - 1))]
        return ["num", draw(_NUM_POS if pos_ else _NUM_ANY)]

    def rec(d, pos_):
        if d <= 0 or draw(st.integers(0, 5)) == 0:
            return leaf(pos_)
        opts = ["add", "mul", "div", "exp", "powc", "logistic", "sqrt", "maxc", "max"]
        if ctx:
            opts += ["softplus"]
        if d >= 2:
            opts += ["powv"]
        if risky:
            opts += ["normal_pdf", "normal_cdf"]
        if not pos_:
            opts += ["neg", "sub", "log", "leaf_any"]
            if ctx:
                opts += ["mixer"]
            if risky:
                opts += ["abs", "cpow", "min", "minc"]
        op = draw(st.sampled_from(opts))
        if op in ("add", "mul", "div"):
            return [op, rec(d - 1, True if pos_ else draw(st.booleans())), rec(d - 1, True)] if pos_ or op == "div" \
                else [op, rec(d - 1, False), rec(d - 1, draw(st.booleans()))]
        if op == "sub":
            return ["sub", rec(d - 1, False), rec(d - 1, False)]
        if op == "neg":
            return ["neg", rec(d - 1, False)]
        if op == "exp":
            return ["f1", "exp", ["mul", ["num", 0.3], rec(d - 1, False)]]
        if op in ("logistic", "normal_pdf", "normal_cdf", "abs"):
            return ["f1", op, rec(d - 1, False)]
        if op in ("log", "sqrt"):
            return ["f1", op, rec(d - 1, True)]
        if op == "powc":
            return ["powc", rec(d - 1, True), draw(_EXPO)]
        if op == "powv":
            return ["powv", rec(d - 2, True), ["mul", ["num", 0.3], rec(d - 2, False)]]
        if op == "cpow":
            return ["cpow", draw(_NUM_POS), rec(d - 1, False)]
        if op == "maxc":
            return ["maxc", rec(d - 1, pos_), draw(_NUM_POS)]
        if op == "minc":
            return ["minc", rec(d - 1, False), draw(_NUM_ANY)]
        if op == "max":
            return ["max", rec(d - 1, pos_), rec(d - 1, False if not pos_ else draw(st.booleans()))] if not pos_ \
                else ["max", rec(d - 1, True), rec(d - 1, False)]
        if op == "min":
            return ["min", rec(d - 1, False), rec(d - 1, False)]
        if op == "softplus":
            return ["ctx", "softplus", [rec(d - 1, False)]]
        if op == "mixer":
            return ["ctx", "mixer", [rec(d - 1, False), rec(d - 1, False)]]
        return leaf(False)

    return rec(depth, pos)


# ---------------------------------------------------------------------------
# rendering
# ---------------------------------------------------------------------------

def _num(c):
    r = repr(float(c))
    return r if c >= 0 else f"({r})"


def render(t, vnames, pnames, snames):
    op = t[0]
    r = lambda a: render(a, vnames, pnames, snames)  # noqa: E731
    if op == "num":
        return _num(t[1])
    if op == "par":
        return pnames[t[1]]
    if op == "var":
        return vnames[t[1]] if t[2] == 0 else f"{vnames[t[1]]}{{{t[2]:+d}}}"
    if op == "shk":
        return snames[t[1]]
    if op == "neg":
        return f"(-{r(t[1])})"
    if op in ("add", "sub", "mul", "div"):
        return f"({r(t[1])} {dict(add='+', sub='-', mul='*', div='/')[op]} {r(t[2])})"
    if op == "powc":
        return f"({r(t[1])})^{_num(t[2])}"
    if op == "powv":
        return f"({r(t[1])})^({r(t[2])})"
    if op == "cpow":
        return f"{_num(t[1])}^({r(t[2])})"
    if op == "f1":
        return f"{t[1]}({r(t[2])})"
    if op == "max":
        return f"maximum({r(t[1])}, {r(t[2])})"
    if op == "min":
        return f"minimum({r(t[1])}, {r(t[2])})"
    if op == "maxc":
        return f"maximum({r(t[1])}, {_num(t[2])})"
    if op == "minc":
        return f"minimum({r(t[1])}, {_num(t[2])})"
    if op == "ctx":
        return f"{t[1]}({', '.join(r(a) for a in t[2])})"
    raise ValueError(op)


def functions_used(t, acc=None):
    acc = set() if acc is None else acc
    op = t[0]
    if op == "f1":
        acc.add(t[1])
    elif op in ("max", "maxc"):
        acc.add("maximum")
    elif op in ("min", "minc"):
        acc.add("minimum")
    elif op == "ctx":
        acc.add("ctx:" + t[1])
    elif op in ("powc", "powv", "cpow"):
        acc.add(op)
    for a in t[1:]:
        if isinstance(a, list) and a and isinstance(a[0], str):
            functions_used(a, acc)
        elif isinstance(a, list):
            for b in a:
                if isinstance(b, list):
                    functions_used(b, acc)
    return acc


def tokens_used(t, acc=None):
    acc = set() if acc is None else acc
    if t[0] == "var":
        acc.add(("v", t[1], t[2]))
    elif t[0] == "shk":
        acc.add(("s", t[1], 0))
    for a in t[1:]:
        if isinstance(a, list) and a and isinstance(a[0], str):
            tokens_used(a, acc)
        elif isinstance(a, list):
            for b in a:
                if isinstance(b, list):
                    tokens_used(b, acc)
    return acc


def _children(t):
    out = []
    for a in t[1:]:
        if isinstance(a, list) and a and isinstance(a[0], str):
            out.append(a)
        elif isinstance(a, list):
            out += [b for b in a if isinstance(b, list)]
    return out


def plain_numeric(t):
    """No variable, shock, parameter or context-function node (all of these are differentiator atoms)."""
    if t[0] in ("var", "shk", "par", "ctx"):
        return False
    return all(plain_numeric(c) for c in _children(t))


def fragile(t):
    """True if the tree contains a construct whose FIRST operand is a constant sub-expression while another
    operand varies (c^x, maximum(c, x), minimum(c, x)): the differentiator dispatches on the first operand,
    so these may be rejected with an exception, which the property allows."""
    op = t[0]
    if op == "cpow":
        return True
    if op in ("powv", "max", "min") and plain_numeric(t[1]) and not plain_numeric(t[2]):
        return True
    return any(fragile(c) for c in _children(t))


def depth(t):
    subs = [a for a in t[1:] if isinstance(a, list) and a and isinstance(a[0], str)]
    for a in t[1:]:
        if isinstance(a, list) and a and isinstance(a[0], list):
            subs += a
    return 1 + max([depth(a) for a in subs], default=0)


# ---------------------------------------------------------------------------
# forward-mode evaluation
# ---------------------------------------------------------------------------

class Inadmissible(Exception):
    """The point is outside the domain or too close to a kink."""


KINK = 1e-3


def _lin(a, da, b, db):
    out = {}
    for k, v in da.items():
        out[k] = out.get(k, 0.0) + a * v
    for k, v in db.items():
        out[k] = out.get(k, 0.0) + b * v
    return out


def _norm_pdf(x):
    return math.exp(-0.5 * x * x) / math.sqrt(2 * math.pi)


def _norm_cdf(x):
    return 0.5 * (1 + math.erf(x / math.sqrt(2)))


def dual(t, val_var, val_par, val_shk):
    """(value, {token: partial}); val_var(j, k) etc. give the evaluation point."""
    op = t[0]
    ev = lambda a: dual(a, val_var, val_par, val_shk)  # noqa: E731
    try:
        if op == "num":
            return float(t[1]), {}
        if op == "par":
            return float(val_par(t[1])), {}
        if op == "var":
            return float(val_var(t[1], t[2])), {("v", t[1], t[2]): 1.0}
        if op == "shk":
            return float(val_shk(t[1])), {("s", t[1], 0): 1.0}
        if op == "neg":
            a, da = ev(t[1])
            return -a, _lin(-1.0, da, 0.0, {})
        if op in ("add", "sub", "mul", "div"):
            a, da = ev(t[1])
            b, db = ev(t[2])
            if op == "add":
                return a + b, _lin(1.0, da, 1.0, db)
            if op == "sub":
                return a - b, _lin(1.0, da, -1.0, db)
            if op == "mul":
                return a * b, _lin(b, da, a, db)
            if abs(b) < 1e-6:
                raise Inadmissible("division by ~0")
            return a / b, _lin(1.0 / b, da, -a / (b * b), db)
        if op == "powc":
            a, da = ev(t[1])
            c = float(t[2])
            if a <= 0:
                raise Inadmissible("power of non-positive base")
            return a ** c, _lin(c * a ** (c - 1), da, 0.0, {})
        if op == "powv":
            a, da = ev(t[1])
            b, db = ev(t[2])
            if a <= 0:
                raise Inadmissible("power of non-positive base")
            v = a ** b
            return v, _lin(b * a ** (b - 1), da, v * math.log(a), db)
        if op == "cpow":
            b, db = ev(t[2])
            c = float(t[1])
            v = c ** b
            return v, _lin(0.0, {}, v * math.log(c), db)
        if op == "f1":
            a, da = ev(t[2])
            nm = t[1]
            if nm == "log":
                if a <= 1e-6:
                    raise Inadmissible("log of non-positive")
                return math.log(a), _lin(1.0 / a, da, 0.0, {})
            if nm == "exp":
                v = math.exp(a)
                return v, _lin(v, da, 0.0, {})
            if nm == "sqrt":
                if a <= 1e-6:
                    raise Inadmissible("sqrt of non-positive")
                return math.sqrt(a), _lin(0.5 / math.sqrt(a), da, 0.0, {})
            if nm == "logistic":
                v = 1.0 / (1.0 + math.exp(-a))
                return v, _lin(v * (1 - v), da, 0.0, {})
            if nm == "abs":
                if abs(a) < KINK:
                    raise Inadmissible("kink of abs")
                return abs(a), _lin(1.0 if a > 0 else -1.0, da, 0.0, {})
            if nm == "normal_cdf":
                return _norm_cdf(a), _lin(_norm_pdf(a), da, 0.0, {})
            if nm == "normal_pdf":
                return _norm_pdf(a), _lin(-a * _norm_pdf(a), da, 0.0, {})
            raise ValueError(nm)
        if op in ("max", "min", "maxc", "minc"):
            a, da = ev(t[1])
            if op in ("maxc", "minc"):
                b, db = float(t[2]), {}
            else:
                b, db = ev(t[2])
            if abs(a - b) < KINK * max(1.0, abs(a), abs(b)):
                raise Inadmissible("kink of max/min")
            take_a = (a > b) if op in ("max", "maxc") else (a < b)
            return (a, dict(da)) if take_a else (b, dict(db))
        if op == "ctx":
            vals, ds = zip(*[ev(a) for a in t[2]])
            v = CONTEXT[t[1]](*vals)
            parts = CTX_PARTIALS[t[1]](vals)
            out = {}
            for p_, d_ in zip(parts, ds):
                for k, x in d_.items():
                    out[k] = out.get(k, 0.0) + p_ * x
            return float(v), out
    except (OverflowError, ZeroDivisionError, ValueError) as exc:
        raise Inadmissible(str(exc))
    raise ValueError(op)
