"""Shared library of the irispie verification machinery (see /verif/DESIGN.md)."""
