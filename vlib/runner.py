"""
Common runner: sharding, seeding, collect-then-shrink, known findings,
evidence writer and exit protocol.  See DESIGN.md section 2.

A check module (checks/cXX_*.py) exposes

    PROPERTY   = "Cxx"
    RULE       = "<how cases are generated and what makes one non-trivial>"
    ASSUMPTIONS = [ ... ]
    SUBCHECKS  = [HypSub(...), EnumSub(...), ...]
    FINDING_MATCHERS = {name: fn(subcheck, case, bucket, message) -> bool}   (optional)

Exit codes: 0 held (possibly with KNOWN-FINDING lines), 1 violation(s) not
listed in known_findings.json, 2 harness error.
"""

from __future__ import annotations

import argparse
import collections
import concurrent.futures as cf
import hashlib
import importlib
import json
import math
import multiprocessing as mp
import os
import re
import sys
import time
import traceback

VERIF_DIR = os.path.dirname(os.path.dirname(os.path.abspath(__file__)))
OUT_DIR = os.environ.get("VERIF_OUT_DIR") or os.path.join(VERIF_DIR, "out")

CHECK_MODULES = {
    "C01": "checks.c01_first_order",
    "C02": "checks.c02_jacobians",
    "C03": "checks.c03_kalman",
    "C04": "checks.c04_parser",
    "C05": "checks.c05_steady",
    "C06": "checks.c06_nonlinear_sim",
    "C07": "checks.c07_plans",
    "C08": "checks.c08_smoother",
    "C09": "checks.c09_periods_spans",
    "C10": "checks.c10_series_map",
    "C11": "checks.c11_period_conversions",
    "C12": "checks.c12_aggregation",
    "C13": "checks.c13_changes",
    "C14": "checks.c14_trend_filters",
    "C15": "checks.c15_acov",
    "C16": "checks.c16_blazer",
    "C17": "checks.c17_sequential",
    "C18": "checks.c18_redvar",
    "C19": "checks.c19_databox",
    "C20": "checks.c20_copies",
}


# ---------------------------------------------------------------------------
# Violations
# ---------------------------------------------------------------------------

class Violation(Exception):
    """One or more property violations found in a single case."""

    def __init__(self, bucket=None, message="", items=None):
        self.items = list(items) if items else [(str(bucket), str(message))]
        super().__init__("; ".join(f"[{b}] {m}" for b, m in self.items))


class Collector:
    """Collect several violations inside one case, raise them together."""

    def __init__(self):
        self.items = []

    def fail(self, bucket, message=""):
        self.items.append((str(bucket), str(message)[:2000]))

    def check(self, cond, bucket, message=""):
        if not cond:
            self.fail(bucket, message() if callable(message) else message)
        return bool(cond)

    def done(self):
        if self.items:
            raise Violation(items=self.items)


def api(bucket, fn, *args, **kwargs):
    """Call into irispie; an exception is a violation labelled `bucket`."""
    try:
        return fn(*args, **kwargs)
    except Violation:
        raise
    except Exception as exc:  # noqa: BLE001 - the contract here is "must not raise"
        raise Violation(f"{bucket}:raises:{type(exc).__name__}", f"{type(exc).__name__}: {exc}"[:1500])


# ---------------------------------------------------------------------------
# Sub-check descriptions
# ---------------------------------------------------------------------------

class HypSub:
    """Hypothesis-driven sub-check: strategy() draws JSON-serialisable cases."""

    kind = "hyp"

    def __init__(self, name, strategy, check, classify=None, budget=None, max_shards=16):
        self.name = name
        self.strategy = strategy
        self.check = check
        self.classify = classify or (lambda case: (True, []))
        self.budget = budget or {"quick": 200, "thorough": 2000}
        self.max_shards = max_shards


class EnumSub:
    """Exhaustive / enumerated sub-check, split in chunks run on the pool.

    chunks(tier) -> list of JSON-able chunk descriptors
    run_chunk(chunk) -> dict(evaluations, nontrivial, labels, samples, failures)
        failures: list of (bucket, message, case)
    """

    kind = "enum"

    def __init__(self, name, chunks, run_chunk, check=None, exhaustive=True):
        self.name = name
        self.chunks = chunks
        self.run_chunk = run_chunk
        self.check = check  # check(case) for replay of a single case
        self.exhaustive = exhaustive


# ---------------------------------------------------------------------------
# Helpers
# ---------------------------------------------------------------------------

def canon(case) -> str:
    return json.dumps(case, sort_keys=True, separators=(",", ":"), default=_json_default)


def _json_default(o):
    try:
        import numpy as np
        if isinstance(o, np.ndarray):
            return o.tolist()
        if isinstance(o, (np.integer,)):
            return int(o)
        if isinstance(o, (np.floating,)):
            return float(o)
        if isinstance(o, (np.bool_,)):
            return bool(o)
    except Exception:  # noqa: BLE001
        pass
    if isinstance(o, (set, frozenset)):
        return sorted(o)
    if isinstance(o, tuple):
        return list(o)
    return repr(o)


def case_hash(case) -> int:
    return int.from_bytes(hashlib.blake2b(canon(case).encode(), digest_size=8).digest(), "big")


def shard_seed(verif_seed: int, prop: str, sub: str, shard: int) -> int:
    h = hashlib.sha256(f"{verif_seed}|{prop}|{sub}|{shard}".encode()).digest()
    return int.from_bytes(h[:8], "big")


def slug(text: str) -> str:
    return re.sub(r"[^A-Za-z0-9_.-]+", "_", text)[:80].strip("_") or "x"


def load_module(prop: str):
    from . import env
    env.setup()
    if VERIF_DIR not in sys.path:
        sys.path.insert(0, VERIF_DIR)
    return importlib.import_module(CHECK_MODULES[prop])


def _subchecks(mod):
    return {s.name: s for s in mod.SUBCHECKS}


# ---------------------------------------------------------------------------
# Known findings
# ---------------------------------------------------------------------------

def load_findings(prop: str):
    path = os.path.join(VERIF_DIR, "known_findings.json")
    if not os.path.exists(path):
        return []
    with open(path) as f:
        doc = json.load(f)
    return [e for e in doc.get("findings", []) if e.get("property") == prop]


def _run_case(mod, subname, case):
    """Run one case; return list of (bucket, message); harness errors propagate."""
    sub = _subchecks(mod)[subname]
    if sub.check is None:
        raise RuntimeError(f"sub-check {subname} has no single-case check")
    import contextlib
    try:
        with contextlib.redirect_stdout(_devnull()):      # the code under test prints solver iterations
            sub.check(case)
    except Violation as v:
        return v.items
    except Exception as exc:  # noqa: BLE001
        items = _classify_exception(exc)
        if items is None:
            raise
        return items
    return []


def _classify_exception(exc):
    """An exception escaping a check: raised inside irispie => violation,
    raised in harness code => harness error (returns None)."""
    from . import env
    tb = traceback.extract_tb(exc.__traceback__)
    if not tb:
        return None
    src = env.src_dir()
    inner = tb[-1]
    # innermost frame that belongs to either irispie or the harness
    for fr in reversed(tb):
        fn = os.path.realpath(fr.filename)
        if fn.startswith(src + os.sep):
            rel = os.path.relpath(fn, src)
            return [(f"exception:{type(exc).__name__}@{rel}:{fr.name}", f"{type(exc).__name__}: {exc}"[:1500])]
        if fn.startswith(VERIF_DIR + os.sep):
            return None
    del inner
    return None


# ---------------------------------------------------------------------------
# Shard execution (worker processes)
# ---------------------------------------------------------------------------

MAX_FAIL_CASES_PER_BUCKET = 3


def _new_result():
    return {
        "evaluations": 0,
        "nontrivial_hashes": set(),
        "nontrivial_count": 0,
        "labels": collections.Counter(),
        "samples": [],
        "failures": {},          # bucket -> list of (message, case, shard_seed)
        "excluded": collections.Counter(),
        "harness_errors": [],
        "exhaustive_chunks": 0,
    }


def _hyp_settings(n, phases):
    from hypothesis import settings, HealthCheck
    return settings(
        max_examples=n,
        phases=phases,
        database=None,
        deadline=None,
        derandomize=False,
        report_multiple_bugs=False,
        print_blob=False,
        suppress_health_check=[HealthCheck.too_slow, HealthCheck.data_too_large, HealthCheck.large_base_example],
    )


def _active_matchers(mod, findings_active):
    matchers = getattr(mod, "FINDING_MATCHERS", {})
    out = []
    for e in findings_active:
        name = e.get("matcher")
        if name and name in matchers:
            out.append((e["id"], matchers[name]))
    return out


_DEVNULL = None


def _devnull():
    global _DEVNULL
    if _DEVNULL is None:
        _DEVNULL = open(os.devnull, "w")
    return _DEVNULL


def _silence_stdout():
    """Worker processes: the code under test prints solver iterations to stdout."""
    sys.stdout = _devnull()


def _run_hyp_shard(prop, subname, shard, n, seed_int, findings_active, deadline_ts):
    from hypothesis import given, seed, Phase
    _silence_stdout()
    mod = load_module(prop)
    sub = _subchecks(mod)[subname]
    res = _new_result()
    matchers = _active_matchers(mod, findings_active)

    @seed(seed_int)
    @_hyp_settings(n, [Phase.generate])
    @given(sub.strategy())
    def run(case):
        if time.time() > deadline_ts:
            res["labels"]["_deadline_skipped"] += 1
            return
        res["evaluations"] += 1
        nontrivial, labels = sub.classify(case)
        items = []
        extra = None
        try:
            extra = sub.check(case)
        except Violation as v:
            items = v.items
        except Exception as exc:  # noqa: BLE001
            items = _classify_exception(exc)
            if items is None:
                if len(res["harness_errors"]) < 3:
                    res["harness_errors"].append({
                        "sub": subname, "case": case,
                        "trace": traceback.format_exc()[-3000:],
                    })
                return
        if isinstance(extra, dict):
            labels = list(labels) + list(extra.get("labels", []))
            nontrivial = nontrivial and extra.get("nontrivial", True)
        for lb in labels:
            res["labels"][lb] += 1
        if nontrivial:
            res["nontrivial_hashes"].add(case_hash(case))
            if len(res["samples"]) < 2:
                res["samples"].append({"subcheck": subname, "case": case})
        for bucket, message in items:
            matched = False
            for fid, fn in matchers:
                if fn(subname, case, bucket, message):
                    res["excluded"][fid] += 1
                    matched = True
                    break
            if matched:
                continue
            lst = res["failures"].setdefault(bucket, [])
            lst.append((message, case, seed_int))
            lst.sort(key=lambda t: len(canon(t[1])))
            del lst[MAX_FAIL_CASES_PER_BUCKET:]

    try:
        run()
    except Exception:  # noqa: BLE001 - hypothesis health checks etc.
        res["harness_errors"].append({"sub": subname, "case": None, "trace": traceback.format_exc()[-3000:]})
    res["nontrivial_hashes"] = list(res["nontrivial_hashes"])
    return subname, res


def _run_enum_chunk(prop, subname, chunk, findings_active, deadline_ts):
    _silence_stdout()
    mod = load_module(prop)
    sub = _subchecks(mod)[subname]
    res = _new_result()
    if time.time() > deadline_ts:
        res["labels"]["_deadline_skipped"] += 1
        res["nontrivial_hashes"] = []
        return subname, res
    matchers = _active_matchers(mod, findings_active)
    try:
        out = sub.run_chunk(chunk)
    except Exception:  # noqa: BLE001
        res["harness_errors"].append({"sub": subname, "case": chunk, "trace": traceback.format_exc()[-3000:]})
        res["nontrivial_hashes"] = []
        return subname, res
    res["evaluations"] = int(out.get("evaluations", 0))
    res["nontrivial_count"] = int(out.get("nontrivial", 0))
    res["labels"].update(out.get("labels", {}))
    res["samples"] = [{"subcheck": subname, "case": c} for c in out.get("samples", [])[:2]]
    res["exhaustive_chunks"] = 1
    for bucket, message, case in out.get("failures", []):
        matched = False
        for fid, fn in matchers:
            if fn(subname, case, bucket, message):
                res["excluded"][fid] += 1
                matched = True
                break
        if matched:
            continue
        lst = res["failures"].setdefault(bucket, [])
        if len(lst) < MAX_FAIL_CASES_PER_BUCKET:
            lst.append((message, case, 0))
    res["nontrivial_hashes"] = []
    return subname, res


def _shrink_worker(prop, subname, bucket, n, seed_int, findings_active, budget_s, first_case):
    """Re-find `bucket` under the same seed with the shrink phase on."""
    from hypothesis import given, seed, Phase
    _silence_stdout()
    mod = load_module(prop)
    sub = _subchecks(mod)[subname]
    matchers = _active_matchers(mod, findings_active)
    best = {"case": first_case, "size": len(canon(first_case)), "message": None}
    t0 = time.time()

    def fails(case):
        try:
            items = _run_case(mod, subname, case)
        except Exception:  # noqa: BLE001
            return None
        for b, m in items:
            if b != bucket:
                continue
            if any(fn(subname, case, b, m) for _, fn in matchers):
                continue
            return m
        return None

    class _Found(Exception):
        pass

    @seed(seed_int)
    @_hyp_settings(max(n, 50), [Phase.generate, Phase.shrink])
    @given(sub.strategy())
    def run(case):
        if time.time() - t0 > budget_s:
            return
        m = fails(case)
        if m is not None:
            size = len(canon(case))
            if size <= best["size"] or best["message"] is None:
                best.update(case=case, size=size, message=m)
            raise _Found()

    try:
        run()
    except BaseException:  # noqa: BLE001 - _Found, Flaky, ... : best-so-far is what we keep
        pass
    if best["message"] is None:
        best["message"] = fails(first_case) or "(not reproduced during shrinking)"
    return best["case"], best["message"]


# ---------------------------------------------------------------------------
# Main driver
# ---------------------------------------------------------------------------

def _write_violation(prop, subname, bucket, message, case):
    d = os.path.join(OUT_DIR, "violations", prop)
    os.makedirs(d, exist_ok=True)
    h = hashlib.sha1(canon(case).encode()).hexdigest()[:10]
    path = os.path.join(d, f"{slug(subname)}__{slug(bucket)}__{h}.json")
    with open(path, "w") as f:
        json.dump({"property": prop, "subcheck": subname, "bucket": bucket,
                   "message": message, "case": case}, f, indent=1, default=_json_default)
    return path


def _load_replay(path):
    with open(path) as f:
        return json.load(f)


def run_replay_file(prop, mod, path):
    doc = _load_replay(path)
    items = _run_case(mod, doc["subcheck"], doc["case"])
    return doc, items


def main(argv=None):
    ap = argparse.ArgumentParser()
    ap.add_argument("property")
    ap.add_argument("--tier", default=os.environ.get("VERIF_TIER", "quick"), choices=["quick", "thorough"])
    ap.add_argument("--replay", default=None)
    ap.add_argument("--jobs", type=int, default=int(os.environ.get("VERIF_JOBS", "16")))
    ap.add_argument("--only", default=None, help="comma-separated sub-check names")
    ap.add_argument("--scale", type=float, default=float(os.environ.get("VERIF_SCALE", "1")))
    ap.add_argument("--max-seconds", type=float, default=None)
    ap.add_argument("--no-evidence", action="store_true")
    args = ap.parse_args(argv)

    # one BLAS thread per shard process (16 shards x multi-threaded BLAS is far slower), fixed hash seed
    wanted = {"PYTHONHASHSEED": "0", "OMP_NUM_THREADS": "1", "OPENBLAS_NUM_THREADS": "1", "MKL_NUM_THREADS": "1"}
    if any(os.environ.get(k) != v for k, v in wanted.items()):
        os.environ.update(wanted)
        os.execv(sys.executable, [sys.executable, "-W", "ignore"] + sys.argv)

    prop = args.property.upper()
    if prop not in CHECK_MODULES:
        print(f"HARNESS-ERROR unknown property {prop}")
        return 2
    try:
        verif_seed = int(os.environ.get("VERIF_SEED", "1"))
    except ValueError:
        verif_seed = 1
    t0 = time.time()
    try:
        mod = load_module(prop)
    except Exception:  # noqa: BLE001
        print("HARNESS-ERROR cannot load check module")
        traceback.print_exc()
        return 2

    # ---- single replay ---------------------------------------------------
    if args.replay:
        try:
            doc, items = run_replay_file(prop, mod, args.replay)
        except Exception:  # noqa: BLE001
            print("HARNESS-ERROR replay failed to run")
            traceback.print_exc()
            return 2
        if items:
            for b, m in items:
                print(f"  [{b}] {m}")
            print(f"VIOLATION property={prop} replay={args.replay}")
            return 1
        print(f"replay passed: {args.replay}")
        return 0

    # violations of earlier runs of this property are stale once a new run starts
    import shutil
    shutil.rmtree(os.path.join(OUT_DIR, "violations", prop), ignore_errors=True)
    max_seconds = args.max_seconds or (900 if args.tier == "quick" else 6 * 3600)
    deadline_ts = t0 + max_seconds
    subs = _subchecks(mod)
    if args.only:
        keep = set(args.only.split(","))
        subs = {k: v for k, v in subs.items() if k in keep}

    # ---- known findings: replay witnesses --------------------------------
    findings = load_findings(prop)
    active, known_lines, harness_errors = [], [], []
    new_violations = []   # (subname, bucket, message, case, path)
    for e in findings:
        if e.get("status") != "open":
            continue
        wpath = os.path.join(VERIF_DIR, e["witness"])
        try:
            doc, items = run_replay_file(prop, mod, wpath)
        except Exception:  # noqa: BLE001
            harness_errors.append({"sub": "known-finding-witness", "case": e["id"], "trace": traceback.format_exc()[-3000:]})
            continue
        matcher = getattr(mod, "FINDING_MATCHERS", {}).get(e.get("matcher"))
        still = [(b, m) for b, m in items if matcher is None or matcher(doc["subcheck"], doc["case"], b, m)]
        if still:
            active.append(e)
            known_lines.append(f"KNOWN-FINDING: property={prop} {e['what']}")
        other = [(b, m) for b, m in items if (b, m) not in still]
        for b, m in other:
            new_violations.append((doc["subcheck"], b, m, doc["case"], wpath))

    # ---- replay tier -------------------------------------------------------
    replay_dir = os.path.join(VERIF_DIR, "replays", prop)
    witness_paths = {os.path.realpath(os.path.join(VERIF_DIR, e["witness"])) for e in findings if e.get("status") == "open"}
    n_replays = 0
    if os.path.isdir(replay_dir):
        for fn in sorted(os.listdir(replay_dir)):
            if not fn.endswith(".json"):
                continue
            path = os.path.join(replay_dir, fn)
            if os.path.realpath(path) in witness_paths:
                continue
            try:
                doc, items = run_replay_file(prop, mod, path)
            except Exception:  # noqa: BLE001
                harness_errors.append({"sub": "replay", "case": fn, "trace": traceback.format_exc()[-3000:]})
                continue
            n_replays += 1
            matchers = _active_matchers(mod, active)
            for b, m in items:
                if any(f(doc["subcheck"], doc["case"], b, m) for _, f in matchers):
                    continue
                new_violations.append((doc["subcheck"], b, m, doc["case"], path))

    # ---- generated search -------------------------------------------------
    total = _new_result()
    total["nontrivial_hashes"] = set()
    per_sub = {}
    tasks = []
    for name, sub in subs.items():
        if sub.kind == "hyp":
            budget = max(1, int(math.ceil(sub.budget[args.tier] * args.scale)))
            nshards = max(1, min(sub.max_shards, args.jobs, budget // 20 or 1))
            per = int(math.ceil(budget / nshards))
            for sh in range(nshards):
                tasks.append(("hyp", name, sh, per, shard_seed(verif_seed, prop, name, sh)))
        else:
            for ch in sub.chunks(args.tier):
                tasks.append(("enum", name, ch))

    ctx = mp.get_context("fork")
    results = []
    with cf.ProcessPoolExecutor(max_workers=args.jobs, mp_context=ctx) as pool:
        futs = []
        for t in tasks:
            if t[0] == "hyp":
                futs.append(pool.submit(_run_hyp_shard, prop, t[1], t[2], t[3], t[4], active, deadline_ts))
            else:
                futs.append(pool.submit(_run_enum_chunk, prop, t[1], t[2], active, deadline_ts))
        for fu in cf.as_completed(futs):
            try:
                results.append(fu.result())
            except Exception:  # noqa: BLE001
                harness_errors.append({"sub": "pool", "case": None, "trace": traceback.format_exc()[-3000:]})

    results.sort(key=lambda r: r[0])
    failures = {}   # (sub, bucket) -> list of (message, case, seed)
    for subname, r in results:
        ps = per_sub.setdefault(subname, {"evaluations": 0, "nontrivial": 0, "hashes": set(), "violating_buckets": 0})
        ps["evaluations"] += r["evaluations"]
        ps["hashes"].update(r["nontrivial_hashes"])
        ps["nontrivial"] += r["nontrivial_count"]
        total["evaluations"] += r["evaluations"]
        total["labels"].update({f"{subname}:{k}": v for k, v in r["labels"].items()})
        total["excluded"].update(r["excluded"])
        total["exhaustive_chunks"] += r["exhaustive_chunks"]
        if len([s for s in total["samples"] if s["subcheck"] == subname]) < 2:
            total["samples"].extend(r["samples"][:1])
        harness_errors.extend(r["harness_errors"])
        for b, lst in r["failures"].items():
            failures.setdefault((subname, b), []).extend(lst)
    inconclusive = any(k.endswith("_deadline_skipped") for k in total["labels"])

    # ---- shrink each new bucket -------------------------------------------
    shrink_jobs = []
    hyp_n = {}
    for t in tasks:
        if t[0] == "hyp":
            hyp_n[(t[1], t[4])] = t[3]
    shrink_budget = 120 if args.tier == "quick" else 280
    keys = sorted(failures)[:12]
    with cf.ProcessPoolExecutor(max_workers=args.jobs, mp_context=ctx) as pool:
        for (subname, bucket) in keys:
            lst = sorted(failures[(subname, bucket)], key=lambda t: len(canon(t[1])))
            message, case, sd = lst[0]
            if subs[subname].kind == "hyp" and os.environ.get("VERIF_NO_SHRINK") != "1":
                fu = pool.submit(_shrink_worker, prop, subname, bucket, hyp_n.get((subname, sd), 200), sd, active, shrink_budget, case)
            else:
                fu = None
            shrink_jobs.append((subname, bucket, message, case, fu))
        for subname, bucket, message, case, fu in shrink_jobs:
            if fu is not None:
                try:
                    c2, m2 = fu.result(timeout=shrink_budget + 200)
                    if c2 is not None and len(canon(c2)) <= len(canon(case)):
                        case, message = c2, (m2 or message)
                except Exception:  # noqa: BLE001
                    pass
            path = _write_violation(prop, subname, bucket, message, case)
            new_violations.append((subname, bucket, message, case, path))
    for (subname, bucket) in sorted(failures)[12:]:
        message, case, _ = failures[(subname, bucket)][0]
        path = _write_violation(prop, subname, bucket, message, case)
        new_violations.append((subname, bucket, message, case, path))

    # ---- evidence -----------------------------------------------------------
    distinct_nontrivial = sum(len(ps["hashes"]) + ps["nontrivial"] for ps in per_sub.values())
    wall = time.time() - t0
    exhaustive_subs = [n for n, s in subs.items() if s.kind == "enum" and s.exhaustive]
    evidence = {
        "property_id": prop,
        "tier": args.tier,
        "seed": verif_seed,
        "level": "exploration",
        "coverage": {
            "evaluations": total["evaluations"] + n_replays,
            "distinct_nontrivial": distinct_nontrivial,
            "rule": getattr(mod, "RULE", ""),
            "samples": total["samples"][:8],
            "subchecks": {
                n: {"evaluations": ps["evaluations"], "distinct_nontrivial": len(ps["hashes"]) + ps["nontrivial"]}
                for n, ps in sorted(per_sub.items())
            },
            "classes": dict(sorted(total["labels"].items())),
            "excluded_by_finding": dict(total["excluded"]),
            "exhaustive_subchecks": exhaustive_subs,
            "replays_run": n_replays,
            "known_findings_active": [e["id"] for e in active],
            "inconclusive_time_budget_hit": inconclusive,
            "irispie_src": __import__("vlib.env", fromlist=["x"]).src_dir(),
        },
        "assumptions": list(getattr(mod, "ASSUMPTIONS", [])),
        "wall_s": round(wall, 2),
        "violations": len(new_violations),
    }
    if not args.no_evidence and not args.only:
        os.makedirs(os.path.join(VERIF_DIR, "evidence"), exist_ok=True)
        with open(os.path.join(VERIF_DIR, "evidence", f"{prop}.json"), "w") as f:
            json.dump(evidence, f, indent=1, default=_json_default)

    # ---- report --------------------------------------------------------------
    print(f"{prop} tier={args.tier} seed={verif_seed} evaluations={evidence['coverage']['evaluations']} "
          f"distinct_nontrivial={distinct_nontrivial} replays={n_replays} wall={wall:.1f}s")
    for n, ps in sorted(per_sub.items()):
        print(f"  {n}: evaluations={ps['evaluations']} nontrivial={len(ps['hashes']) + ps['nontrivial']}")
    if total["excluded"]:
        print(f"  excluded_by_finding={dict(total['excluded'])}")
    for ln in known_lines:
        print(ln)
    if harness_errors:
        for he in harness_errors[:5]:
            print(f"HARNESS-ERROR sub={he['sub']}")
            print(he["trace"])
            if he.get("case") is not None:
                print("  case:", canon(he["case"])[:1500])
        return 2
    if distinct_nontrivial < 2 and not args.only:
        print("HARNESS-ERROR fewer than two non-trivial cases were generated")
        return 2
    if new_violations:
        for subname, bucket, message, case, path in new_violations:
            print(f"  sub={subname} bucket={bucket}: {message[:600]}")
            print(f"VIOLATION property={prop} replay={path}")
        return 1
    return 0
