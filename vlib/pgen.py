"""
Period descriptions shared by the date/series checks.

A period description (JSON-able) is
    {"f": 1|2|4|12, "y": year, "s": segment}     regular frequencies
    {"f": 365, "o": proleptic ordinal}           daily
    {"f": 0, "n": integer}                       integer frequency
`mk` builds the irispie Period through the public constructors only;
`ref_index` is the harness-side position in the total order.
"""

import datetime as dt

from hypothesis import strategies as st

from . import refcal


def mk(pd):
    import irispie as ir
    f = pd["f"]
    if f == 1:
        return ir.yy(pd["y"])
    if f == 2:
        return ir.hh(pd["y"], pd["s"])
    if f == 4:
        return ir.qq(pd["y"], pd["s"])
    if f == 12:
        return ir.mm(pd["y"], pd["s"])
    if f == 365:
        d = dt.date.fromordinal(pd["o"])
        return ir.dd(d.year, d.month, d.day)
    if f == 0:
        return ir.ii(pd["n"])
    raise ValueError(pd)


def ref_index(pd):
    f = pd["f"]
    if f in refcal.REGULAR:
        return refcal.index_regular(f, pd["y"], pd["s"])
    if f == 365:
        return pd["o"]
    return pd["n"]


def from_index(f, idx):
    if f in refcal.REGULAR:
        return {"f": f, "y": idx // f, "s": idx % f + 1}
    if f == 365:
        return {"f": f, "o": idx}
    return {"f": f, "n": idx}


def describe(pd):
    f = pd["f"]
    if f in refcal.REGULAR:
        return refcal.sdmx_regular(f, pd["y"], pd["s"])
    if f == 365:
        return dt.date.fromordinal(pd["o"]).isoformat()
    return f"({pd['n']})"


def freq_enum(f):
    import irispie as ir
    return ir.Frequency(f)


_YEARS = st.one_of(
    st.integers(1950, 2060),
    st.integers(2, 9998),
    st.sampled_from([2, 4, 100, 400, 1600, 1899, 1900, 1999, 2000, 2001, 2020, 2024, 2100, 9998]),
)


@st.composite
def period_desc(draw, freq=None, freqs=refcal.ALL, margin_years=0):
    f = freq if freq is not None else draw(st.sampled_from(freqs))
    if f in refcal.REGULAR:
        y = draw(_YEARS)
        y = min(max(y, 1 + margin_years), 9999 - margin_years)
        s = draw(st.integers(1, f))
        return {"f": f, "y": y, "s": s}
    if f == 365:
        lo = dt.date(1 + margin_years, 1, 1).toordinal()
        hi = dt.date(9999 - margin_years, 12, 31).toordinal()
        kind = draw(st.integers(0, 3))
        if kind == 0:
            o = draw(st.integers(lo, hi))
        elif kind == 1:
            o = draw(st.integers(dt.date(1950, 1, 1).toordinal(), dt.date(2060, 12, 31).toordinal()))
        else:
            # around year / leap-day / month boundaries
            y = min(max(draw(_YEARS), 1 + margin_years), 9999 - margin_years)
            m = draw(st.sampled_from([1, 2, 3, 12, 6, 7]))
            base = dt.date(y, m, 1).toordinal()
            o = min(max(base + draw(st.integers(-3, 31)), lo), hi)
        return {"f": f, "o": o}
    n = draw(st.one_of(st.integers(-50, 50), st.integers(-10**6, 10**6)))
    return {"f": 0, "n": n}


def nearby(draw, pd, max_dist=40, lo_margin=0):
    """A period of the same frequency at a drawn (possibly zero) distance."""
    f = pd["f"]
    k = draw(st.one_of(st.integers(-max_dist, max_dist), st.integers(-3, 3)))
    idx = ref_index(pd) + k
    if f in refcal.REGULAR:
        idx = min(max(idx, f * 1), f * 9999 + f - 1)
    elif f == 365:
        idx = min(max(idx, 1), dt.date(9999, 12, 31).toordinal())
    return from_index(f, idx)
