"""
Dense joint-Gaussian reference for state-space models, built from impulse
responses (MA representation), not from any solution matrix.

Time: in-sample t = 0..N-1, pre-sample tau = -HPRE..-1.  The base vector is
e = [u_{i,tau} for tau = -HPRE..N-1] + [w_{m,t} for t = 0..N-1], independent
with variances d.  Every model quantity is  mean + row . e.
"""

import numpy as np
import scipy.linalg as sla

from . import linmodels as lm, simdata as sd

HPRE = 200


def impulse_responses(m1, spec, horizon):
    """Phi[i][h, v]: response at horizon h of variable v (transition vars then measurement vars,
    in logs for the log rendering) to a unit shock i (effective transition shocks only)."""
    import irispie as ir
    start = ir.qq(2020, 1)
    Lmax, Fmax = lm.max_lag_lead(spec)
    Lmax = max(Lmax, 1)
    names = spec["names"] + lm.meas_names(spec)
    shocks = [s for s in lm.shock_names(spec) if s]
    Phi = np.zeros((len(shocks), horizon, len(names)))
    for si, sname in enumerate(shocks):
        db = sd.steady_db(m1, spec, start, -Lmax, horizon + Fmax, True)
        db[sname][start] = 1.0
        out = m1.simulate(db, start >> (start + horizon - 1), method="first_order", deviation=True)
        for vi, nm in enumerate(names):
            a = np.asarray(out[nm].get_data(start >> (start + horizon - 1)))[:, 0]
            Phi[si, :, vi] = np.log(a) if spec["log"] else a
    return Phi, shocks, names


class Joint:
    def __init__(self, spec, m1, N, std_u, std_w, tv_std_u=None, tv_std_w=None, deviation=False):
        """std_u/std_w: dict shock name -> model std; tv_*: dict shock name -> list of N in-sample stds."""
        self.spec, self.N = spec, N
        Phi, shocks, names = impulse_responses(m1, spec, HPRE + N)
        self.names = names
        self.shocks = shocks
        self.mshocks = [w for w in lm.mshock_names(spec) if w]
        nu, nw, nall = len(shocks), len(self.mshocks), len(names)
        self.nall = nall
        T = HPRE + N
        self.ne = nu * T + nw * N
        self.tail = float(np.max(np.abs(Phi[:, HPRE - 1:, :]), initial=0.0)) if False else float(np.max(np.abs(Phi[:, -1, :]), initial=0.0))
        # variances
        d = np.zeros(self.ne)
        for i, s in enumerate(shocks):
            d[i * T:(i + 1) * T] = std_u[s] ** 2
            if tv_std_u and s in tv_std_u:
                d[i * T + HPRE:(i + 1) * T] = np.asarray(tv_std_u[s], dtype=float) ** 2
        for k, w in enumerate(self.mshocks):
            d[nu * T + k * N: nu * T + (k + 1) * N] = std_w[w] ** 2
            if tv_std_w and w in tv_std_w:
                d[nu * T + k * N: nu * T + (k + 1) * N] = np.asarray(tv_std_w[w], dtype=float) ** 2
        self.d = d
        self.T = T
        # rows: quantity (t, v) -> row t*nall + v
        M = np.zeros((N * nall, self.ne))
        for t in range(N):
            for i in range(nu):
                # tau = -HPRE..t  <->  column i*T + (tau+HPRE); horizon t - tau
                hs = np.arange(t + HPRE, -1, -1)
                M[t * nall:(t + 1) * nall, i * T: i * T + t + HPRE + 1] = Phi[i, hs, :].T
        # measurement shocks: contemporaneous loading on own measurement variable
        mn = lm.meas_names(spec)
        wn = lm.mshock_names(spec)
        k = 0
        for mi, w in enumerate(wn):
            if not w:
                continue
            v = names.index(mn[mi])
            for t in range(N):
                M[t * nall + v, nu * T + k * N + t] = spec["meas"][mi]["shock"]
            k += 1
        self.M = M
        xs, ys = lm.steady(spec)
        if xs is None:
            xs, ys = np.zeros(spec["n"]), np.zeros(len(spec["meas"]))
        mean = np.concatenate([xs, ys]) if not deviation else np.zeros(nall)
        self.mean = np.tile(mean, N)

    def row(self, t, name):
        return t * self.nall + self.names.index(name)

    def u_col(self, shock, t):
        return self.shocks.index(shock) * self.T + HPRE + t

    def w_col(self, mshock, t):
        return len(self.shocks) * self.T + self.mshocks.index(mshock) * self.N + t

    def condition(self, obs_rows, y_obs):
        """Return (e_mean, function var(rowvec), nll parts) given observed rows and their values (in logs)."""
        if len(obs_rows) == 0:
            return Conditioned(self, None, None, None, None)
        A = self.M[obs_rows]
        AD = A * self.d
        S = AD @ A.T
        S = (S + S.T) / 2
        r = np.asarray(y_obs, dtype=float) - self.mean[obs_rows]
        ev = np.linalg.eigvalsh(S)
        if ev[0] <= 1e-7 * ev[-1] or ev[0] < 1e-8:      # cond > 1e7: rounding in the recursions is amplified beyond the tolerances
            return None         # singular observation covariance: outside the property
        cho = sla.cho_factor(S)
        Sir = sla.cho_solve(cho, r)
        return Conditioned(self, AD, cho, Sir, (S, r))


class Conditioned:
    def __init__(self, joint, AD, cho, Sir, Sr):
        self.j, self.AD, self.cho, self.Sir, self.Sr = joint, AD, cho, Sir, Sr
        self.e_mean = (AD.T @ Sir) if AD is not None else np.zeros(joint.ne)

    def mean_of_row(self, row):
        return float(self.j.mean[row] + self.j.M[row] @ self.e_mean)

    def var_of_row(self, row):
        m = self.j.M[row]
        v = float((m * self.j.d) @ m)
        if self.AD is not None:
            b = self.AD @ m
            v -= float(b @ sla.cho_solve(self.cho, b))
        return v

    def cov_of_rows(self, rows):
        Mr = self.j.M[rows]
        C = (Mr * self.j.d) @ Mr.T
        if self.AD is not None:
            B = self.AD @ Mr.T
            C = C - B.T @ sla.cho_solve(self.cho, B)
        return (C + C.T) / 2

    def mean_of_e(self, col):
        return float(self.e_mean[col])

    def var_of_e(self, col):
        v = float(self.j.d[col])
        if self.AD is not None:
            b = self.AD[:, col]
            v -= float(b @ sla.cho_solve(self.cho, b))
        return v

    def nll(self):
        """-log density of the observed vector (0 if nothing observed), and (n, logdet, quad)."""
        if self.Sr is None:
            return 0.0, (0, 0.0, 0.0)
        S, r = self.Sr
        n = len(r)
        logdet = 2.0 * float(np.sum(np.log(np.diag(self.cho[0]))))
        quad = float(r @ self.Sir)
        return 0.5 * (n * np.log(2 * np.pi) + logdet + quad), (n, logdet, quad)

    def cond_number(self):
        if self.Sr is None:
            return 1.0
        return float(np.linalg.cond(self.Sr[0]))
