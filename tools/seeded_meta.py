#!/venv/bin/python
"""Fill needs / caught_by / caught_at / breaks / ran in seeded/<id>/meta.json from mutants/RESULTS.json.

  seeded_meta.py <id> "<what it needs to manifest>" ["<note: missed before, what was added>"]
"""
import json
import os
import sys

HERE = os.path.dirname(os.path.dirname(os.path.abspath(__file__)))
sid, needs = sys.argv[1], sys.argv[2]
note = sys.argv[3] if len(sys.argv) > 3 else ""
R = json.load(open(os.path.join(HERE, "mutants", "RESULTS.json")))
r = R[f"seeded/{sid}"]
p = os.path.join(HERE, "seeded", sid, "meta.json")
m = json.load(open(p))
prop = m["property"]
assert r["outcome"] == "killed", (sid, r["outcome"])
killers = {c: v for c, v in r["checks"].items() if v["exit"] == 1}
m["needs"] = needs
m["caught_by"] = "; ".join(f"{c} ({', '.join(v['buckets'][:5])})" for c, v in killers.items()) + (f"; {note}" if note else "")
m["caught_at"] = f"{r.get('tier', 'quick')} tier, seed 1" + (", after strengthening" if note else "")
m["breaks"] = prop
m["ran"] = (f"tools/seeded_import.py (demo with/without the change, pinned suite) and tools/mutation_run.py seeded/{sid}/patch.diff "
            "(quick tier of the property's check against a scratch copy)")
json.dump(m, open(p, "w"), indent=1)
print(sid, "->", m["caught_by"][:160])
