#!/bin/sh
# Run the thorough tier of the given (or all registered) properties one after another; log a one-line summary each.
cd "$(dirname "$0")/.." && mkdir -p out
props="$@"
[ -z "$props" ] && props=$(/venv/bin/python -c "import json; print(' '.join(c['property_id'] for c in json.load(open('MANIFEST.json'))['checks']))")
for p in $props; do
  start=$(date +%s)
  /venv/bin/python run_check.py $p --tier thorough --no-evidence > out/thorough_$p.log 2>&1
  code=$?
  echo "$p exit=$code wall=$(( $(date +%s) - start ))s $(grep "^$p tier" out/thorough_$p.log | cut -c1-120)"
  grep "^VIOLATION\|sub=" out/thorough_$p.log | cut -c1-300 | head -6
done
