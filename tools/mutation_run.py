#!/venv/bin/python
"""
Sensitivity runs: apply each patch in /verif/mutants (or /verif/seeded/*/patch.diff)
to a scratch copy of /repo/src outside /repo and /verif, run the property's
quick check with IRISPIE_SRC pointing at the copy, expect exit 1 + VIOLATION.

usage: mutation_run.py [--tier quick] [--only C01,C09] [--jobs 4] [patch ...]
Results are merged into /verif/mutants/RESULTS.json.
"""
import argparse
import concurrent.futures as cf
import glob
import json
import os
import re
import shutil
import subprocess
import sys
import tempfile
import time

HERE = os.path.dirname(os.path.dirname(os.path.abspath(__file__)))


def prop_of(path):
    base = os.path.basename(path)
    m = re.match(r"(C\d\d)", base)
    if m:
        return m.group(1)
    meta = os.path.join(os.path.dirname(path), "meta.json")
    if os.path.exists(meta):
        return json.load(open(meta))["property"]
    raise ValueError(f"cannot tell the property of {path}")


def key_of(path):
    if os.path.basename(path) == "patch.diff":
        return "seeded/" + os.path.basename(os.path.dirname(path))
    return "mutants/" + os.path.basename(path)


def run_one(path, tier, check_props=None, scale=None):
    prop = prop_of(path)
    props = check_props or [prop]
    scratch = tempfile.mkdtemp(prefix="irispie_mut_", dir="/tmp")
    t0 = time.time()
    try:
        shutil.copytree("/repo/src", os.path.join(scratch, "src"), ignore=shutil.ignore_patterns("__pycache__"))
        r = subprocess.run(["patch", "-p1", "-s", "-d", scratch, "-i", os.path.abspath(path)], capture_output=True, text=True)
        if r.returncode != 0:
            return key_of(path), {"property": prop, "outcome": "patch_failed", "detail": (r.stdout + r.stderr)[-500:]}
        env = dict(os.environ, IRISPIE_SRC=os.path.join(scratch, "src"), VERIF_NO_SHRINK="1",
                   VERIF_OUT_DIR=os.path.join(scratch, "out"))
        outcomes = {}
        for p in props:
            cmd = [sys.executable, os.path.join(HERE, "run_check.py"), p, "--tier", tier, "--no-evidence"]
            if scale:
                cmd += ["--scale", str(scale)]
            r = subprocess.run(cmd, capture_output=True, text=True, env=env, cwd=HERE)
            viol = [l for l in r.stdout.splitlines() if l.startswith("VIOLATION")]
            buckets = sorted({m.group(1) for m in re.finditer(r"bucket=(\S+?):? ", r.stdout)})
            outcomes[p] = {"exit": r.returncode, "violations": len(viol), "buckets": buckets[:8]}
            if r.returncode == 2:
                outcomes[p]["tail"] = r.stdout[-800:]
        killed = any(o["exit"] == 1 and o["violations"] > 0 for o in outcomes.values())
        return key_of(path), {"property": prop, "outcome": "killed" if killed else "survived", "checks": outcomes,
                              "tier": tier, "wall_s": round(time.time() - t0, 1)}
    finally:
        shutil.rmtree(scratch, ignore_errors=True)


RUN_KEYS = set()


def main():
    ap = argparse.ArgumentParser()
    ap.add_argument("patches", nargs="*")
    ap.add_argument("--tier", default="quick")
    ap.add_argument("--only", default=None)
    ap.add_argument("--jobs", type=int, default=3)
    ap.add_argument("--scale", type=float, default=None)
    ap.add_argument("--also", default=None, help="comma-separated extra properties to run against every patch")
    args = ap.parse_args()
    patches = args.patches or sorted(glob.glob(os.path.join(HERE, "mutants", "*.patch")) + glob.glob(os.path.join(HERE, "seeded", "*", "patch.diff")))
    if args.only:
        keep = set(args.only.split(","))
        patches = [p for p in patches if prop_of(p) in keep]
    res_path = os.path.join(HERE, "mutants", "RESULTS.json")
    results = json.load(open(res_path)) if os.path.exists(res_path) else {}
    with cf.ThreadPoolExecutor(max_workers=args.jobs) as pool:
        futs = []
        for p in patches:
            props = [prop_of(p)] + (args.also.split(",") if args.also else [])
            futs.append(pool.submit(run_one, p, args.tier, props, args.scale))
        for fu in cf.as_completed(futs):
            key, out = fu.result()
            results[key] = out
            RUN_KEYS.add(key)
            print(key, out["outcome"], {k: (v["exit"], v["buckets"][:3]) for k, v in out.get("checks", {}).items()}, flush=True)
    os.makedirs(os.path.dirname(res_path), exist_ok=True)
    # merge with what another run may have written in the meantime (own entries win)
    mine = results
    latest = json.load(open(res_path)) if os.path.exists(res_path) else {}
    latest.update({k: v for k, v in mine.items() if k in RUN_KEYS})
    for k, v in mine.items():
        latest.setdefault(k, v)
    json.dump(dict(sorted(latest.items())), open(res_path, "w"), indent=1)


if __name__ == "__main__":
    main()
