#!/venv/bin/python
"""Rewrite the generated tables of DESIGN.md (between <!-- BEGIN x --> / <!-- END x --> markers)
from known_findings.json, mutants/RESULTS.json and seeded/*/meta.json."""
import glob, json, os, re
HERE = os.path.dirname(os.path.dirname(os.path.abspath(__file__)))


def fixes_table():
    doc = json.load(open(os.path.join(HERE, "known_findings.json")))
    rows = ["| property | repo commit | what failed | witness replay |", "|---|---|---|---|"]
    for e in sorted(doc["findings"], key=lambda e: (e["property"], e["id"])):
        if e["status"] == "fixed":
            rows.append(f"| {e['property']} | `{e['commit']}` | {e['what']} | `{e['witness']}` |")
    opens = [e for e in doc["findings"] if e["status"] == "open"]
    out = "\n".join(rows)
    if opens:
        out += "\n\nOpen findings (reported as KNOWN-FINDING, not repaired):\n\n| property | id | what fails | witness |\n|---|---|---|---|\n"
        out += "\n".join(f"| {e['property']} | {e['id']} | {e['what']} | `{e['witness']}` |" for e in opens)
    else:
        out += "\n\nNo open finding is listed: every confirmed defect so far had a small, safe repair."
    return out


def mutants_table():
    p = os.path.join(HERE, "mutants", "RESULTS.json")
    res = json.load(open(p)) if os.path.exists(p) else {}
    rows = ["| change | property | outcome (quick tier) | assertions that fired |", "|---|---|---|---|"]
    for k, v in sorted(res.items()):
        fired = "; ".join(f"{c}: {', '.join(o['buckets'][:4])}" for c, o in v.get("checks", {}).items() if o["exit"] == 1)
        rows.append(f"| `{k}` | {v['property']} | {v['outcome']} | {fired} |")
    return "\n".join(rows)


def seeded_table():
    rows = ["| seeded change | property | needs, in order to manifest | caught by | first caught at |", "|---|---|---|---|---|"]
    for mp in sorted(glob.glob(os.path.join(HERE, "seeded", "*", "meta.json"))):
        m = json.load(open(mp))
        rows.append(f"| `seeded/{os.path.basename(os.path.dirname(mp))}` | {m['property']} | {m.get('needs', '')} | "
                    f"{m.get('caught_by', '')} | {m.get('caught_at', '')} |")
    return "\n".join(rows)


def subchecks_table():
    import sys
    sys.path.insert(0, HERE)
    os.environ.setdefault("IRISPIE_SRC", "/repo/src")
    from vlib import runner
    rows = ["| property | sub-check | kind | quick budget | thorough budget |", "|---|---|---|---|---|"]
    for prop in sorted(runner.CHECK_MODULES):
        try:
            mod = runner.load_module(prop)
        except Exception as exc:  # noqa: BLE001
            rows.append(f"| {prop} | (module not loadable: {type(exc).__name__}) | | | |")
            continue
        for sub in mod.SUBCHECKS:
            if sub.kind == "hyp":
                rows.append(f"| {prop} | {sub.name} | Hypothesis cases | {sub.budget['quick']} | {sub.budget['thorough']} |")
            else:
                rows.append(f"| {prop} | {sub.name} | enumeration ({'exhaustive' if sub.exhaustive else 'sampled'}) | "
                            f"{len(sub.chunks('quick'))} chunks | {len(sub.chunks('thorough'))} chunks |")
    return "\n".join(rows)


def main():
    path = os.path.join(HERE, "DESIGN.md")
    s = open(path).read()
    for name, fn in (("FIXES", fixes_table), ("MUTANTS", mutants_table), ("SEEDED", seeded_table), ("SUBCHECKS", subchecks_table)):
        pat = re.compile(rf"(<!-- BEGIN {name} -->\n)(.*?)(<!-- END {name} -->)", re.S)
        if pat.search(s):
            s = pat.sub(lambda m: m.group(1) + fn() + "\n" + m.group(3), s)
    open(path, "w").write(s)
    print("DESIGN.md tables rendered")


if __name__ == "__main__":
    main()
