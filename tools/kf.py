#!/venv/bin/python
"""Maintain known_findings.json by hand (never called by a check).
usage: kf.py fixed <property> <id> <commit> <witness> <what>
       kf.py open  <property> <id> <matcher> <witness> <what>
"""
import json, os, sys
HERE = os.path.dirname(os.path.dirname(os.path.abspath(__file__)))
path = os.path.join(HERE, "known_findings.json")
doc = json.load(open(path))
kind, prop, fid, third, witness, what = sys.argv[1:7]
doc["findings"] = [e for e in doc["findings"] if e["id"] != fid]
if kind == "fixed":
    doc["findings"].append({"id": fid, "property": prop, "status": "fixed", "commit": third, "what": what,
                            "witness": witness, "record": f"fixed: property={prop} {third} {what}"})
else:
    doc["findings"].append({"id": fid, "property": prop, "status": "open", "matcher": third, "what": what, "witness": witness})
assert os.path.exists(os.path.join(HERE, witness)), witness
json.dump(doc, open(path, "w"), indent=1)
print("ok", len(doc["findings"]))
