#!/bin/sh
# Offline setup: make sure Hypothesis is importable by /venv/bin/python.
set -e
if ! /venv/bin/python -c "import hypothesis" 2>/dev/null; then
    PIP_NO_INDEX=1 /venv/bin/pip install --no-index --find-links /opt/veriftools/wheels hypothesis
fi
/venv/bin/python -c "import hypothesis, numpy, scipy; print('hypothesis', hypothesis.__version__)"
mkdir -p /verif/evidence /verif/out
