#!/bin/sh
# Run the pinned suite and compare with BASELINE.json's stable_pass list.
cd /repo && /venv/bin/python -m pytest -q -p no:cacheprovider --timeout=900 --continue-on-collection-errors -n 8 --junitxml=/tmp/baseline_junit.xml >/tmp/baseline_out.txt 2>&1
rm -f /repo/tmp*.spc   # the suite's x13 tests leave their spec files in the working directory
/venv/bin/python - <<'PY'
import json, xml.etree.ElementTree as ET
base = set(json.load(open('/root/.vp/BASELINE.json'))['stable_pass'])
t = ET.parse('/tmp/baseline_junit.xml')
passed=set()
for tc in t.iter('testcase'):
    ok = not any(ch.tag in ('failure','error','skipped') for ch in tc)
    name = f"{tc.get('classname')}::{tc.get('name')}"
    if ok: passed.add(name)
missing = sorted(base - passed)
print('baseline', len(base), 'passed now', len(passed), 'baseline tests not passing:', len(missing))
for m in missing[:20]: print('  ', m)
PY
