#!/venv/bin/python
"""Print a Python source file without docstrings/blank lines (reading aid)."""
import ast, sys
path = sys.argv[1]
lo = int(sys.argv[2]) if len(sys.argv) > 2 else 1
hi = int(sys.argv[3]) if len(sys.argv) > 3 else 10**9
src = open(path).read()
tree = ast.parse(src)
skip = set()
for node in ast.walk(tree):
    if isinstance(node, (ast.FunctionDef, ast.ClassDef, ast.AsyncFunctionDef, ast.Module)):
        b = node.body
        if b and isinstance(b[0], ast.Expr) and isinstance(b[0].value, ast.Constant) and isinstance(b[0].value.value, str):
            for i in range(b[0].lineno, b[0].end_lineno + 1):
                skip.add(i)
for i, line in enumerate(src.splitlines(), 1):
    if i in skip or not line.strip() or i < lo or i > hi:
        continue
    s = line.strip()
    if s in ("#[", "#]") :
        continue
    print(f"{i}\t{line}")
