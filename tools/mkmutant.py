#!/venv/bin/python
"""mkmutant.py <name> <file relative to /repo> <old> <new>: write /verif/mutants/<name>.patch (repo left untouched)."""
import subprocess, sys
name, path, old, new = sys.argv[1:5]
full = "/repo/" + path
s = open(full).read()
assert s.count(old) >= 1, f"pattern not found in {path}"
open(full, "w").write(s.replace(old, new, 1))
try:
    diff = subprocess.run(["git", "-C", "/repo", "diff"], capture_output=True, text=True).stdout
    open(f"/verif/mutants/{name}.patch", "w").write(diff)
finally:
    subprocess.run(["git", "-C", "/repo", "checkout", "-q", "--", path])
print(name, len(diff.splitlines()), "lines")
