#!/bin/sh
# Quick tier of every registered check at several seeds; prints one line per run and any violation lines.
cd "$(dirname "$0")/.." && mkdir -p out
seeds="${SEEDS:-11 12 13 14 15}"
props="$@"
[ -z "$props" ] && props=$(/venv/bin/python -c "import json; print(' '.join(c['property_id'] for c in json.load(open('MANIFEST.json'))['checks']))")
for s in $seeds; do
  for p in $props; do
    VERIF_SEED=$s /venv/bin/python run_check.py $p --tier quick --no-evidence > out/sweep_${p}_$s.log 2>&1
    code=$?
    echo "seed=$s $p exit=$code $(grep "^$p tier" out/sweep_${p}_$s.log | sed 's/.*evaluations/evaluations/' | cut -c1-90)"
    if [ $code -ne 0 ]; then
      grep "^VIOLATION\|sub=\|HARNESS" out/sweep_${p}_$s.log | cut -c1-400 | head -8
      # the next run of the same property clears its violations directory: keep a copy
      rm -rf out/sweep_violations_${p}_$s; cp -r "${VERIF_OUT_DIR:-out}/violations/$p" out/sweep_violations_${p}_$s 2>/dev/null
    fi
  done
done
