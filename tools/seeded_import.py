#!/venv/bin/python
"""
Import seeded changes produced by a sub-agent in a scratch worktree, confirming each one independently:

  seeded_import.py /tmp/seed_C09 [--skip-suite]

For every /tmp/seed_Cxx/_seeded/<id>/ (patch.diff, demo.py, notes.md):
  1. copy /repo/src to a scratch dir, run demo.py against it (expect exit 0);
  2. apply patch.diff to the copy, run demo.py (expect exit 1);
  3. run the pinned suite against the patched copy (PYTHONPATH) and compare the set of passing tests with
     BASELINE.json's stable_pass (unless --skip-suite);
  4. if all confirmed, store /verif/seeded/<id>/{patch.diff,demo.py,notes.md,meta.json}.
The checks are run against the change separately (tools/mutation_run.py seeded/<id>/patch.diff).
"""
import json
import os
import shutil
import subprocess
import sys
import tempfile
import xml.etree.ElementTree as ET

HERE = os.path.dirname(os.path.dirname(os.path.abspath(__file__)))


def run_demo(demo, src):
    env = dict(os.environ, IRISPIE_SRC=src, PYTHONPATH=src)
    r = subprocess.run(["/venv/bin/python", "-W", "ignore", demo], capture_output=True, text=True, env=env, timeout=900)
    return r.returncode, (r.stdout + r.stderr)[-1500:]


def run_suite(root):
    junit = os.path.join(root, "junit.xml")
    env = dict(os.environ, PYTHONPATH=os.path.join(root, "src"))
    subprocess.run(["/venv/bin/python", "-m", "pytest", "-q", "-p", "no:cacheprovider", "--timeout=900",
                    "--continue-on-collection-errors", "-n", "6", f"--junitxml={junit}", "tests"],
                   cwd=root, env=env, capture_output=True, text=True)
    base = set(json.load(open("/root/.vp/BASELINE.json"))["stable_pass"])
    passed = set()
    for tc in ET.parse(junit).iter("testcase"):
        if not any(ch.tag in ("failure", "error", "skipped") for ch in tc):
            passed.add(f"{tc.get('classname')}::{tc.get('name')}")
    return sorted(base - passed)


def main():
    wt = sys.argv[1]
    skip_suite = "--skip-suite" in sys.argv
    sdir = os.path.join(wt, "_seeded")
    for sid in sorted(os.listdir(sdir)):
        d = os.path.join(sdir, sid)
        patch, demo = os.path.join(d, "patch.diff"), os.path.join(d, "demo.py")
        if not (os.path.exists(patch) and os.path.exists(demo)):
            print(sid, "incomplete, skipped")
            continue
        scratch = tempfile.mkdtemp(prefix="seedchk_", dir="/tmp")
        try:
            shutil.copytree("/repo/src", os.path.join(scratch, "src"), ignore=shutil.ignore_patterns("__pycache__"))
            shutil.copytree("/repo/tests", os.path.join(scratch, "tests"), ignore=shutil.ignore_patterns("__pycache__"))
            code0, out0 = run_demo(demo, os.path.join(scratch, "src"))
            r = subprocess.run(["patch", "-p1", "-s", "-d", scratch, "-i", patch], capture_output=True, text=True)
            if r.returncode != 0:
                print(sid, "PATCH DOES NOT APPLY", r.stdout[-300:], r.stderr[-300:])
                continue
            code1, out1 = run_demo(demo, os.path.join(scratch, "src"))
            missing = None if skip_suite else run_suite(scratch)
            ok = code0 == 0 and code1 == 1 and (missing is None or not missing)
            print(f"{sid}: demo clean={code0} patched={code1} suite_baseline_missing={missing if missing is None else len(missing)} -> {'CONFIRMED' if ok else 'REJECTED'}")
            if not ok:
                print("  clean tail:", out0[-300:].replace("\n", " | "))
                print("  patched tail:", out1[-300:].replace("\n", " | "))
                continue
            dest = os.path.join(HERE, "seeded", sid)
            base, k = dest, 1
            while os.path.exists(os.path.join(dest, "patch.diff")) and open(os.path.join(dest, "patch.diff")).read() != open(patch).read():
                k += 1
                dest = f"{base}_r{k}"       # a later round chose the slug of an earlier, different change
            os.makedirs(dest, exist_ok=True)
            for fn in ("patch.diff", "demo.py", "notes.md"):
                if os.path.exists(os.path.join(d, fn)):
                    shutil.copy(os.path.join(d, fn), os.path.join(dest, fn))
            meta_path = os.path.join(dest, "meta.json")
            meta = json.load(open(meta_path)) if os.path.exists(meta_path) else {}
            meta.update({
                "property": sid.split("_")[0],
                "confirmed": {"demo_exit_clean": code0, "demo_exit_patched": code1,
                              "pinned_suite": "not run" if missing is None else "all 254 baseline tests still pass",
                              "how": "tools/seeded_import.py: scratch copy of /repo/src and /repo/tests under /tmp, demo.py with IRISPIE_SRC, pytest with PYTHONPATH"},
                "demo_output_patched_tail": out1[-600:],
            })
            meta.setdefault("needs", "")
            json.dump(meta, open(meta_path, "w"), indent=1)
        finally:
            shutil.rmtree(scratch, ignore_errors=True)


if __name__ == "__main__":
    main()
