#!/venv/bin/python
"""Regenerate /verif/MANIFEST.json from the table below and validate it."""
import json
import os
import sys

HERE = os.path.dirname(os.path.dirname(os.path.abspath(__file__)))

BASELINE_CMD = ("cd /repo && IRISPIE_VERIF= /venv/bin/python -m pytest -ra -q -p no:cacheprovider "
                "--timeout=900 --continue-on-collection-errors")

# property -> (technique, level text, level note, design ref)
CLAIMED = {
    "C09": (
        "exhaustive enumeration of calendar periods + Hypothesis period algebra + model-based span operation sequences vs datetime/list oracle",
        "Every regular period of years 1..9999 and every day of the datetime calendar (thorough; a boundary-year subset in quick) is "
        "compared with datetime/calendar for start/end day, year/segment, successor tiling and keyword shifts; generated period triples "
        "check the integer algebra, order/equality/hash agreement and that mixed frequencies are rejected; generated span constructor + "
        "operation sequences are mirrored on an explicit list model after every step. Exhaustive for single-period facts, sampled for "
        "pairs and span histories.",
        "Trusts Python datetime/calendar as the calendar; years 1..9999; `<<` operand order and non-dividing-step reversal are not asserted (documented ambiguities).",
        "DESIGN.md section 3, C09",
    ),
    "C11": (
        "exhaustive enumeration of periods x positions x target frequencies with round-trip and calendar-containment oracles + Hypothesis pairs for monotonicity",
        "Every period of every frequency over years 1..9999 (thorough; boundary/recent years in quick), integer periods -10^4..10^4 and "
        "Hypothesis-drawn large ones, is sent through SDMX (with and without frequency), ISO, (year, segment), (y,m,d) at each position, "
        "Python date and repr round trips, and through refrequent/to_daily to every calendar frequency, where the result must be the "
        "datetime-computed period containing the chosen day; coarse->fine->coarse returns the source; generated pairs check monotonicity "
        "and batch conversions. Exhaustive over single periods, sampled over pairs.",
        "Trusts datetime/calendar; only strings produced by the library are required to parse; years 1..9999.",
        "DESIGN.md section 3, C11",
    ),
    "C13": (
        "Hypothesis-generated series x function x shift x span against documented per-period formulas and a cumulation recursion on a dict reference model; round-trip inversion",
        "Generated series of all frequencies (1-3 variants, interior NaNs) are transformed by every change function with integer and keyword "
        "shifts in method and functional form and compared cell by cell (values, missing cells, reported span) with the documented formula "
        "evaluated on a dict model; the *_from_* helpers are checked against both the change functions and their closed forms; "
        "cum_f(f(x,k),k,initial=x,span) is checked forward/backward over default and explicit spans against the recursion and against x "
        "itself. Sampled exploration; sensitivity is measured with mutants.",
        "Start-of-year cells of pct/apct under 'tty' are not judged; diff_log 'tty' start-of-year cells only required finite; tolerance 1e-11 relative.",
        "DESIGN.md section 3, C13",
    ),
    "C01": (
        "Hypothesis-generated structural models rendered to source; own evaluator residuals on simulated paths with leads from model-consistent continuations; own companion-pencil eigenvalues and Blanchard-Kahn rank condition",
        "Models are drawn as coefficient structures (1-4 variables, lags<=3, leads<=2, constants, parameters, measurement block, additive or "
        "exactly log-linear rendering) so the harness can evaluate every equation itself. For models its own eigenvalue computation classifies "
        "determinate, first-order simulations with drawn initial conditions and dated unanticipated/anticipated/measurement shocks must make "
        "every equation hold (leads read from the continuation re-simulated under each information set), agree with their continuations, return "
        "to the steady state 400 periods ahead, satisfy the measurement equations, obey levels = steady (+|*) deviations and be time consistent, "
        "also after earlier simulations with other anticipation horizons (or a Kalman filter run with anticipated shock data) on the same object, when "
        "repeated, under force_split_frames=True, and for each variant of a two-variant model; "
        "the unstable-root count must equal the number of leads iff the harness classifies the model determinate, and finite eigenvalue moduli must agree.",
        "Trusts numpy/scipy eig/ordqz for the classification; near-unit-root (|lambda| in [0.93,1.07]) and rank-deficient models are not judged; small well-conditioned models only.",
        "DESIGN.md section 3, C01",
    ),
    "C15": (
        "Hypothesis-generated structural models; autocovariances compared with an MA(infinity) sum of simulated impulse responses; metamorphic rescaling; NaN pattern for unit-root-loaded variables",
        "For generated determinate models (stationary, or with one or two exact random-walk equations and spread/sum variables loading on both), drawn shock stds (zeros included, per variant), orders 0-4 and "
        "1-2 parameter variants, get_acov is compared with sum_h Phi_{h+j} Sigma Phi_h' built from 200-period impulse responses of simulate() "
        "(no Lyapunov solver and no solution matrix in the reference), get_acorr with get_acov scaled by its own order-0 stds and with the scaled reference, rescale_stds(s) with s^2 times the "
        "reference for every variant, the order-0 matrix for symmetry/PSD, and the NaN pattern with the set of variables whose response to the "
        "random-walk shocks does not decay.",
        "Relies on first-order simulate() (judged by C01); stable roots <= 0.85 by construction; variables with zero variance are skipped in acorr.",
        "DESIGN.md section 3, C15",
    ),
    "C03": (
        "Hypothesis-generated models/data/masks; Kalman outputs compared with dense Gaussian conditioning on an MA representation built from simulated impulse responses",
        "For generated determinate models with 1-3 measurement equations, drawn stds (zeros, one time-varying series), spans 1-8, arbitrary data "
        "and missing-data masks (cells, whole periods, never-observed variables), deviation and rescale_variance flags, the harness builds the "
        "joint Gaussian of all shocks over 200 pre-sample and the in-sample periods, maps it to every variable through impulse responses of "
        "simulate() and conditions by dense Cholesky: total and per-period negative log-likelihood (sum, zero for empty periods), var_scale, "
        "predict/update/smooth means and stds of variables and shocks, prediction errors and prediction MSE matrices must agree; a second run under "
        "a drawn output selection (return_=..., return_predict=False, likelihood_contributions=False, ...) must return the same values; unit-root "
        "models under fixed_unknown are judged by the level/deviation relation, and a two-variant run against harness-built singleton models.",
        "Relies on first-order simulate() (C01); singular observation covariances are excluded; for unit-root models only metamorphic relations (no exact oracle); tolerances 1e-7 (means, likelihood) and 1e-6 (variances).",
        "DESIGN.md section 3, C03",
    ),
    "C12": (
        "Hypothesis-generated series/frequency pairs/methods against a calendar-membership reference aggregation, placement and round-trip checks, and an independent constrained least-squares (null-space) optimum for arip",
        "Aggregation of generated series (all calendar frequencies incl. daily with leap Februaries, 1-2 variants, NaN patterns, unaligned starts) is "
        "compared with plain-Python grouping by datetime membership for every method and option; disaggregation placements and the documented "
        "round trips are checked; arip output must meet constraints and targets to 1e-9 and equal the harness's own equality-constrained "
        "least-squares minimiser of the documented criterion (plus projected-gradient = 0).",
        "Undocumented edge behaviour (callables on padding, min/max with NaN order, middle of even groups, regular->daily) is not asserted; see ASSUMPTIONS in the evidence.",
        "DESIGN.md section 3, C12",
    ),
    "C16": (
        "exhaustive enumeration of all boolean matrices with a perfect matching for n<=4 and of all zero-shift dependency patterns for n<=4 Sequential models, plus Hypothesis-sampled larger structures, against a validity predicate",
        "Every boolean n x n matrix (n<=4) with a perfect matching (own augmenting-path test) under several id labelings, and sampled planted-block / "
        "triangular / dense / sparse matrices up to n=30, must be decomposed by blaze into blocks that partition ids, are square with an internal "
        "perfect matching and have no incidence on later blocks; all zero-shift dependency patterns of <=4 Sequential equations and sampled larger "
        "ones must be reordered validly by sequentialize (or raise leaving the model untouched); split_into_blocks and block-wise solve_steady on "
        "models built from generated matrices must use the same partition and reproduce numpy.linalg.solve.",
        "Exhaustive only for n<=4; structurally singular matrices and duplicate left-hand names are outside the generated domain; steady plans with one swap only.",
        "DESIGN.md section 3, C16",
    ),
    "C18": (
        "Hypothesis-generated VAR data sets; estimates compared with independent numpy lstsq on harness-built regressors, normal equations, round trips through simulate, companion-form moments",
        "Data sets from generated stable VARs (1-3 endogenous, order 1-3, 0-2 exogenous, intercept on/off, noise incl. none, NaN rows, 1-2 variants, "
        "Minnesota/Mean prior dummy observations) are estimated; coefficients must equal numpy.linalg.lstsq over exactly the complete rows, "
        "X'u=0, fitted+residual=data, noise-free data return the generating VAR, residual covariance is the (dof-corrected) second moment, "
        "simulate with estimated residuals reproduces the data, and mean/eigenvalues/autocovariances equal those of the harness's companion form.",
        "The dof divisor and the scale of Minnesota dummy observations are undocumented; both readings are accepted (see ASSUMPTIONS). Regressor condition number <= 1e3 by construction.",
        "DESIGN.md section 3, C18",
    ),
    "C08": (
        "Hypothesis-generated models/data/masks; smoothed output judged by the harness's own equation evaluator, a re-simulation round trip and the deviation/level metamorphic relation",
        "On the same generated domain as C03 (additive and log-linear renderings, measurement shocks, missing-data masks), smooth_med must equal "
        "the data where observed and be NaN elsewhere, satisfy every measurement equation (smoothed measurement shocks, log-variables) and "
        "every lead-free transition equation under the harness's own evaluator, be reproduced by simulate() started from its first periods with "
        "the smoothed shocks, and satisfy level-mode = steady (+|*) deviation-mode; also with anticipated shock values supplied as data, for "
        "unit-root models under fixed_unknown, under drawn output selections that still return the smoother, and for each variant of a two-variant model.",
        "Equations are judged where all values they read are inside the returned span; singular observation covariances are excluded by construction; tolerance 1e-8 relative.",
        "DESIGN.md section 3, C08",
    ),
    "C07": (
        "Hypothesis-generated models and plans; round-trip oracle (truth simulation -> exogenize targets/endogenize instruments -> recovered shocks and path), harness-side impact-matrix conditioning",
        "A truth simulation of a generated determinate model is driven by initial conditions, background shocks and 1-3 instrument shock cells; "
        "the plan exogenizes as many (variable, date) cells at their truth values and endogenizes the instruments (unanticipated same-date "
        "pairs over several dates, or anticipated targets/instruments at arbitrary dates; swap_* and separate exogenize/endogenize APIs; "
        "first_order and stacked_time). The planned run must hit every exogenized cell, leave every non-endogenized shock cell at its input, "
        "and recover the instrument values and the whole path. Only set-ups whose impact matrix (built by the harness from simulated "
        "responses) has condition number < 1e3 are judged; force_split_frames, stale instrument input values, surprises after the last target, "
        "genuinely nonlinear models (stacked_time truth) and two-variant models with variant-specific targets are generated.",
        "Exactly identified plans only; with anticipated swaps a surprise between the instrument and a target is not generated (it changes the information set); stacked_time non-convergence and collapsed pseudo-solutions are not violations.",
        "DESIGN.md section 3, C07",
    ),
    "C14": (
        "Hypothesis-generated series/constraints/spans; hpf compared with an independent null-space constrained minimiser and projected gradient, lonf with KKT conditions of the l1 trend-filter problem",
        "For generated series (all frequencies, 1-3 variants, interior NaNs, level/change constraints incl. outside the data, log on/off, output "
        "spans inside/equal/beyond/disjoint) hpf must satisfy trend+gap=data (trend*gap under log), meet constraints, equal the harness's own "
        "constrained minimiser of the HP objective with zero projected gradient, return straight lines unchanged, clip only by span, and agree "
        "across method/functional/hpf_trend/hpf_gap forms; lonf must return trend+gap=data for every variant with dual feasibility, "
        "complementary slackness and a primal objective not above drawn competitors.",
        "Tolerances scale with smooth and the condition number (measured margins >= 50x); undocumented edges listed in ASSUMPTIONS are not asserted; the default smoothing value is not part of the property.",
        "DESIGN.md section 3, C14",
    ),
    "C02": (
        "Hypothesis-generated expression trees differentiated by the harness's own forward-mode (dual number) evaluator vs aldi and systemize(); captured steady/stacked-time Jacobians vs Richardson-extrapolated central differences",
        "Random expression trees (depth<=4) over arithmetic, powers, log/exp/sqrt/logistic/maximum, user context functions and a 'risky' class of "
        "functions that may be rejected, with drawn log-status, are embedded in 1-3 equation models; at a drawn non-steady data point every "
        "residual value and every derivative row of aldi's eval_to_arrays (chain rule for log-variables, shock + anticipated shock) must equal the "
        "harness's dual-number result, and at drawn steady levels every cell of systemize()'s A, B, D, F, G, J must sit in the row/column of its "
        "equation/token, every occurrence with a non-zero derivative must have a column, and the same point assigned as the second of two parameter variants must give the same matrices. The steady-state (flat and non-flat) and stacked-time (terminal first_order/data) evaluators are captured by wrapping the "
        "solver entry points in the harness process and their Jacobians compared with extrapolated central differences at drawn points, asked for "
        "before any function evaluation, after one at the same point and after one at another point.",
        "Kinks and out-of-domain points are excluded; rejection (an exception) is allowed for the listed functions; tolerance 1e-9 (analytic), 1e-5 (context functions), 1e-6 (finite differences).",
        "DESIGN.md section 3, C02",
    ),
    "C05": (
        "Hypothesis-generated model families with constructively known steady paths; own evaluator on the returned (level, change) path at several dates; metamorphic block/variant relations",
        "Additive linear (stationary or with an exact random walk with drift), log-linear with log-variables (stationary or balanced growth) and "
        "anchored nonlinear models are generated with parameters, 1-2 variants, perturbed starting guesses, flat and split_into_blocks flags and "
        "steady plans (fix_level; fix_change with the drift endogenized; exogenize a variable + endogenize a parameter), flag overrides (flat=True on a non-flat "
        "model, linear=False on a linear one) and a loosened eigenvalue tolerance. Whenever solve_steady returns, the harness builds the steady "
        "path from get_steady_levels/get_steady_changes (linear, or geometric for log-variables) and evaluates every equation as written with its "
        "own evaluator at dates 0, 3 and -2; planned quantities must keep their values, endogenized parameters must move, flat models must "
        "report no change, blocks on/off and variant k vs its single-variant model must agree.",
        "Conditional on completion (non-convergence is counted, never a violation); degenerate near-zero pseudo-solutions of multiplicative equations are not judged; plans only with the nonlinear solver.",
        "DESIGN.md section 3, C05",
    ),
    "C06": (
        "Hypothesis-generated additive-linear, exactly log-linear and anchored nonlinear models; own evaluator residuals on returned paths frame by frame with the terminal condition rebuilt by the harness; differential vs first_order",
        "For generated models with leads/lags, initial conditions, unanticipated shocks at several dates (several frames) and anticipated shocks, "
        "stacked_time (terminal/initial_guess in {first_order, data}) and period_by_period runs that report success must satisfy every "
        "transition equation as written to 10x the solver tolerance in every simulated period - leads read from the frame's own databox and, "
        "after the span, from the terminal condition rebuilt by the harness - leave measurement variables at their inputs, write frames back "
        "consistently, and on additive-linear and log-linear models coincide with method='first_order' for the same inputs; one call over two data "
        "variants of the shock paths must give each variant the result of its own single run.",
        "Conditional on reported success (explicit solver tolerance 1e-9); mild nonlinearities only; deviation mode not generated.",
        "DESIGN.md section 3, C06",
    ),
    "C10": (
        "model-based operation sequences (drawn as plain data) on a pool of live series mirrored by a dict reference model, compared after every step",
        "Sequences of 3-25 public operations (constructors, item/span/variant writes, reads, shifts incl. keyword shifts, clip, overlay, underlay, "
        "hstack, arithmetic and comparison with scalars and other live series incl. empty and non-overlapping ones, element-wise, statistical, "
        "moving-window, fill and extrapolation functions, copy, redate; method and functional forms) run on up to three live series and on "
        "dict[(period, variant)] models; after every step values, variant counts, reported span, trim rule (after writes and arithmetic), "
        "bit-identity of untouched series, absence of aliasing and input immutability of functional forms are compared.",
        "Undocumented edge readings are listed under ASSUMPTIONS and adopted, not asserted; sequences <= 25 steps, spans <= 12 periods.",
        "DESIGN.md section 3, C10",
    ),
    "C17": (
        "Hypothesis-generated Sequential models as expression structures rendered to source; own evaluator on the output databox for every equation/period under both execution orders; plans",
        "Models of 1-6 equations (all left-hand transforms, identities, lags, leads, parameters, pseudofunction leaves) are drawn as structures and "
        "rendered to text; after simulate() the harness's own evaluator checks transform(lhs) = rhs + residual in every simulated period, the "
        "value and residual back-out at points exogenized directly / through a transform / when data are available, untouched cells, identities "
        "without residual, and agreement of the two execution orders whenever the harness's dependency analysis says no stale cell was read; a "
        "shuffled rendering is judged as written and again after sequentialize(); target_db= and parameter-named items in the input databox are exercised.",
        "Rounding-bound tolerance (1e-10 x accumulated magnitudes); out-of-domain cases are skipped by a harness-side simulation.",
        "DESIGN.md section 3, C17",
    ),
    "C19": (
        "Hypothesis-generated databoxes: CSV round trip through temp files, dataslate round trip, and model-based databox operation sequences against dict mirrors",
        "Databoxes mixing all frequencies, spans, 1-3 variants, NaNs and descriptions are written with the offered CSV options and read back "
        "(names, descriptions, frequencies, spans, values to the declared rounding; stepped, tuple and backward spans; observation-free series); Dataslate.from_databox(...).to_databox() (output_names, base columns, clipping) must return the "
        "input on the span and NaN elsewhere with fallbacks/overwrites exactly where declared; sequences of overlay, underlay, clip, prepend, "
        "copy, shallow, rename, keep, remove, merge with list/predicate/None selections are mirrored on dict models and compared after every "
        "step incl. bit-identity of untouched items and the documented aliasing of copy vs shallow.",
        "Undocumented content (scalars through CSV, delimiter inside descriptions, rename collisions) is not generated or not asserted; see ASSUMPTIONS.",
        "DESIGN.md section 3, C19",
    ),
    "C20": (
        "model-based operation sequences over an original model and derived objects (copy, pickle, dill, save/load, portable) against per-variant lineage-replay shadows",
        "For generated Simultaneous models a pool of objects derived by copy/pickle/dill/save-load/portable receives interleaved assign, "
        "assign-std, solve, steady, override_tolerance and alter_num_variants operations; every variant of every object is shadowed by a fresh single-variant model on "
        "which only its own lineage is replayed, and parameters, stds, steady state, T/P/K/Z/H/D, a fixed simulation and the Kalman likelihood "
        "and the parameter/std values carried by Databox.steady/Databox.zero are compared after every step (aliasing, stale state after pickling and cross-variant leakage show as mismatches); the portable form "
        "must round-trip names, kinds, log status, equations, flags and values; smaller sequence checks cover Sequential (incl. reorder_equations / "
        "sequentialize on either object) and RedVAR.",
        "Results, not object identity, are compared (Schur-basis dependent matrices excluded); get_variant views are only read; sequences <= 12 steps.",
        "DESIGN.md section 3, C20",
    ),
    "C04": (
        "Hypothesis-generated structured models rendered under independently drawn syntactic recipes (aliases, comments, shift styles, !for/!if/substitutions/lists/<...>, pseudofunction spellings); own macro expansion and evaluator; metamorphic recipe pairs",
        "A structured model (names by kind, descriptions, log status, dynamic and !! steady equations as ASTs with pseudofunction nodes) is "
        "rendered twice with independently drawn recipes using every syntactic alternative the parser code accepts; the model object must expose "
        "exactly the declared names/kinds/descriptions/log status (plus the documented ant_/std_ companions), every dynamic and steady equation "
        "must evaluate on random data to the harness evaluator's rhs-lhs (pseudofunctions by definition, shock + anticipated shock), two recipes "
        "must give the same model, and preparser.from_string on macro-free text must be the identity; constructs of uncertain status form a "
        "separate class whose only allowed outcomes are correct or rejected (5 s CPU limit).",
        "The grammar is taken from the parser code and repository models; constructs outside it (lagged shocks, spaces before braces, nested substitutions) are not generated.",
        "DESIGN.md section 3, C04",
    ),
}

NOT_BUILT_REASON = "check not built yet in this round (design in DESIGN.md section 3); not claimed until it is quiet on the unchanged tree and kills its mutants"


def main():
    props = [json.loads(l) for l in open(os.path.join(HERE, "properties.jsonl"))]
    checks, na = [], []
    for p in props:
        pid = p["id"]
        if pid in CLAIMED:
            tech, text, note, ref = CLAIMED[pid]
            checks.append({
                "property_id": pid,
                "quick_cmd": f"/venv/bin/python run_check.py {pid} --tier quick",
                "thorough_cmd": f"/venv/bin/python run_check.py {pid} --tier thorough",
                "evidence_file": f"/verif/evidence/{pid}.json",
                "replay_cmd_template": f"/venv/bin/python run_check.py {pid} --replay {{path}}",
                "engine": "runner",
                "level_claimed": {"category": "exploration", "text": text, "design_ref": ref},
                "level_note": note,
                "technique": tech,
            })
        else:
            na.append({"property_id": pid, "reason": NOT_BUILT_REASON})
    manifest = {
        "version": 1,
        "setup_cmd": "sh tools/setup.sh",
        "hooks": {
            "guard": "IRISPIE_VERIF",
            "enable": "no source hooks exist: irispie is pure Python and every check imports it from /repo/src (or $IRISPIE_SRC) in fresh "
                      "processes; internal evaluators are captured by wrapping module attributes inside the harness process. "
                      "IRISPIE_VERIF=1 is exported by the runner and is reserved should a hook ever be needed.",
            "baseline_off_cmd": BASELINE_CMD,
            "source_commits": [],
            "add_only": True,
        },
        "engines": [{
            "name": "runner",
            "path": "/verif/run_check.py",
            "serves_properties": sorted(CLAIMED),
            "kind_free_text": "Hypothesis-driven generated search with explicit oracles (reference models, round trips, differential and "
                              "metamorphic relations), exhaustive enumeration of small finite sub-domains, 16-way sharding, "
                              "collect-then-shrink, replay tier, known-findings protocol",
        }],
        "checks": checks,
        "not_applicable": na,
        "notes": "All checks: `run_check.py <id> --tier quick|thorough`; VERIF_SEED selects the seed; violations are written to "
                 "/verif/out/violations/<id>/ and replayable with --replay. known_findings.json lists open findings and fixed records.",
    }
    if not na:
        del manifest["not_applicable"]
    path = os.path.join(HERE, "MANIFEST.json")
    with open(path, "w") as f:
        json.dump(manifest, f, indent=1)
    try:
        import jsonschema
        schema = json.load(open("/root/.vp/MANIFEST.schema.json"))
        jsonschema.validate(manifest, schema)
        print("MANIFEST.json valid;", len(checks), "checks,", len(na), "not claimed")
    except ImportError:
        print("jsonschema not importable here; run with python3-vt to validate")


if __name__ == "__main__":
    sys.exit(main())
