#!/venv/bin/python
"""Print the prompt for a seeded-change sub-agent (property text only, nothing from /verif)."""
import json, sys
pid = sys.argv[1]
rnd = sys.argv[2] if len(sys.argv) > 2 else ""      # "2" for a second round: other worktree, three changes, mechanisms listed
props = {json.loads(l)["id"]: json.loads(l) for l in open("/verif/properties.jsonl")}
p = props[pid]
wt = f"/tmp/seed{rnd}_{pid}"
mech = "; ".join(f"{m['name']} ({m['where']})" for m in p["anchors"].get("mechanism", []))
count, countset = ("THREE", "{1, 2, 3}") if rnd else ("TWO", "{1, 2}")
extra = ""
if rnd == "5":
    extra = (" In this round look for three things only: (1) two or more public calls on the SAME object where a later call silently depends on an "
             "earlier one (state, caches, registers or defaults left behind by the first call; objects handed out by a getter and modified later); "
             "(2) the smallest valid inputs (one variable, one equation, one period, no shocks, no parameters, one variant given as a list of one, an "
             "empty plan or an empty selection) and the largest ordinary ones (ten or more variables, lags or leads of four, three variants); (3) the same "
             "request expressed through two equivalent argument forms (a name or a tuple of names, a Span or a tuple of periods, positional or keyword, "
             "string or enum) that should give identical results. Stay away from the plain 'loop over variants uses the first variant' slip and from "
             "caches of the forward expansion of the solution. Each change must still break the property as stated.")
if rnd == "4":
    extra = (" In this round stay away from the central numerical routine and from the plain 'loop over variants uses the first variant' slip. Look at: "
             "(1) the public helpers users call right before or after the entry points named under 'Observed at' (building input data from the object, "
             "plans, priors, spans, getters that report what was computed) and every documented argument of those helpers; (2) branches that silently fall "
             "back or silently skip (missing names, empty selections, None defaults resolved late); (3) shape and type edges (a scalar where an array is "
             "usual, integers where floats are usual, one row or one column, a tuple where a list is usual); (4) whether a returned or stored object is a "
             "copy or a view of something that is modified later; (5) orderings that are assumed to coincide (declaration order, alphabetical order, order "
             "of first appearance, dictionary order). Each change must still break the property as stated, not merely an adjacent convenience.")
if rnd == "3":
    extra = (" In this round look away from the central numerical routine: first list the public entry points named under 'Observed at' with ALL their "
             "keyword options, the helper layers they pass through (argument normalisation, caching, variant iteration, data extraction and write-back, "
             "output assembly) and the less-travelled branches inside them, then place each change in a different one of those layers. Good candidates: "
             "a keyword option whose non-default value takes another branch; objects with several parameter variants or several data variants; state kept "
             "on an object between two calls; inputs at the edge of what is valid (length one, empty selections, all-missing columns, first or last period "
             "of a year, negative or zero values where allowed); two public functions that should agree with each other.")
print(f"""You are helping to evaluate a verification effort for the Python package irispie (a macroeconomic modeling package: model-language parser, algorithmic differentiation, first-order solver, Kalman filter, time series and date algebra). You have your own scratch git worktree of the repository at {wt} (package source under {wt}/src/irispie, tests under {wt}/tests, Python interpreter /venv/bin/python; to import the package from YOUR worktree put `import sys; sys.path.insert(0, "{wt}/src")` at the top of any script, and check `irispie.__file__` starts with {wt}). Work only inside {wt}. Do not touch /repo or /verif and do not read anything under /verif.

Here is a semantic property of irispie that users rely on:

TITLE: {p['title']}
STATEMENT: {p['statement']}
QUANTIFIER: {p['quantifier']['text']}
Code it is anchored in: {', '.join(p['anchors']['files'])}
Mechanisms involved: {mech}
Observed at: {', '.join(p['anchors'].get('observe_at', []))}

Your job: produce {count} independent, realistic changes to the irispie source (each a small patch of the kind a maintainer could plausibly commit by mistake - a refactoring slip, an off-by-one, a wrong index/sign/transposition, a stale cache, a dropped special case, two sites that each look fine alone) such that each change BREAKS the property above while the package still imports and the existing test suite still passes. Prefer changes that need something specific to manifest (a particular multi-step sequence of operations, an unusual but valid input, a particular combination of options, a specific date/shape/ordering, two cooperating sites) rather than ones that every ordinary use would expose at once. The changes should be different in kind and in location (different mechanisms, different files where possible, and not all in the most obvious function); at least one should only show under a non-default option, an unusual model/data shape, or a particular sequence of calls.{extra}

For each change i in {countset} create a directory {wt}/_seeded/{pid}_<short_slug>/ containing:
  * patch.diff  - the change as a unified diff produced by `git -C {wt} diff` (paths relative to the repository root, applies with `git apply` to a clean checkout);
  * demo.py     - a small self-contained program (it must start with the sys.path line above but take the source root from the environment variable IRISPIE_SRC if set: `sys.path.insert(0, os.environ.get("IRISPIE_SRC", "{wt}/src"))`) that exercises the public API, prints what it observes and exits with status 1 when the property is violated and 0 when it holds: it must exit 1 with the change applied and 0 without it;
  * notes.md    - which part of the property the change breaks, what exactly is needed for it to manifest, and why the existing tests do not notice.
Procedure per change: start from a clean worktree (`git -C {wt} checkout -- .`), make the change, run demo.py (must exit 1), run the existing test suite `cd {wt} && PYTHONPATH={wt}/src /venv/bin/python -m pytest -q -p no:cacheprovider --timeout=900 --continue-on-collection-errors -n 4 tests 2>&1 | tail -20` (PYTHONPATH is essential: without it the tests import another copy of the package; on the UNCHANGED tree 254 tests pass and 11 fail / a few modules fail to collect for unrelated reasons - x13 binary, plotting, missing files - so run the suite once on the clean worktree first and record exactly which tests fail there; your change must not add any failure), save patch.diff, then revert (`git -C {wt} checkout -- .`) and confirm demo.py exits 0 on the clean tree. Never commit in the worktree. Finish with a short report listing, for each change, the directory, a one-line description, and the output of demo.py with and without the change.""")
