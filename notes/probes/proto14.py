import irispie as ir, numpy as np, warnings
warnings.filterwarnings('ignore')
rng = np.random.default_rng(1)
def ref_hp(y, lam, lev=None, chg=None):
    n=len(y); W=np.diag((~np.isnan(y)).astype(float)); y0=np.where(np.isnan(y),0,y)
    D=np.zeros((n-2,n)); 
    for i in range(n-2): D[i,i:i+3]=[1,-2,1]
    Q = W + lam*D.T@D; b = W@y0
    rows=[]; rhs=[]
    for (i,v) in (lev or []): r=np.zeros(n); r[i]=1; rows.append(r); rhs.append(v)
    for (i,v) in (chg or []): r=np.zeros(n); r[i]=1; r[i-1]=-1; rows.append(r); rhs.append(v)
    if not rows: return np.linalg.solve(Q,b)
    A=np.array(rows); c=np.array(rhs)
    # null-space method
    U,s,Vt=np.linalg.svd(A); r=(s>1e-12).sum(); N=Vt[r:].T
    x0=np.linalg.lstsq(A,c,rcond=None)[0]
    z=np.linalg.solve(N.T@Q@N, N.T@(b-Q@x0)); return x0+N@z
worst=0
for it in range(300):
    n=int(rng.integers(3,30)); lam=10**rng.uniform(-2,5)
    y=np.cumsum(rng.standard_normal(n))+10
    if n>4:
        miss = rng.random(n)<0.2; miss[0]=miss[-1]=False; y[miss]=np.nan
    start=ir.qq(2000,1)
    x=ir.Series(start=start, values=y)
    lev=[]; chg=[]
    kw={}
    if rng.random()<0.5 and n>3:
        i=int(rng.integers(0,n)); v=float(rng.normal(10,1)); lev=[(i,v)]
        kw['level']=ir.Series(periods=(start+i,), values=(v,))
    if rng.random()<0.5 and n>3:
        i=int(rng.integers(1,n)); v=float(rng.normal(0,1)); 
        if not (lev and lev[0][0] in (i,i-1) and False): 
            chg=[(i,v)]; kw['change']=ir.Series(periods=(start+i,), values=(v,))
    try:
        t,g = ir.hpf(x, smooth=lam, **kw)
    except Exception as ex:
        print('EXC', type(ex).__name__, ex, n, lev, chg); continue
    r = ref_hp(y, lam, lev, chg)
    td = t.get_data(start>>start+n-1).flatten()
    err = np.nanmax(np.abs(td-r))/(1+np.abs(r).max())
    worst=max(worst,err)
    if err>1e-6: print('MISMATCH', n, lam, lev, chg, err)
    tg = (t+g).get_data(start>>start+n-1).flatten()
    ok = np.allclose(tg[~np.isnan(y)], y[~np.isnan(y)], atol=1e-9)
    if not ok: print('trend+gap != data', n)
print('worst rel err', worst)
# log mode
y=np.exp(np.cumsum(rng.standard_normal(20))*0.1); x=ir.Series(start=ir.qq(2000,1), values=y)
t,g=ir.hpf(x, smooth=100, log=True); r=np.exp(ref_hp(np.log(y),100))
print('log', np.abs(t.get_data().flatten()-r).max(), np.abs((t*g).get_data().flatten()-y).max())
# span clip
t2,g2=ir.hpf(x, smooth=100, span=ir.qq(2001,1)>>ir.qq(2006,4))
print(t2.start, t2.end, np.nanmax(np.abs(t2.get_data(ir.qq(2001,1)>>ir.qq(2004,4)) - ir.hpf(x,smooth=100)[0].get_data(ir.qq(2001,1)>>ir.qq(2004,4)))))
