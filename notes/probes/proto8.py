exec(open('/tmp/scratch/m1.py').read())
m.assign(std_ey=0.7, std_epi=1.3, std_er=0.2, std_ea=0.5, std_oy=0.4)
N=8; start=ir.qq(2020,1); span=start>>start+N-1
rng=np.random.default_rng(2)
db=ir.Databox()
db['obs_y']=ir.Series(start=start, values=tuple(rng.normal(-1,1,N))); db['obs_pi']=ir.Series(start=start, values=tuple(rng.normal(2,1,N)))
db['obs_y'][start+3]=np.nan; db['obs_pi'][start+5]=np.nan; db['obs_pi'][start+3]=np.nan
out = m.kalman_filter(db, span)
sm = out['smooth_med']
# 1 data reproduced
for n in ['obs_y','obs_pi']:
    d = db[n].get_data(span).flatten(); s_ = sm[n].get_data(span).flatten(); ok=~np.isnan(d)
    print(n, np.abs(d[ok]-s_[ok]).max(), 'nan where missing', np.isnan(s_[~ok]).all())
# 2 measurement eq
g=lambda n,t: float(sm[n].get_data(t)[0,0])
print('meas', max(abs(g('obs_y',start+i)-(g('y',start+i)+g('oy',start+i))) for i in range(N) if i!=3), max(abs(g('obs_pi',start+i)-(g('pi',start+i)+2)) for i in range(N) if i not in (3,5)))
# 3 backward-looking transition equations: r, a
print('trans', max(abs(g('r',start+i)-(0.7*g('r',start+i-1)+0.3*1.5*g('pi',start+i)+g('er',start+i))) for i in range(1,N)), max(abs(g('a',start+i)-(0.8*g('a',start+i-1)+g('ea',start+i))) for i in range(1,N)))
print('smooth start', sm['y'].start, sm['r'].start)
# 4 resimulate from smoothed initial condition with smoothed shocks
out2 = out
sm2 = sm
sim_in = sm2.copy()
span2 = start+1>>start+N-1
s = m.simulate(sim_in, span2, method='first_order', force_split_frames=False)
for n in ['y','pi','r','a','obs_y']:
    a_ = s[n].get_data(span2).flatten(); b_ = sm2[n].get_data(span2).flatten(); ok=~np.isnan(b_)
    print(n, np.abs(a_[ok]-b_[ok]).max())
