import irispie as ir, numpy as np, warnings
warnings.filterwarnings('ignore')
src = r"""
!parameters
    a, b
!equations
    diff_log(x) = a*diff_log(x[-1]) + b*log(z) ;
    pct(y) = 0.5*pct(y[-1]) + x - x[-1];
    log(w) = 0.3*log(w[-1]) + 0.1*y;
    v === x + y + w[-1];
    roc(u) = 1 + 0.01*v;
    diff(q) = 0.2*diff(q[-1]) + u;
"""
m = ir.Sequential.from_string(src); m.assign(a=0.5, b=0.1)
print(m.lhs_names, m.residual_names, m.rhs_only_names, m.is_sequential, m.max_lag)
start=ir.qq(2020,1); span=start>>start+7
rng=np.random.default_rng(0)
db=ir.Databox()
for n in m.lhs_names+('z',):
    db[n]=ir.Series(start=start-3, values=tuple(rng.uniform(1,2,3+8)))
for n in m.residual_names:
    db[n]=ir.Series(start=start, values=tuple(rng.normal(0,0.01,8)))
p = ir.SimulationPlan(m, span)
p.exogenize(start+2>>start+3, 'y')
p.exogenize(start+4, 'x', transform='diff_log')
db['diff_log_x'] = ir.Series(periods=(start+4,), values=(0.05,))
print(p)
for order in ['dates_equations','equations_dates']:
    s = m.simulate(db, span, plan=p, execution_order=order)
    g=lambda n,t: float(s[n].get_data(t)[0,0])
    worst=0
    for i in range(8):
        t=start+i
        L=np.log
        r=[ (L(g('x',t))-L(g('x',t-1))) - (0.5*(L(g('x',t-1))-L(g('x',t-2))) + 0.1*L(g('z',t)) + g('res_x',t)),
            (100*g('y',t)/g('y',t-1)-100) - (0.5*(100*g('y',t-1)/g('y',t-2)-100) + g('x',t)-g('x',t-1) + g('res_y',t)),
            L(g('w',t)) - (0.3*L(g('w',t-1))+0.1*g('y',t)+g('res_w',t)),
            g('v',t) - (g('x',t)+g('y',t)+g('w',t-1)),
            g('u',t)/g('u',t-1) - (1+0.01*g('v',t)+g('res_u',t)),
            (g('q',t)-g('q',t-1)) - (0.2*(g('q',t-1)-g('q',t-2)) + g('u',t) + g('res_q',t)) ]
        worst=max(worst, np.abs(r).max())
    print(order, 'worst resid', worst, 'y exog', [g('y',start+2)-float(db['y'].get_data(start+2)[0,0]), g('y',start+3)-float(db['y'].get_data(start+3)[0,0])], 'dlx', L(g('x',start+4))-L(g('x',start+3)))
s = m.simulate(db, span, plan=p)
g=lambda n,t: float(s[n].get_data(t)[0,0])
for i in range(8):
    t=start+i; L=np.log
    r=[ (L(g('x',t))-L(g('x',t-1))) - (0.5*(L(g('x',t-1))-L(g('x',t-2))) + 0.1*L(g('z',t)) + g('res_x',t)),
        (100*g('y',t)/g('y',t-1)-100) - (0.5*(100*g('y',t-1)/g('y',t-2)-100) + g('x',t)-g('x',t-1) + g('res_y',t)),
        L(g('w',t)) - (0.3*L(g('w',t-1))+0.1*g('y',t)+g('res_w',t)),
        g('v',t) - (g('x',t)+g('y',t)+g('w',t-1)),
        g('u',t)/g('u',t-1) - (1+0.01*g('v',t)+g('res_u',t)),
        (g('q',t)-g('q',t-1)) - (0.2*(g('q',t-1)-g('q',t-2)) + g('u',t) + g('res_q',t)) ]
    print(i, np.round(r,6))
print(s['res_x'].get_data(span).T, db['res_x'].get_data(span).T)
for e in m.iter_equations(): print(e.equation.human, '|', e._eval_level_str)
