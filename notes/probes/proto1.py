exec(open('/tmp/scratch/m1.py').read())
import scipy.linalg as sla
par = dict(rho=0.8, beta=0.6, kappa=0.1, phi=1.5, sig=0.3, c0=0.1)
def resid(get, t, sh):
    # own evaluation of model equations; get(name, t) returns value (expectation handled by caller)
    y=lambda k=0: get('y',t+k); pi=lambda k=0: get('pi',t+k); r=lambda k=0: get('r',t+k); a=lambda k=0: get('a',t+k)
    p=par
    return np.array([
        -y() + 0.5*y(1)+0.5*y(-1)-p['sig']*(r()-pi(1))+a()+sh('ey',t),
        -pi() + p['beta']*pi(1)+(1-p['beta'])*pi(-1)+p['kappa']*y()+sh('epi',t)+p['c0'],
        -r() + 0.7*r(-1)+0.3*p['phi']*pi()+sh('er',t),
        -a() + p['rho']*a(-1)+sh('ea',t),
    ])
N=8; H=60
start=ir.qq(2020,1); span = start>>start+N-1; xspan = start>>start+N+H-1
for deviation in [False, True]:
    db = ir.Databox.steady(m, xspan, deviation=deviation)
    rng=np.random.default_rng(3)
    # initial conditions
    for n in ['y','pi','r','a']:
        db[n][start-1] = db[n][start-1] + rng.standard_normal()
    db['ey'][start] = 1.0       # unanticipated in first period only => perfect foresight
    db['ant_epi'][start+3] = 0.7
    db['ant_er'][start+5] = -0.4
    s = m.simulate(db, xspan, deviation=deviation, method='first_order')
    def get(n,t): return float(s[n].get_data(t)[0,0])
    def sh(n,t): return float(s[n].get_data(t)[0,0]) + float(s['ant_'+n].get_data(t)[0,0])
    par_eff = dict(par)
    if deviation: par['c0']=0.0
    R = np.array([resid(get, start+i, sh) for i in range(N)])
    print('deviation',deviation,'max resid', np.abs(R).max(), 'tail dist', abs(get('y', start+N+H-1) - (0 if deviation else -1.0)))
    par['c0']=0.1
