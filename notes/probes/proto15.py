exec(open('/tmp/scratch/m1.py').read())
import scipy.linalg as sla
m.assign(std_ey=0.7, std_epi=1.3, std_er=0.2, std_ea=0.5, std_oy=0.4)
sol = m.get_solution(); T,P,K,Z,H,D = sol.T, sol.P, sol.K, sol.Z, sol.H, sol.D
su = np.array([0.7,1.3,0.2,0.5]); sw=np.array([0.4])
Om = sla.solve_discrete_lyapunov(T, P@np.diag(su**2)@P.T)
C0 = np.block([[Om, Om@Z.T],[Z@Om, Z@Om@Z.T + H@np.diag(sw**2)@H.T]])
A = np.block([[T, np.zeros((4,2))],[Z@T, np.zeros((2,2))]])
ac = m.get_acov(up_to_order=2)
print(np.abs(ac[0]-C0).max(), np.abs(ac[1]-A@C0).max(), np.abs(ac[2]-A@A@C0).max(), np.abs(ac[1]-ac[1].T).max())
cr = m.get_acorr(up_to_order=1)
sd = np.sqrt(np.diag(C0)); print(np.abs(cr[1] - (A@C0)/np.outer(sd,sd)).max())
import inspect; print(inspect.signature(m.rescale_stds))
m2 = m.copy(); m2.rescale_stds(2.0); print(np.abs(m2.get_acov()[0] - 4*C0).max() if isinstance(m2.get_acov(), tuple) else np.abs(m2.get_acov()-4*C0).max())
# unit root model
src2 = """
!transition-variables
    x, z, w
!transition-shocks
    ex, ez
!measurement-variables
    ox
!parameters
    rho
!transition-equations
    x = x{-1} + ex;
    z = rho*z{-1} + 0.5*(x - x{-1}) + ez;
    w = z + x;
!measurement-equations
    ox = x + z;
"""
u = ir.Simultaneous.from_string(src2, linear=True); u.assign(rho=0.5); u.solve()
print(u.get_eigenvalues_stability())
print(u.get_acov_dimension_names().rows); print(u.get_acov()[0] if isinstance(u.get_acov(), tuple) else u.get_acov())
# multi-variant
v = m.copy(); v.alter_num_variants(3); v.assign(rho=[0.1,0.5,0.9]); v.steady(); v.solve()
print(v.num_variants, [s.T[3,3] for s in v.get_solution()])
v1 = v.get_variant(1); print(v1.num_variants, v1.get_solution().T[3,3], v1['rho'])
