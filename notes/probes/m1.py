import irispie as ir, numpy as np, time
src = """
!transition-variables
    y, pi, r, a
!transition-shocks
    ey, epi, er, ea
!measurement-variables
    obs_y, obs_pi
!measurement-shocks
    oy
!parameters
    rho, beta, kappa, phi, sig, c0
!transition-equations
    y = 0.5*y{+1} + 0.5*y{-1} - sig*(r - pi{+1}) + a + ey;
    pi = beta*pi{+1} + (1-beta)*pi{-1} + kappa*y + epi + c0;
    r = 0.7*r{-1} + 0.3*(phi*pi) + er;
    a = rho*a{-1} + ea;
!measurement-equations
    obs_y = y + oy;
    obs_pi = pi + 2;
"""
t0=time.time()
m = ir.Simultaneous.from_string(src, linear=True)
print('parse', time.time()-t0)
m.assign(rho=0.8, beta=0.6, kappa=0.1, phi=1.5, sig=0.3, c0=0.1)
t0=time.time(); m.steady(); print('steady', time.time()-t0)
t0=time.time(); m.solve(); print('solve', time.time()-t0)
