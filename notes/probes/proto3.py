exec(open('/tmp/scratch/m1.py').read())
import scipy.linalg as sla
m.assign(std_ey=0.7, std_epi=1.3, std_er=0.2, std_ea=0.5, std_oy=0.4)
sol = m.get_solution()
T,P,K,Z,H,D = sol.T, sol.P, sol.K, sol.Z, sol.H, sol.D
vec = m.solution_vectors
print(vec.transition_variables, vec.transition_shocks, vec.measurement_variables, vec.measurement_shocks)
qn = m.create_qid_to_name()
N = 6
start=ir.qq(2020,1); span=start>>start+N-1
su = np.array([0.7,1.3,0.2,0.5]); sw=np.array([0.4])
nx=T.shape[0]; nu=P.shape[1]; ny=Z.shape[0]; nw=H.shape[1]
# base vector e = [xi0 - mu0; u_1..u_N; w_1..w_N]
Om0 = sla.solve_discrete_lyapunov(T, P@np.diag(su**2)@P.T)
mu0 = np.linalg.solve(np.eye(nx)-T, K)
ne = nx + N*nu + N*nw
Sig = sla.block_diag(Om0, *[np.diag(su**2)]*N, *[np.diag(sw**2)]*N)
# xi_t = c_t + M_t e
Ms=[]; cs=[]
M = np.zeros((nx,ne)); M[:, :nx]=np.eye(nx); c = mu0.copy()
for t in range(N):
    M = T@M; c = T@c + K
    M[:, nx+t*nu: nx+(t+1)*nu] += P
    Ms.append(M.copy()); cs.append(c.copy())
Ys=[]; dys=[]
for t in range(N):
    My = Z@Ms[t]; My[:, nx+N*nu+t*nw: nx+N*nu+(t+1)*nw] += H
    Ys.append(My); dys.append(Z@cs[t]+D)
MY = np.vstack(Ys); cY=np.concatenate(dys)
# data
rng=np.random.default_rng(5)
ydat = cY + rng.standard_normal(N*ny)*2
mask = rng.random(N*ny) < 0.3
mask[2*ny:3*ny] = True   # period 3 fully missing
obs = ~mask
db = ir.Databox()
ynames = [qn[t.qid] for t in vec.measurement_variables]
for j,n in enumerate(ynames):
    v = ydat.reshape(N,ny)[:,j].copy(); v[mask.reshape(N,ny)[:,j]] = np.nan
    db[n] = ir.Series(start=start, values=v)
out, info = m.kalman_filter(db, span, return_info=True)
# reference nll
A = MY[obs]; S = A@Sig@A.T; r = ydat[obs]-cY[obs]
nll = 0.5*(obs.sum()*np.log(2*np.pi) + np.linalg.slogdet(S)[1] + r@np.linalg.solve(S,r))
print('nll', info['neg_log_likelihood'], nll)
print('contribs sum', info['neg_log_likelihood_contributions'].get_data().sum(), info['neg_log_likelihood_contributions'].get_data().T)
# smoothed xi means/vars
xnames = [qn[t.qid] for t in vec.transition_variables if t.shift==0]
idx0 = [i for i,t in enumerate(vec.transition_variables) if t.shift==0]
G = Sig@A.T@np.linalg.inv(S)
e_s = G@r; V_s = Sig - G@A@Sig
err_m=0; err_s=0
for t in range(N):
    xm = cs[t] + Ms[t]@e_s; xv = np.diag(Ms[t]@V_s@Ms[t].T)
    for k,i in enumerate(idx0):
        n = xnames[k]
        err_m = max(err_m, abs(out['smooth_med'][n].get_data(start+t)[0,0]-xm[i]))
        err_s = max(err_s, abs(out['smooth_std'][n].get_data(start+t)[0,0]-np.sqrt(max(xv[i],0))))
print('smooth mean err', err_m, 'std err', err_s)
# smoothed shocks
us = e_s[nx:nx+N*nu].reshape(N,nu)
unames=[qn[t.qid] for t in vec.transition_shocks]
print('shock err', max(abs(out['smooth_med'][n].get_data(start+t)[0,0]-us[t,j]) for t in range(N) for j,n in enumerate(unames)))
# predict/update at t
def cond(upto):  # condition on obs with period < upto
    o = obs.copy(); o[upto*ny:] = False
    if o.sum()==0: return np.zeros(ne), Sig
    A_=MY[o]; S_=A_@Sig@A_.T; G_=Sig@A_.T@np.linalg.inv(S_); return G_@(ydat[o]-cY[o]), Sig-G_@A_@Sig
ep=0; eu=0
for t in range(N):
    e_p,V_p = cond(t); e_u,V_u = cond(t+1)
    for k,i in enumerate(idx0):
        n=xnames[k]
        ep=max(ep, abs(out['predict_med'][n].get_data(start+t)[0,0]-(cs[t]+Ms[t]@e_p)[i]), abs(out['predict_std'][n].get_data(start+t)[0,0]-np.sqrt(max((Ms[t]@V_p@Ms[t].T)[i,i],0))))
        eu=max(eu, abs(out['update_med'][n].get_data(start+t)[0,0]-(cs[t]+Ms[t]@e_u)[i]), abs(out['update_std'][n].get_data(start+t)[0,0]-np.sqrt(max((Ms[t]@V_u@Ms[t].T)[i,i],0))))
print('predict err', ep, 'update err', eu)
