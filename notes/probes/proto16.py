import itertools, numpy as np, warnings
warnings.filterwarnings('ignore')
from irispie.incidences import blazer
def has_pm(im):
    n = im.shape[0]
    match = [-1]*n
    def try_(u, seen):
        for v in range(n):
            if im[u,v] and not seen[v]:
                seen[v]=True
                if match[v]<0 or try_(match[v], seen):
                    match[v]=u; return True
        return False
    return all(try_(u,[False]*n) for u in range(n))
def valid(im, blocks):
    n=im.shape[0]
    es=[e for b in blocks for e in b.eids]; qs=[q for b in blocks for q in b.qids]
    if sorted(es)!=list(range(n)) or sorted(qs)!=list(range(n)): return 'partition'
    seen=set()
    for b in blocks:
        if len(b.eids)!=len(b.qids): return 'nonsquare'
        sub = im[np.ix_(b.eids,b.qids)]
        if not has_pm(sub): return 'singular block'
        seen |= set(b.qids)
        for e in b.eids:
            if any(im[e,q] and q not in seen for q in range(n)): return 'forward ref'
    return None
bad=0; tot=0
for n in (1,2):
    for bits in itertools.product([0,1], repeat=n*n):
        im = np.array(bits, dtype=bool).reshape(n,n)
        if not has_pm(im): continue
        tot+=1
        try:
            bl = blazer.blaze(im)
            r = valid(im, bl)
        except Exception as ex:
            r = 'EXC '+type(ex).__name__+str(ex)[:60]
        if r:
            bad+=1
            if bad<6: print(n, r); print(im.astype(int))
print('total', tot, 'bad', bad)
rng = np.random.default_rng(0); bad=0; tot=0
for it in range(6000):
    n = int(rng.integers(5,12))
    dens = rng.uniform(0.05,0.5)
    im = rng.random((n,n)) < dens
    im[np.arange(n), rng.permutation(n)] = True
    tot+=1
    try:
        r = valid(im, blazer.blaze(im))
    except Exception as ex:
        r = 'EXC '+type(ex).__name__+str(ex)[:80]
    if r:
        bad+=1
        if bad<4: print(n, r); print(im.astype(int))
print('sampled', tot, 'bad', bad)
