exec(open('/tmp/scratch/m1.py').read())
import pickle, dill, os
def sig(mm):
    mm.steady(); mm.solve()
    s = mm.get_solution()
    ss = s if isinstance(s, list) else [s]
    return [float(np.abs(x.T).sum()+np.abs(x.K).sum()) for x in ss]
base = sig(m)
c = m.copy(); pk = pickle.loads(pickle.dumps(m)); dl = dill.loads(dill.dumps(m))
ir.save('/tmp/scratch/m.pkl', m)
try:
    ld = ir.load('/tmp/scratch/m.pkl'); print('load ok', sig(ld)==base)
except Exception as ex: print('save/load EXC', type(ex).__name__, ex)
print(sig(c)==base, sig(pk)==base, sig(dl)==base)
c.assign(rho=0.3); print('orig unaffected', sig(m)==base, 'copy changed', sig(c)!=base)
pk.assign(beta=0.7); print('orig unaffected', sig(m)==base)
# variants aliasing
v = m.copy(); v.alter_num_variants(3); v.assign(rho=[0.1,0.5,0.9])
v1 = v.get_variant(1); v1.assign(rho=0.2)
print('get_variant aliasing: v rho', v['rho'])
v2 = v[2]; v2.assign(kappa=0.9); print(v['kappa'])
# expand after assign: new variants copy last
w = m.copy(); w.alter_num_variants(2); w.assign(rho=[0.2,0.4]); w.alter_num_variants(3); w.assign(rho=[0.2,0.4,0.6]); print(w['rho'])
w.steady(); w.solve(); 
for k in range(3):
    s1 = m.copy(); s1.assign(rho=w['rho'][k]); print(k, sig(s1)[0], sig(w)[k])
# solution sharing after copy
c2 = m.copy(); print(c2.get_solution().T is m.get_solution().T, np.shares_memory(c2.get_solution().T, m.get_solution().T))
# Sequential / RedVAR copy
sq = ir.Sequential.from_string("!parameters\n a\n!equations\n x = a*x[-1] + 1;"); sq.assign(a=0.5); sc = sq.copy(); sc.assign(a=0.9); print(sq.get_parameters() if hasattr(sq,'get_parameters') else None)
