"""
C19 - Databox, dataslate and CSV conversions are lossless on selected names and span.

Three Hypothesis sub-checks, every case plain data:

csv_roundtrip   a databox of series (all frequencies, 1-3 variants, NaNs, descriptions,
                scalars/lists alongside) is written with Databox.to_csv_file under drawn
                options into a file in a fresh temporary directory and read back with
                Databox.from_csv_file; oracle = the dict reference series restricted to
                the exported names / frequencies / spans.
slate_roundtrip Dataslate.from_databox(db, names, span, ...).to_databox() against the
                values of the reference series on the span, fallbacks where missing,
                overwrites everywhere.
machine         a drawn list of Databox operations interpreted against two real
                databoxes and two dict models of reference items (with object identity
                mirrored, so shallow() aliasing and copy() independence are observable);
                everything is compared after every step.
"""

import copy
import math
import os
import shutil
import tempfile
import warnings

from hypothesis import strategies as st

from vlib import refcal, pgen, refseries as rs
from vlib.runner import HypSub, Collector, Violation, api

PROPERTY = "C19"

RULE = (
    "csv_roundtrip: 1-6 series drawn over 1-4 of the six frequencies (yearly..daily, integer) around per-frequency "
    "anchors, 1-3 variants, interior/edge-variant NaNs, descriptions with commas/quotes/delimiters/non-ASCII, extra "
    "scalar/list items, options description_row/round/delimiter/nan_str/names(list,str,predicate)/span/"
    "frequency_span/frequency/start_period_only/when_empty; non-trivial iff the exported part has >= 2 frequencies "
    "and a multi-variant series.  slate_roundtrip: series of one frequency plus scalars/lists, drawn names (incl. "
    "absent ones) and span, 1-3 variants, fallbacks/overwrites (scalars or per-variant lists), trim on/off, base "
    "columns; non-trivial iff a series has observations inside and outside the span or a fallback/overwrite is "
    "declared for a requested name.  machine: two databoxes over a shared name pool and 1-8 operations (overlay, "
    "underlay, clip, prepend, copy, shallow, rename, keep, remove, merge with every documented strategy) with name "
    "selections given as None / list / tuple / single name / predicate and targets as list / name / renaming "
    "function; non-trivial iff some executed operation's selection matched a non-empty strict subset of the "
    "names of the box it was applied to"
)

ASSUMPTIONS = [
    "CSV: a series with observations none of which lies inside the exported span may come back absent or observation-free; series without any observation are generated only when neither names nor a span/frequency selection is given, and must then come back by name, observation-free, with their number of variants",
    "CSV: scalars, lists and other non-series items are not exported (to_csv_file documents time series only); they are present in the box and must simply be ignored",
    "CSV: names are ASCII identifiers (never '*', never starting with '__', which the format reserves); descriptions contain no line breaks; nan_str is one of '', NaN, nan, NA, -, ., n/a, missing (a nan_str containing '#', the delimiter or a numeric literal cannot be read back by numpy.genfromtxt and is not generated)",
    "CSV: numeric_format, date_formatter/period_from_string pairs, csv_writer_settings/csv_reader_settings/numpy_reader_settings and name_row_transform are not exercised (numeric_format is accepted but unused by the implementation; not judged)",
    "CSV: span= is a forward span (any step), a backward span of step -1 or an increasing tuple of periods; frequency_span= entries are contiguous forward spans; start_period_only is only combined with consecutive forward rows; the description row is requested on both sides or on neither",
    "CSV: tolerance after round=r is 0.5*10**-r plus 8 ulp of the value; round=None must be exact",
    "Dataslate: periods are a contiguous forward span of the frequency of every requested series; items are series, real scalars or lists of real scalars; a series/list with fewer variants than num_variants repeats its last variant (library-wide convention, exhaust_then_last)",
    "Dataslate: with clip_data_to_base_span the input values are kept on the base columns only and the declared fallbacks and overwrites then fill the whole span (the statement's 'NaN elsewhere, filled only by the declared fallbacks and overwrites'); validators and logly options are not exercised",
    "machine: overlay/underlay/prepend are judged with the Series.overlay/underlay docstring algorithm; where a series is untrimmed after clip() the documented 'first to last available observation' span and the stored start..end span differ and either result is accepted; when either side has no observation the item may also stay unchanged (Databox._lay skips series of unknown frequency)",
    "machine: operations whose outcome is undocumented are skipped and counted under skipped_* labels: overlay/underlay names pointing at non-series items, the same name holding different frequencies or kinds in the two boxes, variant counts that cannot broadcast (k vs 1 only), rename onto an existing name or with duplicate targets (the implementation pops and assigns sequentially, so a swap loses an item - observed, not asserted), source/target lists of different lengths, clip with start > end",
    "machine: merge is always given a deep copy of the other box (merge stores the other box's objects without copying; aliasing after merge is undocumented), after first replacing the other box by its own copy(); descriptions of stacked series are not judged; after 'error'/'critical' only the raise is asserted (on a throwaway copy)",
    "machine: the order of names inside a databox is not judged; the return value of keep(None) is not judged (keep documents list / name / callable only)",
    "descriptions of series left without any observation are not judged (Series.trim() resets an all-missing series, description included) - machine lay steps and dataslate results",
    "machine: strict_names=True with an absent name must raise (any exception); the state after the raise is not judged (the call is made on a throwaway copy)",
]

NAN = float("nan")
EPS = 2.0 ** -52


def _ir():
    import irispie as ir
    return ir


# ---------------------------------------------------------------------------
# Shared strategies
# ---------------------------------------------------------------------------

_FLOATS = st.floats(-5.0, 5.0, allow_nan=False, allow_infinity=False, width=64)
_EIGHTHS = st.integers(-60, 40)            # k/8; k <= -41 means missing (about one cell in five)
_FLOAT_CELL = st.one_of(_FLOATS, _FLOATS, _FLOATS, _FLOATS, st.none())


@st.composite
def _anchor(draw, f):
    if f == 0:
        return draw(st.one_of(st.integers(-30, 30), st.integers(-10**6, 10**6)))
    return pgen.ref_index(draw(pgen.period_desc(freq=f, margin_years=30)))


@st.composite
def _series_near(draw, f, anchor, nv=None, max_len=10, spread=6, scale=1.0, allow_empty=False, gaps=False):
    """Series description {"f", "start", "nv", "rows"} starting within `spread` periods of the anchor index."""
    off = draw(st.integers(-spread, spread))
    n = draw(st.sampled_from([min(4, max_len)] + list(range(1, max_len + 1))))
    nv = nv if nv is not None else draw(st.sampled_from([2, 1, 1, 3]))
    if draw(st.integers(0, 3)) == 0:
        rows = draw(st.lists(st.lists(_FLOAT_CELL, min_size=nv, max_size=nv), min_size=n, max_size=n))
    else:
        ks = draw(st.lists(_EIGHTHS, min_size=n * nv, max_size=n * nv))
        rows = [[None if ks[r * nv + v] <= -41 else ks[r * nv + v] / 8.0 for v in range(nv)] for r in range(n)]
    if scale != 1.0:
        rows = [[None if x is None else x * scale for x in row] for row in rows]
    if gaps and n >= 3 and draw(st.integers(0, 2)) == 0:
        g0 = draw(st.integers(1, n - 2))                 # a block of entirely missing interior periods
        for r in range(g0, min(n - 1, g0 + draw(st.integers(1, 3)))):
            rows[r] = [None] * nv
    if not allow_empty and all(x is None for row in rows for x in row):
        rows[0][draw(st.integers(0, nv - 1))] = 1.0 * scale
    return {"f": f, "start": pgen.from_index(f, anchor + off), "nv": nv, "rows": rows}


def _mk_pred(p):
    kind = p[0]
    if kind == "startswith":
        return lambda n: n.startswith(p[1])
    if kind == "not_startswith":
        return lambda n: not n.startswith(p[1])
    if kind == "endswith":
        return lambda n: n.endswith(p[1])
    if kind == "contains":
        return lambda n: p[1] in n
    if kind == "in":
        return lambda n: n in p[1]
    if kind == "len_gt":
        return lambda n: len(n) > p[1]
    if kind == "all":
        return lambda n: True
    if kind == "none":
        return lambda n: False
    raise ValueError(p)


def _mk_func(fn):
    kind = fn[0]
    if kind == "prefix":
        return lambda n: fn[1] + n
    if kind == "suffix":
        return lambda n: n + fn[1]
    if kind == "upper":
        return lambda n: n.upper()
    if kind == "identity":
        return lambda n: n
    if kind == "map":
        table = dict(fn[1])
        return lambda n: table.get(n, n + "_r")
    raise ValueError(fn)


def _sel_arg(sel):
    """The real argument for a selection description."""
    if sel is None:
        return None
    kind, v = sel
    if kind == "list":
        return list(v)
    if kind == "tuple":
        return tuple(v)
    if kind == "str":
        return v
    if kind == "pred":
        return _mk_pred(v)
    raise ValueError(sel)


def _sel_names(sel, names):
    """Documented meaning of a source-name selection: the listed names (possibly absent ones),
    the names for which the callable is true, or all names for None."""
    if sel is None:
        return list(names)
    kind, v = sel
    if kind in ("list", "tuple"):
        return list(v)
    if kind == "str":
        return [v]
    if kind == "pred":
        fn = _mk_pred(v)
        return [n for n in names if fn(n)]
    raise ValueError(sel)


def _tgt_arg(tgt):
    if tgt is None:
        return None
    kind, v = tgt
    if kind == "list":
        return list(v)
    if kind == "str":
        return v
    if kind == "func":
        return _mk_func(v)
    raise ValueError(tgt)


def _resolve_pairs(src, tgt, names):
    """(source, target) pairs as the docstrings describe them; None if the lengths disagree."""
    s = _sel_names(src, names)
    if tgt is None:
        t = list(s)
    elif tgt[0] == "list":
        t = list(tgt[1])
    elif tgt[0] == "str":
        t = [tgt[1]]
    else:
        fn = _mk_func(tgt[1])
        t = [fn(n) for n in s]
    if len(s) != len(t):
        return None
    return list(zip(s, t))


def _preds(universe):
    letters = sorted({n[0] for n in universe})
    return st.one_of(
        st.tuples(st.just("startswith"), st.sampled_from(letters)),
        st.tuples(st.just("not_startswith"), st.sampled_from(letters)),
        st.tuples(st.just("startswith"), st.sampled_from(letters)),
        st.tuples(st.just("endswith"), st.sampled_from(["1", "2", "3", "_x"])),
        st.tuples(st.just("contains"), st.sampled_from(["_", "1", "2", "x"])),
        st.tuples(st.just("in"), st.lists(st.sampled_from(universe), min_size=1, max_size=4, unique=True)),
        st.tuples(st.just("len_gt"), st.integers(1, 4)),
        st.sampled_from([("all", ), ("all", ), ("none", )]),
    ).map(list)


def _source_sel(universe, allow_none=True):
    # the first alternative is what Hypothesis treats as simplest: keep it a useful, typical selection
    lst = st.sampled_from([2, 1, 3, 4, 5, 0]).flatmap(
        lambda k: st.lists(st.sampled_from(universe), min_size=min(k, 1), max_size=max(k, 1), unique=True))
    opts = [
        st.tuples(st.just("list"), lst).map(list),
        st.tuples(st.just("pred"), _preds(universe)).map(list),
        st.tuples(st.just("list"), lst).map(list),
        st.tuples(st.just("tuple"), lst).map(list),
        st.tuples(st.just("str"), st.sampled_from(universe)).map(list),
        st.tuples(st.just("pred"), _preds(universe)).map(list),
    ]
    if allow_none:
        opts.append(st.none())
    return st.one_of(*opts)


# ---------------------------------------------------------------------------
# 1. CSV round trip
# ---------------------------------------------------------------------------

_DESC_ALPHABET = list("abcXYZ019 _-()%") + [",", ";", "\"", "'", "|", "\t", "#", "*", "=", ".", "é", "ß", "€", "中"]
_DESC = st.one_of(st.just(""), st.text(alphabet=st.sampled_from(_DESC_ALPHABET), min_size=1, max_size=12))
_NAME = st.from_regex(r"[a-cA-C][A-Za-z0-9_]{0,6}", fullmatch=True).filter(lambda s: s.isascii())
_DELIMS = [",", ",", ",", ";", "\t", "|"]
_DELIM_NAME = {",": "comma", ";": "semicolon", "\t": "tab", "|": "pipe"}
_NAN_STRS = ["", "NaN", "nan", "NA", "-", ".", "n/a", "missing"]
_ROUNDS = ["default", "default", None, None, 0, 1, 2, 3, 6, 9, 12, 15]


@st.composite
def _csv_case(draw):
    nf = draw(st.sampled_from([2, 1, 2, 3, 3, 4]))
    freqs = draw(st.lists(st.sampled_from(refcal.ALL), min_size=nf, max_size=nf, unique=True))
    anchors = {f: draw(_anchor(f)) for f in freqs}
    ns = draw(st.sampled_from([3, 1, 2, 3, 4, 4, 5, 6]))
    names = draw(st.lists(_NAME, min_size=ns, max_size=ns, unique_by=lambda s: s.lower()))
    extras = []
    used = {n.lower() for n in names}
    if draw(st.booleans()) and "scalar_" not in used:
        extras.append(["scalar_", draw(st.sampled_from([1, 2.5, "text", None]))])
    if draw(st.booleans()) and "list_" not in used:
        extras.append(["list_", draw(st.lists(st.integers(-3, 3), max_size=3))])
    universe = names * 4 + [e[0] for e in extras] + ["absent_"]
    name_sel = draw(st.one_of(st.none(), _source_sel(universe, allow_none=False), _source_sel(universe, allow_none=False)))
    # span / frequency selection
    kind = draw(st.sampled_from(["none", "none", "none", "span", "span", "frequency_span", "frequency_span", "frequency"]))
    some_f = freqs * 4 + list(refcal.ALL)
    if kind == "none":
        sel = None
    elif kind == "span":
        f = draw(st.sampled_from(some_f))
        a = anchors.get(f)
        if a is None:
            a = draw(_anchor(f))
        lo = a + draw(st.integers(-12, 12))
        sel = {"kind": "span", "f": f, "lo": lo, "hi": lo + draw(st.integers(0, 20))}
        shape = draw(st.sampled_from(["contiguous", "contiguous", "step", "tuple", "backward"]))
        if shape == "step":
            sel["step"] = draw(st.integers(2, 4))
        elif shape == "tuple":
            # an explicit, possibly non-contiguous tuple of periods (increasing)
            sel["picks"] = sorted(draw(st.lists(st.integers(0, sel["hi"] - lo), min_size=1, max_size=6, unique=True)))
        elif shape == "backward":
            sel["backward"] = True
    elif kind == "frequency_span":
        fs = draw(st.lists(st.sampled_from(some_f), min_size=1, max_size=3, unique=True))
        entries = []
        for f in fs:
            if draw(st.booleans()):
                entries.append([f, None])
            else:
                a = anchors.get(f)
                if a is None:
                    a = draw(_anchor(f))
                lo = a + draw(st.integers(-12, 12))
                entries.append([f, [lo, lo + draw(st.integers(0, 20))]])
        sel = {"kind": "frequency_span", "entries": entries, "int_keys": draw(st.booleans())}
    else:
        sel = {"kind": "frequency", "f": draw(st.sampled_from(some_f))}
    opts = {
        "description_row": draw(st.booleans()),
        "round": draw(st.sampled_from(_ROUNDS)),
        "delimiter": draw(st.sampled_from(_DELIMS)),
        "nan_str": draw(st.sampled_from(["default", "default"] + _NAN_STRS)),
        "names": name_sel,
        "sel": sel,
        "start_period_only": draw(st.sampled_from([False, False, True])),
        "when_empty": draw(st.sampled_from(["default", "default", "silent", "warning", "error"])),
        "return_info": draw(st.booleans()),
    }
    # bulk data last (Hypothesis fills the tail of early examples with simplest choices)
    items = []
    for k, name in enumerate(names):
        f = freqs[k] if k < len(freqs) else draw(st.sampled_from(freqs))
        scale = 10.0 ** draw(st.sampled_from([0, 0, 0, -7, -3, 2, 6]))
        ser = draw(_series_near(f, anchors[f], max_len=20 if f == 365 else 12, spread=8, scale=scale))
        items.append({"name": name, "desc": draw(_DESC), "series": ser})
    # observation-free series (no start, unknown frequency): exported in a block of their own when neither names nor
    # a span/frequency selection is given; only generated in that setting
    empties = []
    if name_sel is None and sel is None:
        empties = [[f"zz_empty{k}", draw(st.sampled_from([1, 1, 2, 3])), draw(_DESC)] for k in range(draw(st.sampled_from([0, 0, 1, 2])))]
    return {"items": items, "extras": extras, "opts": opts, "empties": empties}


def _csv_plan(case):
    """Names expected to be exported and the exported index range per frequency (harness side only)."""
    refs = {it["name"]: rs.ref_from_desc(it["series"]) for it in case["items"]}
    order = [it["name"] for it in case["items"]] + [e[0] for e in case["extras"]]
    opts = case["opts"]
    chosen = []
    for n in _sel_names(opts["names"], order):
        if n in refs and n not in chosen:
            chosen.append(n)

    def union(names, f):
        spans = [refs[n].span() for n in names if refs[n].f == f]
        return (min(s[0] for s in spans), max(s[1] for s in spans)) if spans else None

    sel = opts["sel"]
    ranges = {}
    if sel is None:
        for f in sorted({refs[n].f for n in chosen}):
            ranges[f] = union(chosen, f)
    elif sel["kind"] == "span":
        ranges[sel["f"]] = (sel["lo"], sel["hi"])
    elif sel["kind"] == "frequency_span":
        for f, rng in sel["entries"]:
            if rng is None:
                u = union(list(refs), f)      # the harness passes the span of the whole box for this frequency
                if u is not None:
                    ranges[f] = u
            else:
                ranges[f] = (rng[0], rng[1])
    else:
        u = union(chosen, sel["f"])
        if u is not None:
            ranges[sel["f"]] = u
    exported = [n for n in chosen if refs[n].f in ranges]
    return refs, order, chosen, ranges, exported


def _span_member(sel, k):
    """Is index k one of the periods of the span selection (stepped spans and explicit tuples are subsets of lo..hi)."""
    if not sel or sel["kind"] != "span":
        return True
    if sel.get("step"):
        return (k - sel["lo"]) % sel["step"] == 0
    if sel.get("picks") is not None:
        return (k - sel["lo"]) in sel["picks"]
    return True


def _classify_csv(case):
    refs, order, chosen, ranges, exported = _csv_plan(case)
    opts = case["opts"]
    fset = {refs[n].f for n in exported}
    labels = [f"nfreq_exported_{len(fset)}", "delim_" + _DELIM_NAME[opts["delimiter"]],
              f"round_{opts['round']}", f"sel_{'none' if opts['sel'] is None else opts['sel']['kind']}",
              f"names_{'none' if opts['names'] is None else opts['names'][0]}"]
    labels += [f"freq_{refcal.LETTER[f]}" for f in sorted(fset)]
    if opts["description_row"]:
        labels.append("description_row")
        if any(any(c in it["desc"] for c in ",;\"'|\t") for it in case["items"]):
            labels.append("desc_with_delimiter_or_quote")
    if opts["start_period_only"]:
        labels.append("start_period_only")
    if opts["nan_str"] != "default":
        labels.append("nan_str_set")
    multi = any(refs[n].nv >= 2 for n in exported)
    if multi:
        labels.append("multivariant_exported")
    if not exported:
        labels.append("nothing_exported")
    if chosen and len(chosen) < len(refs):
        labels.append("strict_subset_of_series_selected")
    return len(fset) >= 2 and multi, labels


def _snap(x):
    ir = _ir()
    if isinstance(x, ir.Series):
        d = x.data
        return ("series", repr(x.start), d.shape, d.tobytes(), x.get_description())
    return ("value", type(x).__name__, repr(x))


def _cmp_rounded(x, ref, rnd, description):
    """'' or a message: Series x against Ref ref with the tolerance of rounding to rnd decimals."""
    ir = _ir()
    if not isinstance(x, ir.Series):
        return f"item is {type(x).__name__}, not a Series"
    if x.start is None:
        return "series came back empty"
    if x.frequency != pgen.freq_enum(ref.f):
        return f"frequency {x.frequency!r}, expected {pgen.freq_enum(ref.f)!r}"
    if x.num_variants != ref.nv:
        return f"number of variants {x.num_variants}, expected {ref.nv}"
    got = rs.read(x, ref.f)
    for key in sorted(set(got.cells) | set(ref.cells)):
        a, b = got.get(*key), ref.get(*key)
        if math.isnan(a) != math.isnan(b):
            return f"cell {pgen.describe(pgen.from_index(ref.f, key[0]))} variant {key[1]}: got {a!r}, expected {b!r}"
        tol = 0.0 if rnd is None else 0.5 * 10.0 ** (-rnd) * (1 + 1e-9) + 8 * EPS * abs(b)
        if abs(a - b) > tol:
            return (f"cell {pgen.describe(pgen.from_index(ref.f, key[0]))} variant {key[1]}: got {a!r}, expected {b!r} "
                    f"(round={rnd!r}, tolerance {tol:g})")
    lo, hi = rs.idx_of(x.start, ref.f), rs.idx_of(x.end, ref.f)
    if (lo, hi) != ref.span():
        sp = ref.span()
        return (f"span {x.start!r}..{x.end!r}, expected {pgen.describe(pgen.from_index(ref.f, sp[0]))}.."
                f"{pgen.describe(pgen.from_index(ref.f, sp[1]))}")
    if x.get_data().shape != (hi - lo + 1, ref.nv):
        return f"data shape {x.get_data().shape}"
    if x.get_description() != description:
        return f"description {x.get_description()!r}, expected {description!r}"
    return ""


def _check_csv(case):
    ir = _ir()
    col = Collector()
    refs, order, chosen, ranges, exported = _csv_plan(case)
    opts = case["opts"]
    descs = {it["name"]: it["desc"] for it in case["items"]}
    db = ir.Databox()
    for it in case["items"]:
        db[it["name"]] = rs.build(refs[it["name"]], description=it["desc"])
    for name, val in case["extras"]:
        db[name] = copy.deepcopy(val)
    empties = list(case.get("empties") or []) if exported else []
    for name, nv_, desc_ in empties:
        db[name] = ir.Series(num_variants=nv_, description=desc_)
    before = {n: _snap(db[n]) for n in db.keys()}

    def span_of(f, lo, hi):
        return ir.Span(rs.period_at(f, lo), rs.period_at(f, hi))

    wkw, rkw = {}, {}
    if opts["description_row"]:
        wkw["description_row"] = True
        rkw["description_row"] = True
    if opts["round"] != "default":
        wkw["round"] = opts["round"]
    rnd = 12 if opts["round"] == "default" else opts["round"]
    if opts["delimiter"] != "," or opts["return_info"]:
        wkw["delimiter"] = opts["delimiter"]
        rkw["delimiter"] = opts["delimiter"]
    if opts["nan_str"] != "default":
        wkw["nan_str"] = opts["nan_str"]
    if opts["names"] is not None:
        wkw["names"] = _sel_arg(opts["names"])
    if opts["when_empty"] != "default":
        wkw["when_empty"] = opts["when_empty"]
    if opts["return_info"]:
        wkw["return_info"] = True
    if opts["start_period_only"]:
        rkw["start_period_only"] = True
    sel = opts["sel"]
    if sel is not None:
        if sel["kind"] == "span":
            if sel.get("step"):
                wkw["span"] = ir.Span(rs.period_at(sel["f"], sel["lo"]), rs.period_at(sel["f"], sel["hi"]), sel["step"])
            elif sel.get("picks") is not None:
                wkw["span"] = tuple(rs.period_at(sel["f"], sel["lo"] + k) for k in sel["picks"])
            elif sel.get("backward"):
                wkw["span"] = ir.Span(rs.period_at(sel["f"], sel["hi"]), rs.period_at(sel["f"], sel["lo"]), -1)
            else:
                wkw["span"] = span_of(sel["f"], sel["lo"], sel["hi"])
            if sel.get("step") or sel.get("picks") is not None or sel.get("backward"):
                rkw.pop("start_period_only", None)      # reading by the first period only presumes consecutive forward rows
        elif sel["kind"] == "frequency_span":
            fsp = {}
            for f, rng in sel["entries"]:
                key = f if sel["int_keys"] else ir.Frequency(f)
                if rng is None:
                    if f in ranges:
                        fsp[key] = span_of(f, *ranges[f])
                else:
                    fsp[key] = span_of(f, rng[0], rng[1])
            wkw["frequency_span"] = fsp
        else:
            wkw["frequency"] = ir.Frequency(sel["f"])
    tag = ("" if opts["delimiter"] == "," else ":noncomma_delimiter") + (":frequency_option" if sel and sel["kind"] == "frequency" else "")

    tmp = tempfile.mkdtemp(prefix="c19_")
    try:
        path = os.path.join(tmp, "box.csv")
        if not exported and opts["when_empty"] == "error":
            try:
                db.to_csv_file(path, **wkw)
            except Exception:  # noqa: BLE001 - the documented outcome
                pass
            else:
                col.fail("csv:when_empty_error_not_raised" + tag, "nothing to export, when_empty='error', no exception")
            col.done()
            return {"labels": ["when_empty_error"], "nontrivial": False}
        with warnings.catch_warnings():
            warnings.simplefilter("ignore")
            info = api("csv:write", db.to_csv_file, path, **wkw)
            for n in db.keys():
                col.check(_snap(db[n]) == before[n], "csv:write_modified_input", lambda: f"item {n!r} changed during to_csv_file")
            col.check(list(db.keys()) == list(before), "csv:write_modified_input", "names changed during to_csv_file")
            if opts["return_info"]:
                ok = isinstance(info, dict) and "names_exported" in info
                col.check(ok, "csv:info", lambda: f"return_info=True returned {info!r}")
                if ok:
                    want_names = sorted(list(exported) + [e[0] for e in empties])
                    col.check(sorted(info["names_exported"]) == want_names,
                              "csv:info_names_exported" + tag,
                              lambda: f"names_exported {sorted(info['names_exported'])}, expected {want_names}")
            back = api("csv:read" + tag, ir.Databox.from_csv_file, path, **rkw)
    finally:
        shutil.rmtree(tmp, ignore_errors=True)

    exp = {}
    for n in exported:
        ref = refs[n]
        lo, hi = ranges[ref.f]
        exp[n] = rs.Ref(ref.f, ref.nv, {k: v for k, v in ref.cells.items() if lo <= k[0] <= hi and _span_member(sel, k[0])})
    judged = [n for n in exported if not exp[n].is_empty()]
    optional = [n for n in exported if exp[n].is_empty()]
    got_names = list(back.keys())
    col.check(len(set(got_names)) == len(got_names), "csv:names_duplicated", lambda: f"{got_names}")
    missing = [n for n in judged if n not in back]
    extra = [n for n in got_names if n not in exported and n not in [e[0] for e in empties]]
    for name, nv_, desc_ in empties:
        x = back[name] if name in back else None
        ok = isinstance(x, ir.Series) and x.start is None and x.num_variants == nv_
        col.check(ok, "csv:observation_free_series_lost" + tag,
                  lambda: f"series {name!r} ({nv_} variants, no observations) came back as {x!r}; names read back {got_names}")
    col.check(not missing, "csv:names_missing" + tag, lambda: f"exported {exported}, read back {got_names}: missing {missing}")
    col.check(not extra, "csv:names_unexpected" + tag, lambda: f"expected {exported}, read back {got_names}: unexpected {extra}")
    for n in judged:
        if n in back:
            msg = _cmp_rounded(back[n], exp[n], rnd, descs[n] if opts["description_row"] else "")
            what = "description" if msg.startswith("description") else "span" if msg.startswith("span") else "values"
            col.check(not msg, f"csv:{what}{tag}", lambda: f"series {n!r}: {msg}")
    for n in optional:
        if n in back:
            x = back[n]
            ok = isinstance(x, ir.Series) and (x.start is None or not rs.read(x, exp[n].f).cells)
            col.check(ok, "csv:unobserved_series_has_values", lambda: f"series {n!r} has no observation in the exported span but came back as {x!r}")
    col.done()
    return {"labels": ["series_without_observation_in_span"] if optional else []}


# ---------------------------------------------------------------------------
# 2. Dataslate round trip
# ---------------------------------------------------------------------------

_SCALARS = st.one_of(st.integers(-5, 5), st.integers(-40, 40).map(lambda k: k / 8.0), _FLOATS)
_FB_VALUE = st.one_of(_SCALARS, _SCALARS, st.lists(_SCALARS, min_size=1, max_size=3))


@st.composite
def _slate_case(draw):
    f = draw(st.sampled_from(refcal.ALL))
    anchor = draw(_anchor(f))
    pool = ["a", "b", "c", "d", "e", "k", "w"]
    n_items = draw(st.sampled_from([3, 1, 2, 3, 4, 5]))
    names = draw(st.lists(st.sampled_from(pool), min_size=n_items, max_size=n_items, unique=True))
    items = []
    for name in names:
        kind = draw(st.sampled_from(["series", "series", "series", "scalar", "list"]))
        if kind == "series":
            items.append({"name": name, "kind": "series",
                          "series": draw(_series_near(f, anchor, max_len=12, spread=8, allow_empty=True))})
        elif kind == "scalar":
            items.append({"name": name, "kind": "scalar", "value": draw(_SCALARS)})
        else:
            items.append({"name": name, "kind": "list", "value": draw(st.lists(_SCALARS, min_size=1, max_size=3))})
    likely = names * 3 + pool
    req = draw(st.one_of(st.lists(st.sampled_from(likely), min_size=1, max_size=5, unique=True),
                         st.lists(st.sampled_from(likely), min_size=1, max_size=5, unique=True), st.none()))
    likely = (req or names) * 3 + pool
    lo = anchor + draw(st.integers(-10, 10))
    n = draw(st.sampled_from([5] + list(range(1, 15))))
    nv = draw(st.sampled_from([2, 1, 1, 3]))
    fb = draw(st.one_of(st.lists(st.tuples(st.sampled_from(likely), _FB_VALUE), min_size=1, max_size=3, unique_by=lambda t: t[0]), st.just([])))
    ow = draw(st.one_of(st.lists(st.tuples(st.sampled_from(likely), _FB_VALUE), min_size=1, max_size=2, unique_by=lambda t: t[0]),
                        st.just([]), st.just([])))
    base = None
    clip_base = False
    to_span = "full"
    if draw(st.integers(0, 3)) == 0:
        b0 = draw(st.integers(0, n - 1))
        base = [b0, draw(st.integers(b0, n - 1))]
        to_span = draw(st.sampled_from(["full", "base"]))
        if draw(st.booleans()):
            # input data are clipped to the base columns first; declared fallbacks and overwrites then fill the whole span
            clip_base = True
            if draw(st.booleans()):
                fb, ow = [], []
    descriptions = None
    if req is not None and draw(st.integers(0, 2)) == 0:
        descriptions = [draw(st.sampled_from(["", "d1", "some, text", None])) for _ in req]
    return {"f": f, "items": items, "names": req, "lo": lo, "n": n, "num_variants": nv,
            "fallbacks": [list(t) for t in fb], "overwrites": [list(t) for t in ow],
            "trim": draw(st.sampled_from([True, True, False])), "as_dict": draw(st.booleans()),
            "periods_as": draw(st.sampled_from(["span", "tuple"])), "base": base, "clip_base": clip_base,
            "to_span": to_span, "descriptions": descriptions,
            # output_names: only these rows are written back by to_databox (None: all)
            "output_names": draw(st.one_of(st.none(), st.none(), st.lists(st.sampled_from(likely), min_size=1, max_size=4, unique=True)))}


def _slate_names(case):
    return list(case["names"]) if case["names"] is not None else [it["name"] for it in case["items"]]


def _classify_slate(case):
    names = _slate_names(case)
    lo, hi = case["lo"], case["lo"] + case["n"] - 1
    labels = [f"freq_{refcal.LETTER[case['f']]}", f"nv_{case['num_variants']}", "trim" if case["trim"] else "no_trim",
              "names_none" if case["names"] is None else "names_list"]
    nontrivial = False
    items = {it["name"]: it for it in case["items"]}
    for n in names:
        it = items.get(n)
        if it is None:
            labels.append("absent_name_requested")
            continue
        if it["kind"] == "series":
            pos = rs.ref_from_desc(it["series"]).positions()
            if any(lo <= i <= hi for i in pos) and any(not (lo <= i <= hi) for i in pos):
                nontrivial = True
                labels.append("series_straddles_span")
            if it["series"]["nv"] >= 2:
                labels.append("multivariant_series")
    if any(k in names for k, _ in case["fallbacks"]):
        labels.append("fallback_declared")
        nontrivial = True
    if any(k in names for k, _ in case["overwrites"]):
        labels.append("overwrite_declared")
        nontrivial = True
    if case["base"] is not None:
        labels.append("base_columns" + ("_clip" if case["clip_base"] else "") + f"_{case['to_span']}")
    if case.get("output_names") is not None:
        keep = [k for k in names if k in case["output_names"]]
        labels.append("output_names_leading_block" if keep == names[:len(keep)] else "output_names_scattered")
    return nontrivial, sorted(set(labels))


def _variant_value(value, v):
    if isinstance(value, list):
        return float(value[min(v, len(value) - 1)])
    return float(value)


def _check_slate(case):
    ir = _ir()
    from irispie.dataslates.main import Dataslate
    col = Collector()
    f = case["f"]
    lo, n = case["lo"], case["n"]
    hi = lo + n - 1
    nv = case["num_variants"]
    items = {it["name"]: it for it in case["items"]}
    refs = {}
    db = ir.Databox()
    for it in case["items"]:
        if it["kind"] == "series":
            refs[it["name"]] = rs.ref_from_desc(it["series"])
            db[it["name"]] = rs.build(refs[it["name"]], description="input " + it["name"])
        else:
            db[it["name"]] = copy.deepcopy(it["value"])
    before = {k: _snap(db[k]) for k in db.keys()}
    names = _slate_names(case)
    fallbacks = {k: copy.deepcopy(v) for k, v in case["fallbacks"]}
    overwrites = {k: copy.deepcopy(v) for k, v in case["overwrites"]}
    span = ir.Span(rs.period_at(f, lo), rs.period_at(f, hi))
    periods = span if case["periods_as"] == "span" else tuple(span)
    kw = {}
    if nv != 1 or case["as_dict"]:
        kw["num_variants"] = nv
    if fallbacks:
        kw["fallbacks"] = fallbacks
    if overwrites:
        kw["overwrites"] = overwrites
    if case["base"] is not None:
        kw["base_columns"] = tuple(range(case["base"][0], case["base"][1] + 1))
        if case["clip_base"]:
            kw["clip_data_to_base_span"] = True
    if case["descriptions"] is not None:
        kw["descriptions"] = list(case["descriptions"])
    out_names = list(names)
    if case.get("output_names") is not None:
        kw["output_names"] = list(case["output_names"])
        out_names = [k for k in names if k in case["output_names"]]
    source = dict(db) if case["as_dict"] else db
    ds = api("slate:from_databox", Dataslate.from_databox, source, None if case["names"] is None else list(names), periods, **kw)
    tkw = {}
    if not case["trim"]:
        tkw["trim"] = False
    if case["to_span"] == "base":
        tkw["span"] = "base"
    out = api("slate:to_databox", ds.to_databox, **tkw)
    for k in db.keys():
        col.check(_snap(db[k]) == before[k], "slate:input_modified", lambda: f"input item {k!r} changed")
    col.check(sorted(out.keys()) == sorted(out_names), "slate:names",
              lambda: f"names {list(out.keys())}, requested {names}, output_names {case.get('output_names')}")

    # expected values
    out_lo, out_hi = lo, hi
    if case["to_span"] == "base":
        out_lo, out_hi = lo + case["base"][0], lo + case["base"][1]
    for pos, name in enumerate(names):
        if name not in out:
            continue
        exp = rs.Ref(f, nv)
        it = items.get(name)
        for v in range(nv):
            for t in range(lo, hi + 1):
                if it is None:
                    x = NAN
                elif it["kind"] == "series":
                    x = refs[name].get(t, min(v, refs[name].nv - 1))
                else:
                    x = _variant_value(it["value"], v)
                if case["clip_base"] and not (case["base"][0] <= t - lo <= case["base"][1]):
                    x = NAN
                if name in fallbacks and math.isnan(x):
                    x = _variant_value(fallbacks[name], v)
                if name in overwrites:
                    x = _variant_value(overwrites[name], v)
                if out_lo <= t <= out_hi:
                    exp.set(t, v, x)
        x = out[name]
        if not isinstance(x, ir.Series):
            col.fail("slate:item_type", f"{name!r} is {type(x).__name__}")
            continue
        msg = rs.compare(x, exp, 0.0, 0.0, check_span=True, trimmed=case["trim"])
        if not msg and not case["trim"]:
            if x.start is None:
                msg = "trim=False returned a series without start"
            else:
                got_span = (rs.idx_of(x.start, f), rs.idx_of(x.end, f))
                if got_span != (out_lo, out_hi):
                    msg = f"trim=False span {x.start!r}..{x.end!r} is not the requested span"
        what = "fallbacks_overwrites" if (name in fallbacks or name in overwrites) else "values"
        col.check(not msg, f"slate:{what}", lambda: f"{name!r}: {msg}")
        expd = ""
        if case["descriptions"] is not None:
            expd = case["descriptions"][pos] or ""
        if exp.is_empty() and case["trim"]:
            continue        # an all-missing result is the reset (empty) series; its description is not judged
        col.check(x.get_description() == expd, "slate:description", lambda: f"{name!r}: description {x.get_description()!r}, expected {expd!r}")
    col.done()
    return None


# ---------------------------------------------------------------------------
# 3. Databox operation machine
# ---------------------------------------------------------------------------

_KIND_F = {"y": 1, "h": 2, "q": 4, "m": 12, "d": 365, "i": 0}
_POOL = {1: ["y1", "y2"], 2: ["h1", "h2"], 4: ["q1", "q2", "q3"], 12: ["m1", "m2"], 365: ["d1", "d2"], 0: ["i1", "i2"]}
_PLAIN = ["s1", "s2", "l1", "l2"]
_FUNCS = [["prefix", "x_"], ["prefix", "zz"], ["suffix", "_x"], ["suffix", "_2"], ["upper"], ["identity"]]
_STRATEGIES = ["stack", "stack", "replace", "discard", "silent", "warning", "error", "critical", "default"]
_DONTCARE = "\x00dontcare"


class _MS:
    """Model series: cells {(index, variant): value}, declared span (lo, hi) or None (no rows)."""
    __slots__ = ("f", "nv", "cells", "decl", "desc", "real")

    def __init__(self, f, nv, cells, decl, desc):
        self.f, self.nv, self.cells, self.decl, self.desc, self.real = f, nv, dict(cells), decl, desc, None

    def clone(self):
        return _MS(self.f, self.nv, self.cells, self.decl, self.desc)

    def state(self):
        return (dict(self.cells), self.decl, self.nv)

    def set_state(self, st_):
        self.cells, self.decl, self.nv = dict(st_[0]), st_[1], st_[2]


class _MV:
    """Model plain value (scalar, string, None or list)."""
    __slots__ = ("v", "real")

    def __init__(self, v):
        self.v, self.real = copy.deepcopy(v), None

    def clone(self):
        return _MV(self.v)


def _immutable(r):
    return r is None or isinstance(r, (bool, int, float, str))


def _trim_span(cells):
    pos = [i for (i, _) in cells]
    return (min(pos), max(pos)) if pos else None


def _bcast(cells, nv_from, nv_to):
    if nv_from == nv_to:
        return dict(cells)
    return {(i, v): x for (i, _), x in cells.items() for v in range(nv_to)}


def _lay_result(kind, a_state, b_state, mode):
    """Series.overlay / Series.underlay docstring algorithm on model states (cells, decl, nv)."""
    nv = max(a_state[2], b_state[2])
    A = _bcast(a_state[0], a_state[2], nv)
    B = _bcast(b_state[0], b_state[2], nv)
    if kind == "overlay":
        base, top, top_state = A, B, b_state
    else:
        base, top, top_state = B, A, a_state
    span = top_state[1] if mode == "declared" else _trim_span(top_state[0])
    res = dict(base)
    if span is not None:
        for i in range(span[0], span[1] + 1):
            for v in range(nv):
                x = top.get((i, v))
                if x is None:
                    res.pop((i, v), None)
                else:
                    res[(i, v)] = x
    return (res, _trim_span(res), nv)


def _lay_candidates(kind, a_state, b_state):
    cands = [_lay_result(kind, a_state, b_state, "declared")]
    alt = _lay_result(kind, a_state, b_state, "observed")
    if alt != cands[0]:
        cands.append(alt)
    if not a_state[0] or not b_state[0]:
        same = (dict(a_state[0]), a_state[1], a_state[2])
        if same not in cands:
            cands.append(same)
    return cands


def _read_state(x, f):
    """(cells, span, nv) of a real series; span None when it has no rows."""
    if x.start is None or x.data.shape[0] == 0:
        return {}, None, x.num_variants
    return rs.read(x, f).cells, (rs.idx_of(x.start, f), rs.idx_of(x.end, f)), x.num_variants


def _state_matches(real_state, cand):
    cells, span, nv = real_state
    if nv != cand[2] or cells != cand[0]:
        return False
    if cand[1] is None:
        return True
    return span == cand[1]


def _cells_diff(got, exp, f):
    for key in sorted(set(got) | set(exp)):
        a, b = got.get(key, NAN), exp.get(key, NAN)
        if not (a == b or (math.isnan(a) and math.isnan(b))):
            return f"cell {pgen.describe(pgen.from_index(f, key[0]))} variant {key[1]}: got {a!r}, expected {b!r}"
    return ""


def _fmt_span(f, sp):
    if sp is None:
        return "none"
    return f"{pgen.describe(pgen.from_index(f, sp[0]))}..{pgen.describe(pgen.from_index(f, sp[1]))}"


def _cmp_item(m, r):
    ir = _ir()
    if isinstance(m, _MS):
        if not isinstance(r, ir.Series):
            return f"is {type(r).__name__}, expected a Series"
        if r.start is not None and r.frequency != pgen.freq_enum(m.f):
            return f"frequency {r.frequency!r}, expected {pgen.freq_enum(m.f)!r}"
        cells, span, nv = _read_state(r, m.f)
        if nv != m.nv:
            return f"number of variants {nv}, expected {m.nv}"
        d = _cells_diff(cells, m.cells, m.f)
        if d:
            return d
        if m.decl is not None and span != m.decl:
            return f"span {_fmt_span(m.f, span)}, expected {_fmt_span(m.f, m.decl)}"
        if m.desc != _DONTCARE and r.get_description() != m.desc:
            return f"description {r.get_description()!r}, expected {m.desc!r}"
        return ""
    if type(r) is not type(m.v) or r != m.v:
        return f"value {r!r}, expected {m.v!r}"
    return ""


@st.composite
def _machine_case(draw):
    nf = draw(st.sampled_from([2, 1, 2, 3]))
    freqs = draw(st.lists(st.sampled_from(refcal.ALL), min_size=nf, max_size=nf, unique=True))
    anchors = {f: draw(_anchor(f)) for f in freqs}
    series_pool = [n for f in freqs for n in _POOL[f]]
    pool = series_pool + draw(st.sampled_from([["s1", "l1"], ["s1", "s2", "l1"], ["s1"], _PLAIN]))
    kmax = {n: draw(st.sampled_from([2, 1, 3])) for n in series_pool}
    derived = []
    for n in pool:
        derived += ["x_" + n, n + "_x", n.upper()]
    universe = pool * 6 + derived + ["nope"]
    lay_universe = series_pool * 6 + ["nope", "s1"]

    def item(name):
        if name[0] == "s":
            return {"name": name, "kind": "value", "value": draw(st.sampled_from([1, 2, 2.5, -0.125, "txt", None]))}
        if name[0] == "l":
            return {"name": name, "kind": "value", "value": draw(st.lists(st.sampled_from([1, 2, 0.5, "u"]), max_size=3))}
        f = _KIND_F[name[0]]
        nv = draw(st.sampled_from([kmax[name], 1, kmax[name]]))
        return {"name": name, "kind": "series", "desc": draw(st.sampled_from(["", "", name + " descr", "a, \"b\""])),
                "series": draw(_series_near(f, anchors[f], nv=nv, max_len=9, spread=6, gaps=True))}

    def same_kind_name(n):
        return [m for m in pool if m[0] == n[0]]

    @st.composite
    def op(draw):
        kind = draw(st.sampled_from(["overlay", "underlay", "overlay", "underlay", "clip", "clip", "clip", "prepend", "copy", "copy",
                                     "shallow", "shallow", "rename", "rename", "keep", "remove", "merge", "merge"]))
        t = draw(st.integers(0, 1))
        strict = draw(st.sampled_from([False, False, False, True]))
        if kind in ("overlay", "underlay"):
            names = draw(st.one_of(st.lists(st.sampled_from(lay_universe), min_size=1, max_size=4, unique=True), st.none(),
                                   st.lists(st.sampled_from(lay_universe), min_size=0, max_size=2, unique=True)))
            return {"op": kind, "t": t, "names": names, "strict": strict, "tuple": draw(st.booleans())}
        if kind == "clip":
            f = draw(st.sampled_from(freqs * 4 + list(refcal.ALL)))
            a = anchors.get(f, 0 if f == 0 else pgen.ref_index({"f": f, "y": 2000, "s": 1} if f != 365 else {"f": 365, "o": 730120}))
            lo = draw(st.one_of(st.integers(-8, 6), st.integers(-8, 6), st.none()))
            hi = draw(st.one_of(st.integers(-3, 14), st.integers(-3, 14), st.none()))
            if lo is not None and hi is not None and lo > hi and draw(st.integers(0, 9)) > 0:
                lo, hi = hi, lo
            return {"op": "clip", "t": t, "f": f, "lo": None if lo is None else a + lo, "hi": None if hi is None else a + hi}
        if kind == "prepend":
            f = draw(st.sampled_from(freqs * 4 + list(refcal.ALL)))
            a = anchors.get(f, 0 if f == 0 else pgen.ref_index({"f": f, "y": 2000, "s": 1} if f != 365 else {"f": 365, "o": 730120}))
            return {"op": "prepend", "t": t, "f": f, "end": a + draw(st.integers(-9, 12))}
        if kind in ("copy", "shallow", "rename"):
            src = draw(_source_sel(universe))
            if src is not None and src[0] in ("list", "tuple"):
                how = draw(st.sampled_from(["none", "func", "list_func", "list_perm", "list_perm", "list_pool"] if kind != "rename"
                                           else ["none", "func", "list_func", "list_func", "list_pool"]))
                if how == "none":
                    tgt = None
                elif how == "func":
                    tgt = ["func", draw(st.sampled_from(_FUNCS))]
                elif how == "list_func":
                    fn = _mk_func(draw(st.sampled_from(_FUNCS)))
                    tgt = ["list", [fn(n) for n in src[1]]]
                elif how == "list_perm":
                    tgt = ["list", draw(st.one_of(st.just(src[1][1:] + src[1][:1]), st.permutations(src[1])))]
                else:
                    tgt = ["list", [draw(st.sampled_from(same_kind_name(n))) if n[0] in "yhqmdisl" and n in pool else n + "_n" for n in src[1]]]
            elif src is not None and src[0] == "str":
                tgt = draw(st.one_of(st.none(), st.just(["func", ["suffix", "_x"]]),
                                     st.tuples(st.just("str"), st.sampled_from([src[1] + "_s", "x_" + src[1]] + (same_kind_name(src[1]) if src[1] in pool else []))).map(list)))
            else:
                tgt = draw(st.one_of(st.none(), st.tuples(st.just("func"), st.sampled_from(_FUNCS)).map(list)))
            return {"op": kind, "t": t, "src": src, "tgt": tgt, "strict": strict}
        if kind in ("keep", "remove"):
            return {"op": kind, "t": t, "sel": draw(_source_sel(universe)), "strict": strict}
        return {"op": "merge", "t": t, "strategy": draw(st.sampled_from(_STRATEGIES)),
                "arg": draw(st.sampled_from(["box", "box", "list", "twice"]))}

    nops = draw(st.sampled_from([4, 1, 2, 3, 5, 6, 7, 8, 8]))
    ops = draw(st.lists(op(), min_size=nops, max_size=nops))
    boxes = []
    for _ in range(2):
        k = draw(st.sampled_from(list(range(max(2, len(pool) - 3), len(pool) + 1)) + list(range(min(2, len(pool)), len(pool) + 1))))
        names = draw(st.lists(st.sampled_from(pool), min_size=k, max_size=k, unique=True))
        boxes.append([item(n) for n in names])
    return {"boxes": boxes, "ops": ops}


def _classify_machine(case):
    labels = sorted({f"op_{o['op']}" for o in case["ops"]})
    fs = {it["series"]["f"] for b in case["boxes"] for it in b if it["kind"] == "series"}
    labels.append(f"nfreq_{len(fs)}")
    if any(it["kind"] == "series" and it["series"]["nv"] >= 2 for b in case["boxes"] for it in b):
        labels.append("multivariant")
    labels.append(f"nops_{len(case['ops'])}")
    return True, labels


class _Machine:
    def __init__(self, case, col):
        self.ir = _ir()
        self.col = col
        self.labels = []
        self.strict_subset = False
        self.M = [{}, {}]
        self.R = [self.ir.Databox(), self.ir.Databox()]
        for bi, items in enumerate(case["boxes"]):
            for it in items:
                if it["kind"] == "series":
                    ref = rs.ref_from_desc(it["series"])
                    m = _MS(ref.f, ref.nv, ref.cells, ref.span(), it["desc"])
                    r = rs.build(ref, description=it["desc"])
                else:
                    m = _MV(it["value"])
                    r = copy.deepcopy(it["value"])
                m.real = r
                self.M[bi][it["name"]] = m
                self.R[bi][it["name"]] = r

    # -- bookkeeping ---------------------------------------------------------

    def label(self, lb):
        self.labels.append(lb)

    def note_selection(self, matched, names):
        matched = set(matched) & set(names)
        if matched and len(matched) < len(set(names)):
            self.strict_subset = True

    def snapshot(self):
        out = {}
        for bi in (0, 1):
            for n, m in self.M[bi].items():
                out[id(m)] = (m, _snap(self.R[bi][n]) if n in self.R[bi] else None)
        return out

    def compare_all(self, where, snap_before=None, mutated=()):
        col = self.col
        seen = {}
        for bi in (0, 1):
            M, R = self.M[bi], self.R[bi]
            keys_ = list(R.keys())
            if not col.check(all(isinstance(k_, str) for k_ in keys_), f"machine:{where[0]}:names",
                             lambda: f"{where[1]}: box {bi} has keys that are not strings: {keys_!r}"):
                continue
            got, exp = sorted(keys_), sorted(M.keys())
            if not col.check(got == exp, f"machine:{where[0]}:names", lambda: f"{where[1]}: box {bi} names {got}, expected {exp}"):
                continue
            for n in exp:
                m, r = M[n], R[n]
                if not _immutable(r):
                    if m.real is None:
                        m.real = r
                    elif not col.check(r is m.real, f"machine:{where[0]}:identity",
                                       lambda: f"{where[1]}: box {bi} item {n!r} is not the object expected there"):
                        continue
                    other = seen.setdefault(id(r), m)
                    col.check(other is m, f"machine:{where[0]}:unexpected_alias",
                              lambda: f"{where[1]}: box {bi} item {n!r} is the same object as another item that should be independent")
                msg = _cmp_item(m, r)
                side = "target" if bi == where[2] else "other"
                col.check(not msg, f"machine:{where[0]}:{side}_box_item", lambda: f"{where[1]}: box {bi} item {n!r}: {msg}")
                if snap_before is not None and id(m) in snap_before and id(m) not in mutated and not msg:
                    s0 = snap_before[id(m)][1]
                    if s0 is not None:
                        col.check(_snap(r) == s0, f"machine:{where[0]}:untouched_item_changed",
                                  lambda: f"{where[1]}: box {bi} item {n!r} should be untouched but its stored form changed")

    # -- operations ----------------------------------------------------------

    def run(self, k, op):
        name = op["op"]
        t = op.get("t", 0)
        where = (name, f"step {k} {op}", 1 - t if name in ("copy", "shallow") else t)   # [2]: the box the step writes to
        snap = self.snapshot()
        mutated = getattr(self, "do_" + name)(op, where)
        if mutated is None:
            return
        self.compare_all(where, snap, mutated)

    def _skip(self, why):
        self.label("skipped_" + why)
        return None

    def _must_raise(self, where, what, fn):
        try:
            fn()
        except Exception:  # noqa: BLE001 - documented outcome
            self.label(f"{where[0]}_{what}_raised")
            return set()
        self.col.fail(f"machine:{where[0]}:{what}_not_raised", f"{where[1]}: no exception")
        return set()

    # overlay / underlay
    def _lay_selection(self, A, B, names):
        if names is None:
            return [n for n in A if isinstance(A[n], _MS) and n in B and isinstance(B[n], _MS)], []
        listed = []
        for n in names:
            if n not in listed:
                listed.append(n)
        missing = [n for n in listed if n not in A or n not in B]
        return [n for n in listed if n in A and n in B], missing

    def _lay_admissible(self, A, B, sel):
        for n in sel:
            a, b = A[n], B[n]
            if not isinstance(a, _MS) or not isinstance(b, _MS):
                return "lay_nonseries_name"
            if a.f != b.f:
                return "lay_frequency_mismatch"
            if a.nv != b.nv and a.nv != 1 and b.nv != 1:
                return "lay_variants_incompatible"
        mine = {id(A[n]): n for n in sel}
        for n in sel:
            if B[n] is not A[n] and id(B[n]) in mine:
                return "lay_cross_alias"
        return ""

    def _apply_lay(self, kind, A, RA, sel, bstates, where):
        """Mutate model items of A by the lay semantics, resolving documented ambiguities on the real result."""
        mutated = set()
        for n in sel:
            a = A[n]
            cands = _lay_candidates(kind, a.state(), bstates[n])
            r = RA.get(n)
            chosen = 0
            if isinstance(r, self.ir.Series) and (r.start is None or r.frequency == pgen.freq_enum(a.f)):
                rstate = _read_state(r, a.f)
                for ci, c in enumerate(cands):
                    if _state_matches(rstate, c):
                        chosen = ci
                        break
            if chosen:
                self.label("lay_ambiguity_resolved")
            a.set_state(cands[chosen])
            if not a.cells:
                a.desc = _DONTCARE       # trim() of an all-missing series resets it, description included: not judged
            mutated.add(id(a))
        return mutated

    def _do_lay(self, op, where):
        kind, t = op["op"], op["t"]
        A, B = self.M[t], self.M[1 - t]
        RA, RB = self.R[t], self.R[1 - t]
        sel, missing = self._lay_selection(A, B, op["names"])
        kw = {}
        if op["names"] is not None:
            kw["names"] = tuple(op["names"]) if op["tuple"] else list(op["names"])
        if op["strict"]:
            kw["strict_names"] = True
        why = self._lay_admissible(A, B, sel)
        if why:
            return self._skip(why)
        if op["strict"] and missing:
            ca, cb = RA.copy(), RB.copy()
            return self._must_raise(where, "strict_missing", lambda: getattr(ca, kind)(cb, **kw))
        if op["names"] is not None:
            self.note_selection(sel, A.keys())
        bstates = {n: B[n].state() for n in sel}
        out = api(f"machine:{kind}", getattr(RA, kind), RB, **kw)
        self.col.check(out is None, f"machine:{kind}:returns_none", lambda: f"{where[1]}: returned {out!r}")
        self.label(f"{kind}_names_{'none' if op['names'] is None else 'list'}_hits_{min(len(sel), 3)}")
        return self._apply_lay(kind, A, RA, sel, bstates, where)

    do_overlay = _do_lay
    do_underlay = _do_lay

    # clip
    @staticmethod
    def _clip_state(state, lo, hi):
        cells, decl, nv = state
        if decl is None:
            return state
        s, e = decl
        ns = s if lo is None or lo < s else lo
        ne = e if hi is None or hi > e else hi
        if (ns, ne) == (s, e):
            return state
        if ns > ne:
            return ({}, None, nv)
        return ({k: v for k, v in cells.items() if ns <= k[0] <= ne}, (ns, ne), nv)

    def do_clip(self, op, where):
        t, f, lo, hi = op["t"], op["f"], op["lo"], op["hi"]
        if lo is not None and hi is not None and lo > hi:
            return self._skip("clip_start_after_end")
        A, RA = self.M[t], self.R[t]
        p_lo = None if lo is None else rs.period_at(f, lo)
        p_hi = None if hi is None else rs.period_at(f, hi)
        out = api("machine:clip", RA.clip, p_lo, p_hi)
        self.col.check(out is None, "machine:clip:returns_none", lambda: f"{where[1]}: returned {out!r}")
        mutated = set()
        if lo is None and hi is None:
            self.label("clip_none_none")
            return mutated
        hit = []
        for n, m in A.items():
            if isinstance(m, _MS) and m.f == f and id(m) not in mutated:
                new = self._clip_state(m.state(), lo, hi)
                if new != m.state():
                    hit.append(n)
                    if new[1] is None:
                        self.label("clip_left_no_rows")
                    elif _trim_span(new[0]) != new[1]:
                        self.label("clip_left_untrimmed")
                m.set_state(new)
                mutated.add(id(m))
        self.label("clip_changed_some" if hit else "clip_changed_none")
        if hit and len(hit) < len(A):
            self.strict_subset = True
        return mutated

    # prepend
    def do_prepend(self, op, where):
        t, f, end = op["t"], op["f"], op["end"]
        A, B = self.M[t], self.M[1 - t]
        RA, RB = self.R[t], self.R[1 - t]
        sel, _ = self._lay_selection(A, B, None)
        why = self._lay_admissible(A, B, sel)
        if why:
            return self._skip(why.replace("lay_", "prepend_"))
        bstates = {}
        for n in sel:
            stt = B[n].state()
            if B[n].f == f:
                stt = self._clip_state(stt, None, end)
            bstates[n] = stt
        out = api("machine:prepend", RA.prepend, RB, rs.period_at(f, end))
        self.col.check(out is None, "machine:prepend:returns_none", lambda: f"{where[1]}: returned {out!r}")
        self.label(f"prepend_{min(len(sel), 3)}")
        return self._apply_lay("underlay", A, RA, sel, bstates, where)

    # copy / shallow / rename
    def _pairs(self, op, A):
        pairs = _resolve_pairs(op["src"], op["tgt"], list(A.keys()))
        if pairs is None:
            return None, None, "names_length_mismatch"
        srcs = [s for s, _ in pairs]
        if len(set(srcs)) != len(srcs):
            return None, None, "duplicate_sources"
        missing = [s for s in srcs if s not in A]
        pairs = [(s, t_) for s, t_ in pairs if s in A]
        tg = [t_ for _, t_ in pairs]
        if len(set(tg)) != len(tg):
            return None, None, "duplicate_targets"
        return pairs, missing, ""

    def _name_kwargs(self, op):
        kw = {}
        if op["src"] is not None:
            kw["source_names"] = _sel_arg(op["src"])
        if op["tgt"] is not None:
            kw["target_names"] = _tgt_arg(op["tgt"])
        if op["strict"]:
            kw["strict_names"] = True
        return kw

    def _do_copy(self, op, where):
        kind, t = op["op"], op["t"]
        A, RA = self.M[t], self.R[t]
        pairs, missing, why = self._pairs(op, A)
        if why:
            return self._skip(f"{kind}_{why}")
        kw = self._name_kwargs(op)
        if op["strict"] and missing:
            return self._must_raise(where, "strict_missing", lambda: getattr(RA, kind)(**kw))
        if op["src"] is not None:
            self.note_selection([s for s, _ in pairs], A.keys())
        new_r = api(f"machine:{kind}", getattr(RA, kind), **kw)
        if not self.col.check(isinstance(new_r, self.ir.Databox) and new_r is not RA, f"machine:{kind}:result_type",
                              lambda: f"{where[1]}: returned {type(new_r).__name__}"):
            return None
        if any(s != t_ and t_ in A for s, t_ in pairs):
            self.label(f"{kind}_target_is_existing_name")
        self.label(f"{kind}_{'all' if len(pairs) == len(A) else 'subset' if pairs else 'nothing'}")
        new_m = {}
        for s, t_ in pairs:
            if kind == "copy":
                new_m[t_] = A[s].clone()
                if t_ in new_r:
                    r_new, r_old = new_r[t_], RA[s]
                    shared = r_new is r_old and not _immutable(r_old)
                    if isinstance(r_new, self.ir.Series) and isinstance(r_old, self.ir.Series):
                        import numpy as np
                        shared = shared or np.shares_memory(r_new.data, r_old.data)
                    self.col.check(not shared, "machine:copy:shares_storage",
                                   lambda: f"{where[1]}: copied item {t_!r} shares storage with the original {s!r}")
            else:
                new_m[t_] = A[s]
        self.M[1 - t] = new_m
        self.R[1 - t] = new_r
        return set()

    do_copy = _do_copy
    do_shallow = _do_copy

    def do_rename(self, op, where):
        t = op["t"]
        A, RA = self.M[t], self.R[t]
        pairs, missing, why = self._pairs(op, A)
        if why:
            return self._skip(f"rename_{why}")
        if any(s != t_ and t_ in A for s, t_ in pairs):
            return self._skip("rename_onto_existing_name")
        kw = self._name_kwargs(op)
        if op["strict"] and missing:
            tmp = RA.shallow()
            return self._must_raise(where, "strict_missing", lambda: tmp.rename(**kw))
        if op["src"] is not None:
            self.note_selection([s for s, _ in pairs], A.keys())
        out = api("machine:rename", RA.rename, **kw)
        self.col.check(out is None, "machine:rename:returns_none", lambda: f"{where[1]}: returned {out!r}")
        moved = {s: t_ for s, t_ in pairs}
        self.M[t] = {**{n: m for n, m in A.items() if n not in moved}, **{moved[s]: A[s] for s in moved}}
        self.label("rename_some" if any(s != t_ for s, t_ in pairs) else "rename_nothing")
        return set()

    def _do_keep_remove(self, op, where):
        kind, t = op["op"], op["t"]
        A, RA = self.M[t], self.R[t]
        listed = _sel_names(op["sel"], list(A.keys())) if op["sel"] is not None else None
        arg = _sel_arg(op["sel"])
        kw = {"strict_names": True} if op["strict"] else {}
        if listed is not None and len(set(listed)) != len(listed):
            return self._skip(f"{kind}_duplicate_names")
        if listed is not None and op["strict"] and any(n not in A for n in listed):
            tmp = RA.shallow()
            return self._must_raise(where, "strict_missing", lambda: getattr(tmp, kind)(arg, **kw))
        out = api(f"machine:{kind}", getattr(RA, kind), arg, **kw)
        if listed is None:
            self.label(f"{kind}_none")
            return set()
        self.col.check(out is None, f"machine:{kind}:returns_none", lambda: f"{where[1]}: returned {out!r}")
        hit = [n for n in listed if n in A]
        self.note_selection(hit, A.keys())
        if kind == "keep":
            self.M[t] = {n: m for n, m in A.items() if n in hit}
        else:
            self.M[t] = {n: m for n, m in A.items() if n not in hit}
        self.label(f"{kind}_{'all' if len(hit) == len(A) else 'subset' if hit else 'nothing'}")
        return set()

    do_keep = _do_keep_remove
    do_remove = _do_keep_remove

    # merge
    @staticmethod
    def _stack(a, b):
        if isinstance(a, _MS):
            cells = dict(a.cells)
            for (i, v), x in b.cells.items():
                cells[(i, v + a.nv)] = x
            return _MS(a.f, a.nv + b.nv, cells, _trim_span(cells), _DONTCARE)
        av = a.v if isinstance(a.v, list) else [a.v]
        bv = b.v if isinstance(b.v, list) else [b.v]
        return _MV(av + bv)

    def do_merge(self, op, where):
        t = op["t"]
        strategy = "stack" if op["strategy"] == "default" else op["strategy"]
        reps = 2 if op["arg"] == "twice" else 1
        # un-alias the two boxes first: the other box is replaced by its own deep copy
        RB_new = api("machine:merge:copy_other", self.R[1 - t].copy)
        self.M[1 - t] = {n: m.clone() for n, m in self.M[1 - t].items()}
        self.R[1 - t] = RB_new
        A, B = self.M[t], self.M[1 - t]
        RA = self.R[t]
        dups = [n for n in B if n in A]
        if strategy == "stack":
            for n in dups:
                a, b = A[n], B[n]
                if isinstance(a, _MS) != isinstance(b, _MS) or (isinstance(a, _MS) and a.f != b.f):
                    self.label("skipped_merge_stack_kind_mismatch")
                    return set()
        args = [api("machine:merge:copy_other", RB_new.copy) for _ in range(reps)]
        arg = args[0] if op["arg"] == "box" else args
        kw = {} if op["strategy"] == "default" else {"merge_strategy": strategy}
        will_conflict = bool(dups) or (reps == 2 and bool(B))
        if strategy in ("error", "critical") and will_conflict:
            tmp = RA.copy()
            self._must_raise(where, f"{strategy}_duplicate", lambda: tmp.merge(arg, **kw))
            return set()
        with warnings.catch_warnings(record=True) as caught:
            warnings.simplefilter("always")
            out = api(f"machine:merge:{strategy}", RA.merge, arg, **kw)
        self.col.check(out is None, "machine:merge:returns_none", lambda: f"{where[1]}: returned {out!r}")
        if strategy == "warning" and will_conflict:
            self.col.check(len(caught) >= 1, "machine:merge:warning_not_issued", lambda: f"{where[1]}: duplicate keys {dups}, no warning")
        new = dict(A)
        for _ in range(reps):
            for n, b in B.items():
                if n not in new:
                    new[n] = b.clone()
                elif strategy == "stack":
                    new[n] = self._stack(new[n], b)
                elif strategy == "replace":
                    new[n] = b.clone()
        for n, m in new.items():
            if n in B and (n not in A or strategy in ("stack", "replace")):
                m.real = None               # identity after merge is not judged: re-bound at the next comparison
        self.M[t] = new
        self.label(f"merge_{strategy}_{'dups' if will_conflict else 'nodups'}")
        return set()


def _check_machine(case):
    col = Collector()
    mach = _Machine(case, col)
    mach.compare_all(("init", "initial state", 0))
    col.done()
    for k, op in enumerate(case["ops"]):
        mach.run(k, op)
        if col.items:
            break
    col.done()
    labels = sorted(set(mach.labels))
    if mach.strict_subset:
        labels.append("strict_subset_selection")
    return {"labels": labels, "nontrivial": mach.strict_subset}


# ---------------------------------------------------------------------------

def _bucket_matcher(*needles):
    def match(subcheck, case, bucket, message):
        return any(nd in bucket for nd in needles)
    return match


def _has_overlapping_copy(case):
    """Some copy step names a target that is also one of its sources at another position."""
    for op in case.get("ops", []):
        if op["op"] == "copy" and op["src"] is not None and op["tgt"] is not None \
                and op["src"][0] in ("list", "tuple") and op["tgt"][0] == "list":
            src, tgt = op["src"][1], op["tgt"][1]
            if any(t_ in src and (i >= len(src) or src[i] != t_) for i, t_ in enumerate(tgt)):
                return True
    return False


FINDING_MATCHERS = {
    "csv_noncomma_delimiter": _bucket_matcher(":noncomma_delimiter"),
    "csv_frequency_option": _bucket_matcher(":frequency_option"),
    "lay_mutates_other": lambda sub, case, bucket, message: (
        sub == "machine" and bucket.endswith(":other_box_item") and "number of variants" in message),
    "copy_overlapping_targets": lambda sub, case, bucket, message: (
        sub == "machine" and bucket.startswith("machine:copy:") and _has_overlapping_copy(case)),
    "keep_strict": _bucket_matcher("machine:keep:strict_missing_not_raised"),
}


SUBCHECKS = [
    HypSub("csv_roundtrip", _csv_case, _check_csv, _classify_csv, budget={"quick": 2500, "thorough": 40000}),
    HypSub("slate_roundtrip", _slate_case, _check_slate, _classify_slate, budget={"quick": 2500, "thorough": 40000}),
    HypSub("machine", _machine_case, _check_machine, _classify_machine, budget={"quick": 3000, "thorough": 50000}),
]
