"""
C15 - Model-implied autocovariances solve the solved model's Lyapunov equation.

Oracle: the MA(infinity) representation built from impulse responses obtained
with simulate() (validated by C01 against the harness's own evaluator):
cov(x_t, x_{t-j}) = sum_h Phi_{h+j} Sigma Phi_h'.  No Lyapunov solver and no
solution matrix of irispie enters the reference.
"""

import math

import numpy as np
from hypothesis import strategies as st

from vlib import linmodels as lm, simdata as sd
from vlib.runner import HypSub, Collector, api

PROPERTY = "C15"

RULE = (
    "a determinate structural model (stable roots <= 0.85 so that 200 impulse-response periods sum to 1e-14; "
    "optionally one exact random-walk equation inserted) with measurement block, drawn shock stds (zeros included), "
    "order k in 0..4, 1-2 parameter variants and a rescaling factor. Non-trivial iff (k>=1 and the true lag-1 "
    "autocovariance is visibly non-symmetric) or the model has a unit root."
)

ASSUMPTIONS = [
    "reference = truncated MA(inf) sum of simulated impulse responses; first-order simulate() is judged separately by C01",
    "a variable is 'loaded on the unit root' iff its simulated response to the random-walk shock has not decayed after 200 periods (|response| > 1e-6)",
    "autocorrelations are compared only where both order-0 variances exceed 1e-12",
    "stable eigenvalue moduli <= 0.85 by construction",
]

H = 200
MARGIN = 0.15


@st.composite
def _case(draw):
    unit = draw(st.integers(0, 3)) == 0
    two = unit and draw(st.integers(0, 2)) == 0          # two random walks, possibly with a variable loading on both
    spec = draw(lm.spec_strategy(max_n=4 if two else 3, meas=(0, 2), allow_const=not unit))
    n = spec["n"]
    rw = None
    rws = []
    if unit:
        rws = draw(st.lists(st.integers(0, n - 1), min_size=2 if (two and n >= 2) else 1, max_size=2 if (two and n >= 2) else 1, unique=True))
        rw = rws[0]
        for r in rws:
            spec["eqs"][r] = {"terms": [[r, -1, 1.0]], "const": 0.0, "shock": 1.0}
        others = [i for i in range(n) if i not in rws]
        if len(rws) == 2 and draw(st.integers(0, 3)) > 0:
            # a spread and a sum of the two random walks: loadings on the two unit roots that cancel in sum for one of
            # them, whatever the signs of the basis the solver picks (both are non-stationary)
            c = draw(st.sampled_from([1.0, 0.5, 2.0]))
            for k, sign in zip(others, draw(st.permutations([-1.0, 1.0]))):
                spec["eqs"][k] = {"terms": [[rws[0], 0, c], [rws[1], 0, sign * c]] + ([[k, -1, 0.5]] if draw(st.booleans()) else []),
                                  "const": 0.0, "shock": 1.0}
            for e, sign in zip(spec["meas"], draw(st.permutations([1.0, -1.0]))):
                if draw(st.booleans()):
                    e["terms"] = [[rws[0], 0, c], [rws[1], 0, sign * c]]
        for e in spec["eqs"]:
            for t in e["terms"]:
                if len(t) > 3:
                    del t[3:]
        spec["params"] = []
    nv = 1
    if spec["params"] and draw(st.booleans()):
        nv = 2
        for p in spec["params"]:
            p["value"] = [p["value"], round(p["value"] * draw(st.sampled_from([0.5, 0.8, -1.0])), 6)]
    std = st.sampled_from([0.0, 1.0, 0.5, 2.0, 1.3, 0.1, 3.0])
    return {"spec": spec, "rw": rw, "rws": rws, "nv": nv,
            "std_u": [draw(std) for _ in range(n)], "std_w": [draw(std) for _ in spec["meas"]],
            "std_u2": [draw(std) for _ in range(n)], "std_w2": [draw(std) for _ in spec["meas"]],
            "order": draw(st.integers(0, 4)), "scale": draw(st.sampled_from([2.0, 0.5, 3.0, 1.7]))}


def _classify(case):
    spec = case["spec"]
    labels = [f"order_{case['order']}", ("two_unit_roots" if len(_rws(case)) == 2 else "unit_root") if case["rw"] is not None else "stationary",
              "log_rendering" if spec["log"] else "additive_rendering", f"variants_{case['nv']}"]
    if spec["meas"]:
        labels.append("measurement_block")
    if any(s == 0 for s in case["std_u"]):
        labels.append("zero_std")
    return True, labels


def _rws(case):
    return case.get("rws") or ([case["rw"]] if case["rw"] is not None else [])


def _classify_model(spec, rw, variant, n_unit=None):
    ev = lm.eigenvalues(spec, variant)
    mags = sorted(abs(x) for x in ev)
    units = [m for m in mags if abs(m - 1) < 1e-8]
    rest = [m for m in mags if abs(m - 1) >= 1e-8]
    if len(units) != ((n_unit or 1) if rw is not None else 0):
        return False
    if any(1 - MARGIN < m < 1 + MARGIN for m in rest):
        return False
    if sum(1 for m in rest if m > 1) != lm.num_forwards(spec):
        return False
    if rw is None and lm.rank_condition(spec, variant) > 1e6:
        return False
    return True


def _stds(spec, case, variant=None):
    """Assigned stds: per-variant lists for multi-variant models (variant=None), scalars for one variant."""
    nv = case["nv"]

    def pick(a, b):
        if nv == 1:
            return a
        if variant is None:
            return [a, b]
        return a if variant == 0 else b
    out = {}
    for i, s in enumerate(lm.shock_names(spec)):
        if s:
            out["std_" + s] = pick(case["std_u"][i], case.get("std_u2", case["std_u"])[i])
    for k, w in enumerate(lm.mshock_names(spec)):
        if w:
            out["std_" + w] = pick(case["std_w"][k], case.get("std_w2", case["std_w"])[k])
    return out


def _case_for_variant(case, v):
    """The case as seen by variant v (its own std vectors)."""
    if case["nv"] == 1 or v == 0:
        return case
    c = dict(case)
    c["std_u"], c["std_w"] = case.get("std_u2", case["std_u"]), case.get("std_w2", case["std_w"])
    return c


def _single_variant_spec(spec, v):
    import copy
    s = copy.deepcopy(spec)
    for p in s["params"]:
        if isinstance(p["value"], list):
            p["value"] = p["value"][v]
    return s


def _reference(spec, case, m1, order):
    """MA(inf) autocovariances of [transition vars, measurement vars] (logs for log rendering)."""
    import irispie as ir
    start = ir.qq(2020, 1)
    Lmax, Fmax = lm.max_lag_lead(spec)
    Lmax = max(Lmax, 1)
    names = spec["names"] + lm.meas_names(spec)
    nall = len(names)
    shocks = [(s, case["std_u"][i]) for i, s in enumerate(lm.shock_names(spec)) if s]
    shocks += [(w, case["std_w"][k]) for k, w in enumerate(lm.mshock_names(spec)) if w]
    Phi = np.zeros((len(shocks), H, nall))
    for si, (sname, _) in enumerate(shocks):
        db = sd.steady_db(m1, spec, start, -Lmax, H + Fmax, True)
        db[sname][start] = 1.0
        out = m1.simulate(db, start >> (start + H - 1), method="first_order", deviation=True)
        for vi, nm in enumerate(names):
            a = np.asarray(out[nm].get_data(start >> (start + H - 1)))[:, 0]
            Phi[si, :, vi] = np.log(a) if spec["log"] else a
    nonstationary = np.zeros(nall, dtype=bool)
    for r in _rws(case):
        rw_shock = lm.shock_names(spec)[r]
        si = [s for s, _ in shocks].index(rw_shock)
        nonstationary = nonstationary | (np.abs(Phi[si, H - 1, :]) > 1e-6)
    covs = []
    for j in range(order + 1):
        C = np.zeros((nall, nall))
        for si, (_, sdv) in enumerate(shocks):
            P = Phi[si].copy()
            P[:, nonstationary] = 0.0
            if j == 0:
                C += sdv ** 2 * (P.T @ P)
            else:
                C += sdv ** 2 * (P[j:].T @ P[:-j])
        C[nonstationary, :] = np.nan
        C[:, nonstationary] = np.nan
        covs.append(C)
    tail = float(np.max(np.abs(Phi[:, H - 1, :][:, ~nonstationary]), initial=0.0))
    return covs, nonstationary, tail


def _cmp(col, bucket, got, ref, where, rtol=1e-7):
    if got.shape != ref.shape:
        col.fail(bucket + ":shape", f"{where}: shape {got.shape} vs {ref.shape}")
        return
    nan_g, nan_r = np.isnan(got), np.isnan(ref)
    if not np.array_equal(nan_g, nan_r):
        col.fail(bucket + ":nan_pattern", f"{where}: NaN pattern differs\n got {nan_g.tolist()}\n expected {nan_r.tolist()}")
        return
    scale = float(np.nanmax(np.abs(ref))) if (~nan_r).any() else 0.0
    err = np.abs(np.where(nan_r, 0.0, got - ref))
    if err.size and float(err.max()) > 1e-10 + rtol * max(scale, 1e-3):
        i, j = np.unravel_index(int(np.argmax(err)), err.shape)
        col.fail(bucket + ":value", f"{where}: cell ({i},{j}) got {got[i, j]!r} expected {ref[i, j]!r}")


def _check(case):
    col = Collector()
    spec = case["spec"]
    nv = case["nv"]
    order = case["order"]
    for v in range(nv):
        if not _classify_model(spec, case["rw"], v, len(_rws(case))):
            return {"labels": ["model_not_in_domain"], "nontrivial": False}
        if case["rw"] is None and lm.steady(spec, v)[0] is None:
            return {"labels": ["singular_or_extreme_steady"], "nontrivial": False}
    zero = case["rw"] is not None
    stds = _stds(spec, case)
    m = api("build_and_solve", lm.build_model, spec, variant_count=nv, stds=stds, zero_steady=zero)
    names = spec["names"] + lm.meas_names(spec)
    dn = api("get_acov_dimension_names", m.get_acov_dimension_names)
    rows = [r[4:-1] if r.startswith("log(") else r for r in dn.rows]
    col.check(sorted(rows) == sorted(names) and tuple(dn.rows) == tuple(dn.columns), "dimension_names",
              lambda: f"{dn.rows} vs {names}")
    if spec["log"]:
        col.check(all(r.startswith("log(") for r in dn.rows), "dimension_names_log", lambda: f"{dn.rows}")
    if col.items:
        col.done()
    perm = [rows.index(nm) for nm in names]       # reference index -> acov index
    acov = api("get_acov", m.get_acov, up_to_order=order)
    acorr = api("get_acorr", m.get_acorr, up_to_order=order)
    # the route get_acorr(acov=...) on what get_acov returned: same result, and the caller's matrices stay as they were
    import copy as _copy
    acov_before = _copy.deepcopy(acov)
    acorr_from = api("get_acorr_from_acov", lambda: m.get_acorr(acov=acov))

    def _flat(a):
        return [np.asarray(x, dtype=float) for x in ([y for v_ in a for y in v_] if nv > 1 else list(a))]
    same_ = all(x.shape == y.shape and np.array_equal(x, y, equal_nan=True) for x, y in zip(_flat(acov), _flat(acov_before)))
    col.check(same_, "acorr:modifies_acov_argument", lambda: "get_acorr(acov=acov) changed the matrices get_acov had returned to the caller")
    if same_:
        fa, fb = _flat(acorr_from), _flat(acorr)
        col.check(len(fa) == len(fb) and all(x.shape == y.shape and np.allclose(x, y, rtol=1e-12, atol=1e-14, equal_nan=True) for x, y in zip(fa, fb)),
                  "acorr:from_acov_differs", lambda: "get_acorr(acov=get_acov(...)) differs from get_acorr(...)")
    if nv == 1:
        acov, acorr = [acov], [acorr]
    col.check(len(acov) == nv, "variants_count", lambda: f"{len(acov)} entries for {nv} variants")
    m2 = m.copy()
    api("rescale_stds", m2.rescale_stds, case["scale"])
    acov2 = api("get_acov_rescaled", m2.get_acov, up_to_order=order)
    # the same rescaling one kind of shocks at a time (a model without measurement shocks has an empty selection there)
    m3 = m.copy()
    import irispie as ir_
    api("rescale_stds_by_kind", m3.rescale_stds, case["scale"], kind=ir_.MEASUREMENT_STD)
    api("rescale_stds_by_kind", m3.rescale_stds, case["scale"], kind=ir_.TRANSITION_STD)
    acov3 = api("get_acov_rescaled_by_kind", m3.get_acov, up_to_order=order)
    f2, f3 = _flat(acov2), _flat(acov3)
    col.check(len(f2) == len(f3) and all(x.shape == y.shape and np.allclose(x, y, rtol=1e-9, atol=1e-13, equal_nan=True) for x, y in zip(f2, f3)),
              "rescale_stds:by_kind_differs",
              lambda: f"rescale_stds({case['scale']}, kind=MEASUREMENT_STD) then kind=TRANSITION_STD gives other autocovariances than rescale_stds({case['scale']})")
    if nv == 1:
        acov2 = [acov2]
    asym = False
    any_nan = False
    for v in range(nv):
        sv = _single_variant_spec(spec, v)
        m1 = lm.build_model(sv, stds=_stds(spec, case, variant=v), zero_steady=zero)
        ref, nonstat, tail = _reference(sv, _case_for_variant(case, v), m1, order)
        if tail > 1e-9:
            return {"labels": ["responses_not_decayed"], "nontrivial": False}
        any_nan = any_nan or bool(nonstat.any())
        col.check(len(acov[v]) == order + 1, "orders_count", lambda: f"{len(acov[v])} matrices for up_to_order={order}")
        for j in range(min(order + 1, len(acov[v]))):
            got = np.asarray(acov[v][j])[np.ix_(perm, perm)]
            _cmp(col, f"acov:order{min(j, 2)}", got, ref[j], f"variant {v} order {j}\n{lm.source(sv)}")
            if j == 1 and np.nanmax(np.abs(ref[1] - ref[1].T), initial=0.0) > 1e-3 * (1e-12 + np.nanmax(np.abs(ref[1]), initial=0.0)):
                asym = True
            # autocorrelations
            sdv = np.sqrt(np.diag(ref[0]))
            with np.errstate(all="ignore"):
                refc = ref[j] / np.outer(sdv, sdv)
            # against the reference only where the variance is well above the rounding error of the largest one
            # (cov error ~ eps*max var, divided by var_i); the scaling itself is tested on the real acov for all
            big = np.diag(ref[0]) > max(1e-12, 1e-6 * float(np.nanmax(np.diag(ref[0]), initial=0.0)))
            ok = np.outer(big, big)
            gotc = np.asarray(acorr[v][j])[np.ix_(perm, perm)]
            if gotc.shape == refc.shape:
                g0_ = np.asarray(acov[v][0])[np.ix_(perm, perm)]
                gj_ = np.asarray(acov[v][j])[np.ix_(perm, perm)]
                sd_ = np.sqrt(np.where(np.diag(g0_) > 0, np.diag(g0_), np.nan))
                with np.errstate(all="ignore"):
                    own = gj_ / np.outer(sd_, sd_)
                both = np.isfinite(own) & np.isfinite(gotc)
                es = np.abs(np.where(both, gotc - own, 0.0))
                col.check(float(es.max(initial=0.0)) <= 1e-9, "acorr:scaling",
                          lambda: f"variant {v} order {j}: get_acorr differs from get_acov scaled by its order-0 stds by {float(es.max()):.3e}\n{lm.source(sv)}")
                e = np.abs(np.where(ok, gotc - refc, 0.0))
                e = np.where(np.isnan(e), np.inf, e)
                col.check(float(e.max(initial=0.0)) <= 1e-7, "acorr:value",
                          lambda: f"variant {v} order {j}: autocorrelation differs by {float(e.max()):.3e}\n{lm.source(sv)}")
            else:
                col.fail("acorr:shape", f"{gotc.shape}")
            # rescaling
            got2 = np.asarray(acov2[v][j])[np.ix_(perm, perm)]
            _cmp(col, "rescale_stds", got2, ref[j] * case["scale"] ** 2, f"variant {v} order {j} scale {case['scale']}")
        g0 = np.asarray(acov[v][0])
        fin = ~np.isnan(np.diag(g0))
        if fin.any():
            sub = g0[np.ix_(fin, fin)]
            col.check(bool(np.allclose(sub, sub.T, rtol=1e-9, atol=1e-12)), "acov:order0_symmetric", "")
            col.check(float(np.min(np.linalg.eigvalsh((sub + sub.T) / 2))) >= -1e-9 * (1 + float(np.abs(sub).max())), "acov:order0_psd", "")
    col.done()
    labels = []
    if asym:
        labels.append("lag1_nonsymmetric")
    if any_nan:
        labels.append("has_nonstationary_variables")
    return {"labels": labels, "nontrivial": (order >= 1 and asym) or case["rw"] is not None}


SUBCHECKS = [
    HypSub("acov", _case, _check, _classify, budget={"quick": 500, "thorough": 40000}),
]
