"""
C13 - Change and cumulation transforms follow their formulas and invert each other.

Oracle: the documented per-period formulas evaluated on the dict model
(vlib.refseries), and the recursion y_t = cum(y_{t-k}, c_t) for cumulation.
"""

import math

from hypothesis import strategies as st

from vlib import refcal, pgen, refseries as rs
from vlib.runner import HypSub, Collector, api

PROPERTY = "C13"

RULE = (
    "changes: drawn series (all frequencies, 1-3 variants, interior NaNs) x change function x negative or keyword "
    "shift x method/functional form, compared cell by cell with the documented formula; helpers: the *_from_* "
    "conversions against the change functions and their closed forms; cumulation: cum_f(f(x,k),k,initial=x,span) "
    "forward/backward, default and explicit spans, compared with the recursion on the dict model and with x itself; "
    "cumulation_keyword: the same round trip forward with the keyword shifts yoy/soy/eopy/tty on complete yearly to "
    "monthly series (non-trivial iff the series is longer than a year). "
    "Non-trivial iff (|shift|>=2 or keyword shift or backward span) and (interior NaN or >=2 variants)"
)

ASSUMPTIONS = [
    "pct/apct with shift='tty' at start-of-year periods is not judged (documented 'unchanged' cannot be expressed by the percent formula; the implementation returns missing)",
    "diff_log with shift='tty' at start-of-year periods is only required to be finite (documentation says 'unchanged' without saying in which units)",
    "keyword shifts are applied to calendar frequencies only (integer periods have no year)",
    "for explicit backward cumulation spans only the inversion y==x on the span is asserted, not the extent of the result",
    "scalar initial conditions are exercised for cum_diff and cum_roc only (documentation formula and recursion agree there)",
]

RTOL = 1e-11

CHANGE_FUNCS = ("diff", "diff_log", "pct", "roc", "adiff", "adiff_log", "apct", "aroc")
FLEX = ("diff", "diff_log", "pct", "roc")
NEEDS_POSITIVE = ("diff_log", "pct", "roc", "adiff_log", "apct", "aroc")


def _ir():
    import irispie as ir
    return ir


def _formula(fn, a):
    import numpy as np
    table = _formula_table(a)
    g = table[fn]

    def wrapped(x, y):
        with np.errstate(all="ignore"):
            return float(g(np.float64(x), np.float64(y)))
    return wrapped


def _formula_table(a):
    import numpy as np

    class math:  # numpy semantics (inf instead of OverflowError)
        log = staticmethod(np.log)
    return {
        "diff": lambda x, y: x - y,
        "diff_log": lambda x, y: math.log(x) - math.log(y),
        "pct": lambda x, y: 100 * (x / y - 1),
        "roc": lambda x, y: x / y,
        "adiff": lambda x, y: a * (x - y),
        "adiff_log": lambda x, y: a * (math.log(x) - math.log(y)),
        "apct": lambda x, y: 100 * ((x / y) ** a - 1),
        "aroc": lambda x, y: (x / y) ** a,
    }


def ref_change(ref, fn, shift):
    """Documented change; returns (Ref, set of cells that are not judged, set of cells only required finite)."""
    f = ref.f
    a = f if f != 0 else 1
    g = _formula(fn, a)
    out = rs.Ref(f, ref.nv)
    skip, finite_only = set(), set()
    sp = ref.span()
    if sp is None:
        return out, skip, finite_only
    lo, hi = sp
    ext = 400 if f == 365 else 2 * max(f, 1) + 8
    for t in range(lo - ext, hi + ext + 1):
        if isinstance(shift, int):
            s = t + shift
        elif shift == "yoy":
            s = t - f
        elif shift == "soy":
            s = rs.soy(f, t)
        elif shift == "eopy":
            s = rs.eopy(f, t)
        elif shift == "tty":
            s = None if rs.is_soy(f, t) else t - 1
        else:
            raise ValueError(shift)
        for v in range(ref.nv):
            x = ref.get(t, v)
            if s is None:
                # start-of-year period under "tty"
                if math.isnan(x):
                    continue
                if fn in ("diff", "roc"):
                    out.set(t, v, x)
                elif fn == "diff_log":
                    finite_only.add((t, v))
                else:
                    skip.add((t, v))
                continue
            y = ref.get(s, v)
            if math.isnan(x) or math.isnan(y):
                continue
            out.set(t, v, g(x, y))
    return out, skip, finite_only


def _compare_partial(x, ref, skip, finite_only, rtol):
    """Compare all cells except `skip`; `finite_only` cells must be finite."""
    got = rs.read(x, ref.f)
    for key in sorted(set(got.cells) | set(ref.cells) | set(finite_only)):
        if key in skip:
            continue
        a = got.get(*key)
        if key in finite_only:
            if not math.isfinite(a):
                return f"cell {pgen.describe(pgen.from_index(ref.f, key[0]))} variant {key[1]}: got {a!r}, expected a finite value"
            continue
        b = ref.get(*key)
        if not rs.close(a, b, rtol, 1e-13):
            return f"cell {pgen.describe(pgen.from_index(ref.f, key[0]))} variant {key[1]}: got {a!r} expected {b!r}"
    return ""


# ---------------------------------------------------------------------------
# changes
# ---------------------------------------------------------------------------

_INT_SHIFT = st.one_of(st.integers(-6, -1), st.just(-1))


@st.composite
def _change_case(draw, daily_keyword=False):
    fn = draw(st.sampled_from(FLEX if daily_keyword else CHANGE_FUNCS))
    f = 365 if daily_keyword else draw(st.sampled_from(refcal.ALL))
    narrow = f == 365 and fn in ("apct", "aroc")      # keep (x_t/x_s)**365 finite
    x = draw(rs.series_desc(freq=f, min_len=1, max_len=28 if f != 365 else 40, positive=fn in NEEDS_POSITIVE, margin_years=5,
                            plo=1.0 if narrow else 0.25, hi=1.05 if narrow else 5.0))
    if fn in FLEX:
        if daily_keyword or (f != 0 and draw(st.integers(0, 2)) == 0):
            shift = draw(st.sampled_from(["yoy", "soy", "eopy", "tty"]))
        else:
            shift = draw(_INT_SHIFT)
    else:
        shift = None
    if f == 365 and shift in ("yoy", "soy", "eopy", "tty") and ((daily_keyword and shift != "tty") or draw(st.booleans())):
        # place the series around a year boundary so that keyword shifts bite
        import datetime as dt
        y = dt.date.fromordinal(x["start"]["o"]).year
        if draw(st.booleans()):
            y -= (y + 1) % 4          # the series runs into a year divisible by four (leap years: 366 days back is not 365)
        elif draw(st.booleans()):
            y -= y % 4                # ... or starts at the end of one
        x["start"] = {"f": 365, "o": dt.date(y, 12, 31).toordinal() - draw(st.integers(0, 20))}
    form = draw(st.sampled_from(["method", "function"]))
    return {"x": x, "fn": fn, "shift": shift, "form": form}


def _classify_change(case):
    shift = case["shift"]
    x = case["x"]
    labels = [f"fn_{case['fn']}", f"freq_{refcal.LETTER[x['f']]}", f"form_{case['form']}"]
    if isinstance(shift, str):
        labels.append(f"shift_{shift}")
    big = isinstance(shift, str) or (isinstance(shift, int) and shift <= -2)
    rich = rs.desc_has_interior_nan(x) or x["nv"] >= 2
    if rs.desc_has_interior_nan(x):
        labels.append("interior_nan")
    return big and rich, labels


def _snapshot(x):
    return (repr(x.start), x.get_data().tobytes(), x.get_data().shape, x.get_description())


def _call_change(ir, x, fn, shift, form, bucket):
    args = () if shift is None else (shift,)
    if form == "method":
        y = x.copy()
        out = api(bucket, getattr(y, fn), *args)
        return y, out
    y = api(bucket, getattr(ir, fn), x, *args)
    return y, None


def _check_change(case):
    ir = _ir()
    col = Collector()
    ref = rs.ref_from_desc(case["x"])
    fn, shift, form = case["fn"], case["shift"], case["form"]
    if ref.is_empty():
        return {"labels": ["empty_input_left_to_C10"], "nontrivial": False}
    x = rs.build(ref, description="input")
    before = _snapshot(x)
    y, out = _call_change(ir, x, fn, shift, form, f"{fn}:{form}")
    col.check(_snapshot(x) == before, f"{fn}:input_modified", "the input series changed")
    if form == "method":
        col.check(out is None, f"{fn}:method_returns_none", lambda: f"returned {out!r}")
    exp, skip, finite_only = ref_change(ref, fn, shift if shift is not None else -1)
    msg = _compare_partial(y, exp, skip, finite_only, RTOL)
    tag = f"{fn}:{shift if isinstance(shift, str) else 'int'}"
    col.check(not msg, f"{tag}:formula", lambda: f"{fn}(x, {shift!r}) {msg}")
    if not skip and not finite_only:
        m2 = rs.compare(y, exp, RTOL, 1e-13)
        col.check(not m2, f"{tag}:span", lambda: f"{fn}(x, {shift!r}) {m2}")
    col.done()


# ---------------------------------------------------------------------------
# helpers
# ---------------------------------------------------------------------------

@st.composite
def _helper_case(draw):
    f = draw(st.sampled_from(refcal.ALL))
    # annualised round trips are ill-conditioned unless (x_t/x_s)**a stays moderate
    x = draw(rs.series_desc(freq=f, min_len=2, max_len=20, positive=True, margin_years=5,
                            plo=1.0, hi=1.0 + 4.0 / max(f, 1)))
    shift = draw(_INT_SHIFT)
    return {"x": x, "shift": shift, "form": draw(st.sampled_from(["method", "function"]))}


def _classify_helper(case):
    x = case["x"]
    return (x["nv"] >= 2 or rs.desc_has_interior_nan(x)) and x["f"] not in (0, 1), [f"freq_{refcal.LETTER[x['f']]}"]


def _apply(ir, name, z, form):
    if form == "method":
        w = z.copy()
        api(f"{name}:method", getattr(w, name))
        return w
    return api(f"{name}:function", getattr(ir, name), z)


def _check_helper(case):
    ir = _ir()
    col = Collector()
    ref = rs.ref_from_desc(case["x"])
    if ref.is_empty():
        return {"labels": ["empty_input_left_to_C10"], "nontrivial": False}
    f = ref.f
    a = f if f != 0 else 1
    k = case["shift"]
    form = case["form"]
    x = rs.build(ref)
    pct_k, roc_k = ir.pct(x, k), ir.roc(x, k)
    pct_1, roc_1 = ir.pct(x, -1), ir.roc(x, -1)
    apct, aroc = ir.apct(x), ir.aroc(x)
    pairs = [
        ("roc_from_pct", pct_k, roc_k, lambda z: 1 + z / 100),
        ("pct_from_roc", roc_k, pct_k, lambda z: 100 * (z - 1)),
        ("pct_from_apct", apct, pct_1, lambda z: 100 * ((1 + z / 100) ** (1 / a) - 1)),
        ("roc_from_apct", apct, roc_1, lambda z: (1 + z / 100) ** (1 / a)),
        ("roc_from_aroc", aroc, roc_1, lambda z: z ** (1 / a)),
    ]
    for name, src, target, closed in pairs:
        before = _snapshot(src)
        got = _apply(ir, name, src, form)
        col.check(_snapshot(src) == before, f"{name}:input_modified", "")
        m = rs.compare(got, rs.read(target, f), 1e-9, 1e-12)
        col.check(not m, f"{name}:consistent_with_change_function", lambda: f"{name}: {m}")
        m = rs.compare(got, rs.read(src, f).map(closed), 1e-9, 1e-12)
        col.check(not m, f"{name}:closed_form", lambda: f"{name}: {m}")
    col.done()


# ---------------------------------------------------------------------------
# cumulation
# ---------------------------------------------------------------------------

_CUMF = {
    "diff": (lambda past, c: past + c, lambda fut, c: fut - c),
    "diff_log": (lambda past, c: past * math.exp(c), lambda fut, c: fut / math.exp(c)),
    "pct": (lambda past, c: past * (1 + c / 100), lambda fut, c: fut / (1 + c / 100)),
    "roc": (lambda past, c: past * c, lambda fut, c: fut / c),
}


@st.composite
def _cum_case(draw):
    fn = draw(st.sampled_from(FLEX))
    f = draw(st.sampled_from(refcal.ALL))
    k = -draw(_INT_SHIFT)
    x = draw(rs.series_desc(freq=f, min_len=k + 1, max_len=k + 22, positive=fn != "diff", margin_years=5))
    direction = draw(st.sampled_from(["forward", "backward"]))
    span_kind = draw(st.sampled_from(["default", "none_none", "explicit"]))
    initial = "orig"
    if fn in ("diff", "roc") and direction == "forward" and draw(st.integers(0, 3)) == 0:
        initial = draw(st.sampled_from([0.0, 1.0, 2.5, -1.5])) if fn == "diff" else draw(st.sampled_from([1.0, 2.0, 0.5]))
    return {"x": x, "fn": fn, "k": k, "direction": direction, "span_kind": span_kind,
            "cut": [draw(st.integers(0, 6)), draw(st.integers(0, 6))],
            "initial": initial, "form": draw(st.sampled_from(["method", "function"]))}


def _classify_cum(case):
    x = case["x"]
    labels = [f"fn_{case['fn']}", case["direction"], f"span_{case['span_kind']}", f"freq_{refcal.LETTER[x['f']]}",
              "initial_orig" if case["initial"] == "orig" else "initial_scalar"]
    big = case["k"] >= 2 or case["direction"] == "backward"
    rich = rs.desc_has_interior_nan(x) or x["nv"] >= 2
    return big and rich, labels


def _check_cum(case):
    ir = _ir()
    col = Collector()
    xr = rs.ref_from_desc(case["x"])
    f, fn, k = xr.f, case["fn"], case["k"]
    if xr.is_empty():
        return {"labels": ["empty_input_left_to_C10"], "nontrivial": False}
    x = rs.build(xr)
    c = api(f"{fn}:function", getattr(ir, fn), x, -k)
    cr = rs.read(c, f)
    csp = cr.span()
    if csp is None:
        return {"labels": ["empty_change"], "nontrivial": False}
    cumf, cumb = _CUMF[fn]
    direction, span_kind = case["direction"], case["span_kind"]
    initial = x if case["initial"] == "orig" else case["initial"]
    # ---- span argument and the cells the recursion runs over -------------
    if span_kind in ("default", "none_none"):
        S, T = csp
        if direction == "forward":
            span = None if span_kind == "default" else ir.Span(None, None)
        else:
            span = ir.Span(None, None, -1)
            S, T = csp[0] - k, csp[1] - k      # result periods of the whole-series backward cumulation
    else:
        a_, b_ = case["cut"]
        S, T = csp[0] + a_, csp[1] - b_
        if direction == "backward":
            S, T = S - k, T - k
            # keep both readings of the span argument inside the data (see ASSUMPTIONS)
            S, T = max(S, csp[0]), min(T, csp[1] - k)
        if S > T:
            return {"labels": ["degenerate_span"], "nontrivial": False}
        span = ir.Span(rs.period_at(f, S), rs.period_at(f, T)) if direction == "forward" \
            else ir.Span(rs.period_at(f, T), rs.period_at(f, S), -1)
    kwargs = {"initial": initial}
    if span is not None:
        kwargs["span"] = span
    before_c, before_x = _snapshot(c), _snapshot(x)
    span_repr = repr(span)
    name = f"cum_{fn}"
    if case["form"] == "method":
        y = c.copy()
        api(f"{name}:method", getattr(y, name), -k, **kwargs)
    else:
        y = api(f"{name}:function", getattr(ir, name), c, -k, **kwargs)
    col.check(_snapshot(x) == before_x, f"{name}:initial_modified", "the initial-condition series changed")
    if span is not None:
        col.check(repr(span) == span_repr, f"{name}:span_argument_modified", lambda: f"the caller's span {span_repr} became {span!r}")
        # the same span object serves a second call (a history: observe -> call -> call)
        y2 = api(f"{name}:function", getattr(ir, name), c, -k, **kwargs)
        col.check(_snapshot(y2) == _snapshot(y), f"{name}:second_call_with_same_span_differs",
                  lambda: f"{name}(c, {-k}, span={span_repr}) gives a different result when the same span object is passed again")
    if case["form"] == "function":
        col.check(_snapshot(c) == before_c, f"{name}:input_modified", "the change series changed")
    # ---- reference recursion ---------------------------------------------
    exp = rs.Ref(f, xr.nv)
    tag = f"{name}:{direction}:{span_kind}"
    if direction == "forward":
        for t in range(S - k, T + 1):
            for v in range(xr.nv):
                exp.set(t, v, xr.get(t, v) if case["initial"] == "orig" else case["initial"])
        for t in range(S, T + 1):
            for v in range(xr.nv):
                exp.set(t, v, cumf(exp.get(t - k, v), cr.get(t, v)))
        m = rs.compare(y, exp, 1e-10, 1e-12)
        col.check(not m, f"{tag}:recursion", lambda: f"{name}(c, {-k}, span={span!r}): {m}")
    else:
        for t in range(S, T + k + 1):
            for v in range(xr.nv):
                exp.set(t, v, xr.get(t, v))
        for sh in range(T, S - 1, -1):
            for v in range(xr.nv):
                exp.set(sh, v, cumb(exp.get(sh + k, v), cr.get(sh + k, v)))
        if span_kind != "explicit":
            m = rs.compare(y, exp, 1e-10, 1e-12)
            col.check(not m, f"{tag}:recursion", lambda: f"{name}(c, {-k}, span={span!r}): {m}")
    # ---- inversion: y == x wherever the recursion is free of missing values
    if case["initial"] == "orig":
        got = rs.read(y, f)
        n_checked = 0
        for t in range(S, T + 1):
            for v in range(xr.nv):
                e = exp.get(t, v)
                if math.isnan(e):
                    continue
                n_checked += 1
                xv, yv = xr.get(t, v), got.get(t, v)
                if not rs.close(xv, yv, 1e-9, 1e-12):
                    col.fail(f"{tag}:inversion", f"{name}({fn}(x,{-k}),{-k},initial=x,span={span!r}) at "
                                                 f"{pgen.describe(pgen.from_index(f, t))} v{v}: got {yv!r}, original {xv!r}")
                    break
            if col.items:
                break
        # sanity of the oracle itself: the recursion on the reference reproduces x
        for t in range(S, T + 1):
            for v in range(xr.nv):
                e = exp.get(t, v)
                if not math.isnan(e) and not rs.close(e, xr.get(t, v), 1e-9, 1e-12):
                    raise AssertionError("harness: reference recursion does not reproduce x")
        col.done()
        return {"labels": ["inversion_cells_checked" if n_checked else "inversion_no_cells"], "nontrivial": n_checked > 0}
    col.done()
    return None


# ---------------------------------------------------------------------------
# forward cumulation with keyword shifts inverts the change with the same keyword
# ---------------------------------------------------------------------------

@st.composite
def _cumkw_case(draw):
    fn = draw(st.sampled_from(FLEX))
    f = draw(st.sampled_from([x for x in refcal.ALL if x not in (0, 365)]))
    shift = draw(st.sampled_from(["yoy", "soy", "eopy", "tty"]))
    x = draw(rs.series_desc(freq=f, min_len=2, max_len=3 * max(f, 2) + 2, positive=True, nan_prob=False, margin_years=5))
    return {"x": x, "fn": fn, "shift": shift, "form": draw(st.sampled_from(["method", "function"])),
            "span_kind": draw(st.sampled_from(["explicit", "default"]))}


def _classify_cumkw(case):
    x = case["x"]
    labels = [f"fn_{case['fn']}", f"shift_{case['shift']}", f"freq_{refcal.LETTER[x['f']]}", f"span_{case['span_kind']}"]
    return len(x["rows"]) > x["f"], labels          # crosses a year boundary


def _check_cumkw(case):
    ir = _ir()
    col = Collector()
    xr = rs.ref_from_desc(case["x"])
    f, fn, shift = xr.f, case["fn"], case["shift"]
    if fn == "pct" and shift == "tty":
        return {"labels": ["pct_tty_not_judged"], "nontrivial": False}     # see ASSUMPTIONS: missing at start-of-year periods
    x = rs.build(xr)
    c = api(f"{fn}:function", getattr(ir, fn), x, shift)
    cr = rs.read(c, f)
    csp = cr.span()
    if csp is None:
        return {"labels": ["empty_change"], "nontrivial": False}
    S, T = csp[0], xr.span()[1]
    if any(math.isnan(cr.get(t, v)) for t in range(S, T + 1) for v in range(xr.nv)):
        return {"labels": ["change_with_missing_cells_not_judged"], "nontrivial": False}
    kwargs = {"initial": x}
    if case["span_kind"] == "explicit":
        kwargs["span"] = ir.Span(rs.period_at(f, S), rs.period_at(f, T))
    name = f"cum_{fn}"
    if case["form"] == "method":
        y = c.copy()
        api(f"{name}:method", getattr(y, name), shift, **kwargs)
    else:
        y = api(f"{name}:function", getattr(ir, name), c, shift, **kwargs)
    got = rs.read(y, f)
    for t in range(S, T + 1):
        for v in range(xr.nv):
            xv, yv = xr.get(t, v), got.get(t, v)
            if not rs.close(xv, yv, 1e-9, 1e-12):
                col.fail(f"{name}:keyword:{shift}:inversion",
                         f"{name}({fn}(x,{shift!r}),{shift!r},initial=x,span={kwargs.get('span')!r}) at "
                         f"{pgen.describe(pgen.from_index(f, t))} v{v}: got {yv!r}, original {xv!r}")
                col.done()
    col.done()
    return {"labels": ["keyword_inversion_checked"], "nontrivial": len(case["x"]["rows"]) > f}


SUBCHECKS = [
    HypSub("changes", _change_case, _check_change, _classify_change, budget={"quick": 2500, "thorough": 60000}),
    HypSub("changes_daily_keyword", lambda: _change_case(daily_keyword=True), _check_change, _classify_change, budget={"quick": 500, "thorough": 12000}),
    HypSub("helpers", _helper_case, _check_helper, _classify_helper, budget={"quick": 600, "thorough": 10000}),
    HypSub("cumulation", _cum_case, _check_cum, _classify_cum, budget={"quick": 2500, "thorough": 60000}),
    HypSub("cumulation_keyword", _cumkw_case, _check_cumkw, _classify_cumkw, budget={"quick": 800, "thorough": 20000}),
]
