"""
C07 - Simulation plans hit exogenized points exactly; swaps invert a simulation.

Oracle: round trip.  A "truth" simulation is driven by drawn shocks; the plan
exogenizes a drawn set of (variable, date) cells at their truth values and
endogenizes the same number of (shock, date) cells whose truth values are
hidden from the input.  The planned simulation must return the truth shocks
and the whole truth path.  The harness computes the impact matrix of the
instruments on the targets from simulated impulse responses and only judges
exactly identified, well-conditioned set-ups.
"""

import math

import numpy as np
from hypothesis import strategies as st

from vlib import linmodels as lm, simdata as sd
from vlib.runner import HypSub, Collector, api

PROPERTY = "C07"

RULE = (
    "a determinate structural model; a truth simulation with initial conditions, background shocks and k=1-3 "
    "instrument shock cells; k target cells (variable, date); plan = exogenize targets + endogenize instruments, "
    "unanticipated (same-date pairs, several dates) or anticipated (targets and instruments at arbitrary dates); "
    "method first_order or stacked_time. Only set-ups whose harness-computed impact matrix has condition number "
    "< 1e6 are judged. Non-trivial iff >= 2 swapped pairs at different dates, or an anticipated swap dated after "
    "the first period."
)

ASSUMPTIONS = [
    "exactly identified plans only (the property's quantifier); the impact matrix is computed by the harness from simulate() responses (judged by C01)",
    "unanticipated swaps pair a variable and a shock at the same date; anticipated targets/instruments may be at different dates",
    "with anticipated swaps, background unanticipated shocks are dated in the first period or after the last target (a surprise between the instrument and a target changes the information set under which the instrument was anticipated; the truth is then no fixed point of the plan)",
    "stacked_time is run in levels only (deviation is a first-order concept)",
    "anchored nonlinear models (stacked_time only): the truth comes from stacked_time; recovered instrument values and paths are not compared (the instruments hitting a target need not be unique), only exogenized points, untouched shocks and the equations on the planned path",
    "input values at endogenized shock cells are drawn (zero, a stale non-zero value, or the truth itself): the result must not depend on them; tolerance 1e-8 relative (first_order), 1e-6 (stacked_time)",
]

MARGIN = 0.1
# smallest admitted ratio of singular values of the impact matrix: irispie solves the conditional simulation as a
# Kalman smoothing problem (normal equations), so the recovered shocks carry the square of the condition number
COND = 1e-3
SOLVER = {"func_tolerance": 1e-10, "step_tolerance": float("inf"), "max_iterations": 200}


@st.composite
def _case(draw):
    method = draw(st.sampled_from(["first_order", "first_order", "stacked_time"]))
    if method == "stacked_time" and draw(st.booleans()):
        spec = draw(lm.nl_spec_strategy(max_n=3, meas=(0, 1)))      # genuinely nonlinear: truth and plan both by stacked_time
    else:
        spec = draw(lm.spec_strategy(max_n=4, meas=(0, 1), min_leads=0))
    n = spec["n"]
    N = draw(st.integers(2, 8))
    mode = draw(st.sampled_from(["unanticipated", "anticipated"]))
    k = draw(st.integers(1, 3))
    val = st.floats(-2, 2, allow_nan=False).map(lambda x: round(x, 3)).filter(lambda x: abs(x) > 0.05)
    pairs = []
    for _ in range(k):
        var = draw(st.integers(0, n - 1))
        shock = var if draw(st.integers(0, 2)) else draw(st.integers(0, n - 1))     # mostly the variable's own shock
        t_target = draw(st.integers(0, N - 1))
        t_shock = t_target if mode == "unanticipated" else draw(st.integers(0, N - 1))
        pairs.append([var, t_target, shock, t_shock, draw(val)])
    background = draw(st.lists(st.tuples(st.integers(0, n - 1), st.integers(0, N - 1), val, st.booleans()), max_size=3))
    init = draw(st.lists(st.tuples(st.integers(0, n - 1), st.integers(1, 3),
                                   st.floats(-1, 1, allow_nan=False).map(lambda x: round(x, 3))), max_size=4))
    inst_input = [draw(st.sampled_from([0.0, 0.0, 0.5, -0.3, "truth"])) for _ in pairs]
    return {"spec": spec, "N": N, "mode": mode, "pairs": pairs, "inst_input": inst_input,
            "background": [list(b) for b in background], "init": [list(i) for i in init],
            "method": method,
            "deviation": draw(st.booleans()),
            "split_frames": draw(st.sampled_from([False, False, True])),
            "api": draw(st.sampled_from(["swap", "separate"]))}


def _classify(case):
    pairs = case["pairs"]
    labels = [case["mode"], case["method"], f"pairs_{len(pairs)}", "deviation" if case["deviation"] else "levels"]
    if lm.nl_terms(case["spec"]):
        labels.append("nonlinear_model")
    if case.get("split_frames") and case["method"] == "first_order":
        labels.append("force_split_frames")
    if case["mode"] == "anticipated" and any((not b[3]) and b[1] > max(p[1] for p in pairs) for b in case["background"]):
        labels.append("surprise_after_last_target")
    dates = {p[1] for p in pairs}
    nontrivial = (len(pairs) >= 2 and len(dates) >= 2) or (case["mode"] == "anticipated" and any(p[1] > 0 or p[3] > 0 for p in pairs))
    if case["mode"] == "anticipated" and any(p[1] != p[3] for p in pairs):
        labels.append("target_and_instrument_dates_differ")
    return nontrivial, labels


def _in_domain(spec):
    if lm.steady(spec)[0] is None:
        return False
    mags = [abs(x) for x in lm.eigenvalues(spec)]
    if any(1 - MARGIN < m < 1 + MARGIN for m in mags):
        return False
    if sum(1 for m in mags if m > 1) != lm.num_forwards(spec):
        return False
    return lm.rank_condition(spec) <= 1e6


def _collapsed(spec, paths, dev, variant=None):
    """Collapsed pseudo-solutions of multiplicative equations (see C06): the stacked solver accepts x -> 0 because its
    residual test is absolute; such paths are counted, not compared."""
    xs_, _ = lm.steady(spec, variant)
    if xs_ is None:
        return True
    for j, nm_ in enumerate(spec["names"]):
        a_ = paths.arr(nm_)
        if not np.all(np.isfinite(a_)) or np.any(a_ <= 0) or float(np.max(np.abs(np.log(a_) - (0.0 if dev else xs_[j])))) > 12.0:
            return True
    return False


def _check(case):
    import irispie as ir
    col = Collector()
    spec = case["spec"]
    if not _in_domain(spec):
        return {"labels": ["model_not_in_domain"], "nontrivial": False}
    shn = lm.shock_names(spec)
    N, dev, mode, method = case["N"], case["deviation"], case["mode"], case["method"]
    if method == "stacked_time":
        dev = False         # the nonlinear simulators work on the equations in levels; there is no deviation mode
    # resolve pairs: distinct instruments, distinct targets, equations that have a shock
    pairs, seen_t, seen_i = [], set(), set()
    inst_in = {}
    for pi_, (var, tt, shock, ts, v) in enumerate(case["pairs"]):
        if not shn[shock] or (var, tt) in seen_t or (shock, ts) in seen_i:
            continue
        seen_t.add((var, tt))
        seen_i.add((shock, ts))
        pairs.append((var, tt, shock, ts, v))
        x_in = (case.get("inst_input") or [0.0] * len(case["pairs"]))[pi_]
        inst_in[(shock, ts)] = v if x_in == "truth" else x_in
    if not pairs:
        return {"labels": ["no_usable_pair"], "nontrivial": False}
    if mode == "unanticipated":
        # same-date blocks must be square by construction (they are: one target per instrument per date)
        pass
    start = ir.qq(2020, 1)
    Lmax, Fmax = lm.max_lag_lead(spec)
    Lmax = max(Lmax, 1)
    m = api("build_and_solve", lm.build_model, spec)
    span = start >> (start + N - 1)
    pre = "" if mode == "unanticipated" else "ant_"

    last_target = max(p[1] for p in pairs)

    def base_db():
        db = sd.steady_db(m, spec, start, -Lmax, N + Fmax + 2, dev)
        sd.apply_init(db, spec, start, case["init"], dev)
        for i, tau, v, ant in case["background"]:
            if mode == "anticipated" and not ant and 0 < tau <= last_target:
                # a surprise before the last target changes what agents anticipated when the instrument was set: the
                # truth is then not a fixed point of the anticipated plan, so the round trip is not implied by the
                # property; a surprise after every target leaves the targets untouched and is kept (second frame)
                continue
            if shn[i] and (i, tau) not in seen_i:
                db[("ant_" if ant else "") + shn[i]][start + tau] = v
        return db

    sim_kw = dict(method=method, deviation=dev)
    # ---- impact matrix from simulated responses (harness-side conditioning test)
    db0 = base_db()
    P_base = api("simulate_base", m.simulate, db0, span, method="first_order", deviation=dev)
    k = len(pairs)
    M = np.zeros((k, k))
    log = spec["log"]

    def tr(x):
        return math.log(x) if (log and x > 0) else x

    for j, (_, _, shock, ts, _) in enumerate(pairs):
        dbj = base_db()
        dbj[pre + shn[shock]][start + ts] = 1.0
        Pj = api("simulate_response", m.simulate, dbj, span, method="first_order", deviation=dev)
        for i, (var, tt, _, _, _) in enumerate(pairs):
            nm = spec["names"][var]
            M[i, j] = tr(float(Pj[nm].get_data(start + tt)[0, 0])) - tr(float(P_base[nm].get_data(start + tt)[0, 0]))
    if mode == "unanticipated":
        # a later unanticipated shock cannot move an earlier target; the system is block triangular by date
        ok = all(abs(M[i, j]) < 1e-12 for i in range(k) for j in range(k) if pairs[j][3] > pairs[i][1])
        if not ok:
            col.fail("impact:unanticipated_shock_moves_past", "an unanticipated shock changed an earlier period")
            col.done()
    sv = np.linalg.svd(M, compute_uv=False)
    if sv[-1] <= COND * max(sv[0], 1e-12) or sv[0] < 1e-9:
        return {"labels": ["impact_matrix_ill_conditioned"], "nontrivial": False}
    if mode == "unanticipated":
        # every date block must itself be well conditioned
        for d in {p[1] for p in pairs}:
            idx = [i for i, p in enumerate(pairs) if p[1] == d]
            s_ = np.linalg.svd(M[np.ix_(idx, idx)], compute_uv=False)
            if s_[-1] <= COND * max(s_[0], 1e-12):
                return {"labels": ["impact_matrix_ill_conditioned"], "nontrivial": False}

    # ---- truth ---------------------------------------------------------------------
    dbT = base_db()
    for (_, _, shock, ts, v) in pairs:
        dbT[pre + shn[shock]][start + ts] = v
    if lm.nl_terms(spec):
        # the first-order path is only an approximation of a nonlinear model: the truth comes from the same method
        try:
            PT = m.simulate(dbT, span, method="stacked_time", solver_settings=SOLVER)
        except Exception as exc:  # noqa: BLE001
            return {"labels": ["stacked_time_failed:" + type(exc).__name__], "nontrivial": False}
    else:
        PT = api("simulate_truth", m.simulate, dbT, span, method="first_order", deviation=dev)

    # ---- planned simulation ------------------------------------------------------------
    dbP = base_db()
    plan = ir.SimulationPlan(m, span)
    for (var, tt, shock, ts, v) in pairs:
        nm = spec["names"][var]
        dbP[nm][start + tt] = float(PT[nm].get_data(start + tt)[0, 0])
        # the input value at an endogenized shock cell is whatever the user left there (zero, a stale value, the truth)
        dbP[pre + shn[shock]][start + ts] = inst_in[(shock, ts)]
        if mode == "unanticipated":
            if case["api"] == "swap":
                api("plan:swap_unanticipated", plan.swap_unanticipated, start + tt, (nm, shn[shock]))
            else:
                api("plan:exogenize_unanticipated", plan.exogenize_unanticipated, start + tt, nm)
                api("plan:endogenize_unanticipated", plan.endogenize_unanticipated, start + ts, shn[shock])
        else:
            if case["api"] == "swap" and tt == ts:
                api("plan:swap_anticipated", plan.swap_anticipated, start + tt, (nm, "ant_" + shn[shock]))
            else:
                api("plan:exogenize_anticipated", plan.exogenize_anticipated, start + tt, nm)
                api("plan:endogenize_anticipated", plan.endogenize_anticipated, start + ts, "ant_" + shn[shock])
    if method == "stacked_time":
        sim_kw["solver_settings"] = SOLVER
    elif case.get("split_frames"):
        sim_kw["force_split_frames"] = True       # non-default: one frame per surprise (stacked_time always splits)
    try:
        PP = m.simulate(dbP, span, plan=plan, **sim_kw)
    except Exception as exc:  # noqa: BLE001
        if method == "stacked_time":
            # the nonlinear solver may legitimately fail to converge; that is not a violation (C06)
            return {"labels": ["stacked_time_failed:" + type(exc).__name__], "nontrivial": False}
        col.fail(f"simulate_with_plan:raises:{type(exc).__name__}", f"{exc}\n{lm.source(spec)}\npairs={pairs}")
        col.done()
    rtol = 1e-8 if method == "first_order" else 1e-6
    pT = sd.Paths(PT, spec, start, 0, N - 1)
    pP = sd.Paths(PP, spec, start, 0, N - 1)
    if method == "stacked_time" and log and _collapsed(spec, pP, dev):
        return {"labels": ["collapsed_pseudo_solution"], "nontrivial": False}
    if method == "stacked_time" and log:
        # a frame that collapsed and whose later periods were overwritten by the next frame leaves its trace only in the
        # endogenized shock of its first period: tens of log units where the drawn shocks are at most 2
        for (_, _, shock, ts, _) in pairs:
            if abs(float(np.nan_to_num(pP.get(pre + shn[shock], ts)))) > 8.0:
                return {"labels": ["collapsed_pseudo_solution"], "nontrivial": False}
    scale = 1.0 + max(float(np.max(np.abs(np.log(pT.arr(nm)) if log else pT.arr(nm)))) for nm in spec["names"])
    # 1. exogenized points are hit
    for (var, tt, _, _, _) in pairs:
        nm = spec["names"][var]
        a, b = tr(pP.get(nm, tt)), tr(pT.get(nm, tt))
        col.check(abs(a - b) <= rtol * scale, "exogenized_point_missed",
                  lambda: f"{nm} at t={tt}: {a!r} target {b!r} ({mode}, {method})\n{lm.source(spec)}")
    # 2/3. shocks: endogenized cells recover the truth, all other cells keep their input
    nonlinear = bool(lm.nl_terms(spec))      # a nonlinear model may hit the targets with other instrument values
    inst = {(shock, ts) for (_, _, shock, ts, _) in pairs}
    for i, s in enumerate(shn):
        if not s:
            continue
        for prefix in ("", "ant_"):
            a, b = pP.arr(prefix + s), pT.arr(prefix + s)
            a = np.where(np.isnan(a), 0.0, a)
            b = np.where(np.isnan(b), 0.0, b)
            for t in range(N):
                is_inst = (i, t) in inst and prefix == pre
                if is_inst and nonlinear:
                    continue
                bucket = "endogenized_shock_not_recovered" if is_inst else "non_endogenized_shock_changed"
                col.check(abs(a[t] - b[t]) <= rtol * 10 * scale, bucket,
                          lambda: f"{prefix + s} at t={t}: {a[t]!r} expected {b[t]!r} ({mode}, {method}); pairs={pairs}\n{lm.source(spec)}")
    # 3. the whole path is recovered (linear and log-linear models); for nonlinear models the planned path must
    #    satisfy the equations with the shocks it reports (single-frame set-ups, periods whose leads are in the span)
    if nonlinear:
        late_surprise = any((not ant) and tau > 0 and shn[i] for i, tau, _v, ant in case["background"])
        single = (mode == "anticipated" or all(p_[1] == 0 for p_ in pairs)) and not late_surprise
        if single:
            get = sd.getter(pP, spec, unanticipated_only_at=0)
            pP.first = 0
            hist = sd.Paths(PP, spec, start, -Lmax, N - 1)
            getf = sd.getter(hist, spec, unanticipated_only_at=0)
            for t in range(0, N - Fmax):
                r, mag = lm.residuals_as_written(spec, getf, t)
                for i, ri in enumerate(r):
                    col.check(abs(ri) <= 1e-7 * (1 + mag), "planned_path_violates_equation",
                              lambda: f"equation {i} at t={t}: residual {ri!r} on the planned stacked_time path\n{lm.source(spec)}")
        col.done()
        return {"labels": ["judged", "nonlinear_judged"], "nontrivial": True}
    for nm in spec["names"] + (lm.meas_names(spec) if method == "first_order" else []):
        a, b = pP.arr(nm), pT.arr(nm)
        d = np.abs(np.log(a) - np.log(b)) if log else np.abs(a - b)
        worst = float(np.max(d)) if np.all(np.isfinite(d)) else float("inf")
        col.check(worst <= rtol * 10 * scale, "path_not_recovered",
                  lambda: f"{nm}: planned path differs from the truth by {worst:.3e} ({mode}, {method}); pairs={pairs}\n{lm.source(spec)}")
    col.done()
    return {"labels": ["judged"], "nontrivial": True}


# ---------------------------------------------------------------------------
# Two parameter variants with variant-specific targets
# ---------------------------------------------------------------------------

@st.composite
def _variant_case(draw):
    spec = draw(lm.spec_strategy(max_n=3, meas=(0, 1)))
    for p in spec["params"]:
        p["value"] = [p["value"], round(p["value"] * draw(st.sampled_from([0.5, 0.8, 1.2])), 6)]
    N = draw(st.integers(2, 6))
    val = st.floats(-2, 2, allow_nan=False).map(lambda x: round(x, 3)).filter(lambda x: abs(x) > 0.05)
    return {"spec": spec, "N": N, "mode": draw(st.sampled_from(["unanticipated", "anticipated"])),
            "var": draw(st.integers(0, spec["n"] - 1)), "date": draw(st.integers(0, N - 1)),
            "values": [draw(val), draw(val)], "method": draw(st.sampled_from(["first_order", "first_order", "stacked_time"])),
            "deviation": draw(st.booleans())}


def _classify_variant(case):
    return case["values"][0] != case["values"][1], [case["mode"], case["method"], "parameters_differ" if case["spec"]["params"] else "same_parameters"]


def _check_variants(case):
    import copy
    import irispie as ir
    col = Collector()
    spec = case["spec"]
    for v in range(2):
        sv = copy.deepcopy(spec)
        for p in sv["params"]:
            p["value"] = p["value"][v]
        if not _in_domain(sv):
            return {"labels": ["model_not_in_domain"], "nontrivial": False}
    shn = lm.shock_names(spec)
    var, date, mode, method = case["var"], case["date"], case["mode"], case["method"]
    if not shn[var]:
        return {"labels": ["no_usable_pair"], "nontrivial": False}
    dev = case["deviation"] and method == "first_order"
    N = case["N"]
    start = ir.qq(2020, 1)
    Lmax, Fmax = lm.max_lag_lead(spec)
    Lmax = max(Lmax, 1)
    m = api("build_and_solve", lm.build_model, spec, variant_count=2)
    span = start >> (start + N - 1)
    pre = "" if mode == "unanticipated" else "ant_"
    nm, sh = spec["names"][var], pre + shn[var]

    def base_db():
        return sd.steady_db(m, spec, start, -Lmax, N + Fmax + 2, dev)
    # conditioning: own-shock response at the target date, per variant
    dbr = base_db()
    dbr[sh][start + date] = 1.0
    R = api("simulate_response", m.simulate, dbr, span, method="first_order", deviation=dev)
    B = api("simulate_base", m.simulate, base_db(), span, method="first_order", deviation=dev)
    for v in range(2):
        a = float(R[nm].get_data(start + date)[0, v])
        b = float(B[nm].get_data(start + date)[0, v])
        imp = (math.log(a) - math.log(b)) if spec["log"] else (a - b)
        if abs(imp) < 1e-3:
            return {"labels": ["impact_matrix_ill_conditioned"], "nontrivial": False}
    dbT = base_db()
    dbT[sh][start + date] = list(case["values"])             # a list means variants
    PT = api("simulate_truth", m.simulate, dbT, span, method="first_order", deviation=dev)
    dbP = base_db()
    dbP[nm][start + date] = [float(PT[nm].get_data(start + date)[0, v]) for v in range(2)]
    plan = ir.SimulationPlan(m, span)
    if mode == "unanticipated":
        api("plan:swap_unanticipated", plan.swap_unanticipated, start + date, (nm, shn[var]))
    else:
        api("plan:swap_anticipated", plan.swap_anticipated, start + date, (nm, "ant_" + shn[var]))
    kw = dict(method=method, deviation=dev)
    if method == "stacked_time":
        kw = dict(method=method, solver_settings=SOLVER)
    try:
        PP = m.simulate(dbP, span, plan=plan, **kw)
    except Exception as exc:  # noqa: BLE001
        if method == "stacked_time":
            return {"labels": ["stacked_time_failed:" + type(exc).__name__], "nontrivial": False}
        col.fail(f"variants:simulate_with_plan:raises:{type(exc).__name__}", f"{exc}\n{lm.source(spec)}")
        col.done()
    rtol = 1e-8 if method == "first_order" else 1e-6
    if method == "stacked_time" and spec["log"]:
        for v in range(2):
            if _collapsed(spec, sd.Paths(PP, spec, start, 0, N - 1, variant=v), False, variant=v):
                return {"labels": ["collapsed_pseudo_solution"], "nontrivial": False}
    for v in range(2):
        pT = sd.Paths(PT, spec, start, 0, N - 1, variant=v)
        pP = sd.Paths(PP, spec, start, 0, N - 1, variant=v)
        tr = (lambda a: np.log(a)) if spec["log"] else (lambda a: a)
        scale = 1.0 + max(float(np.max(np.abs(tr(pT.arr(x))))) for x in spec["names"])
        for x in spec["names"]:
            d = np.abs(tr(pP.arr(x)) - tr(pT.arr(x)))
            w = float(np.max(d)) if np.all(np.isfinite(d)) else float("inf")
            col.check(w <= 10 * rtol * scale, "variants:path_not_recovered",
                      lambda: f"variant {v}, {x}: planned path differs from that variant's truth by {w:.3e} ({mode}, {method})\n{lm.source(spec)}")
        a = np.nan_to_num(pP.arr(sh))
        b = np.nan_to_num(pT.arr(sh))
        col.check(float(np.max(np.abs(a - b))) <= 10 * rtol * scale, "variants:shock_not_recovered",
                  lambda: f"variant {v}, {sh}: {a.tolist()} expected {b.tolist()} ({mode}, {method})")
    col.done()
    return {"labels": ["judged"], "nontrivial": True}


SUBCHECKS = [
    HypSub("swaps", _case, _check, _classify, budget={"quick": 1200, "thorough": 40000}),
    HypSub("swaps_variants", _variant_case, _check_variants, _classify_variant, budget={"quick": 400, "thorough": 16000}),
]
