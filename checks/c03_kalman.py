"""
C03 - Kalman filter, smoother and likelihood equal exact Gaussian conditioning.

Oracle: vlib.refgauss - the joint Gaussian of all shocks over 200 pre-sample
and N in-sample periods, mapped to variables through simulated impulse
responses (no solution matrix, no Lyapunov solver), conditioned by dense
Cholesky on y_{<t}, y_{<=t}, y_{all}.
"""

import math

import numpy as np
from hypothesis import strategies as st

from vlib import linmodels as lm, simdata as sd, refgauss as rg, kalman_cases as kc
from vlib.runner import HypSub, Collector, api

PROPERTY = "C03"

RULE = (
    "a determinate structural model with 1-3 measurement equations (stable roots <= 0.85), drawn stds (zeros "
    "included), optionally a time-varying std series for one shock (stds_from_data), span 1-8, arbitrary data "
    "offsets, a missing-data mask (cells / a whole period / a whole variable), deviation and rescale_variance "
    "flags. Non-trivial iff at least one cell is missing and at least two periods carry observations."
)

ASSUMPTIONS = [
    "reference = dense Gaussian conditioning on an MA representation truncated at 200 pre-sample periods (first-order simulate() is judged by C01)",
    "cases whose joint covariance of the observed cells has condition number > 1e7 are not judged (singular prediction-error covariance is outside the property)",
    "the initial distribution uses the assigned constant stds also when stds_from_data=True (as the implementation documents: time-varying values apply to the in-sample periods)",
    "absolute tolerance floors scale with the prior standard deviation of the quantity (1e-7 x for means, 1e-8 x variance for variances): smoothed variances that are exactly zero come back as cancellation noise whose size depends on the BLAS build",
    "predict_mse_obs is compared only when rescale_variance=False",
    "unit-root models (kalman_unit_root, default diffuse method) are judged by metamorphic relations only - level mode on the data vs deviation mode on data minus steady state (likelihood, means, stds), contributions summing to the total - because the concentrated likelihood depends on the parameterisation of the unknown initial condition, which the property does not fix",
]

RT_MEAN = 1e-7
RT_STD = 1e-6


def _classify(case):
    spec = case["spec"]
    nmiss = sum(1 for row in case["mask"] for c in row if c)
    nobs_periods = sum(1 for row in case["mask"] if not all(row))
    labels = ["log_rendering" if spec["log"] else "additive_rendering",
              "deviation" if case["deviation"] else "levels"]
    if case["rescale"]:
        labels.append("rescale_variance")
    if case["tv"]:
        labels.append("time_varying_std")
    if any(all(row) for row in case["mask"]):
        labels.append("period_fully_missing")
    if any(all(case["mask"][t][k] for t in range(case["N"])) for k in range(len(spec["meas"]))):
        labels.append("variable_never_observed")
    if any(s == 0 for s in case["std_u"] + case["std_w"]):
        labels.append("zero_std")
    if any(w for w in lm.mshock_names(spec)):
        labels.append("measurement_shock")
    return nmiss >= 1 and nobs_periods >= 2, labels


def _val(db, name, start, t):
    try:
        x = db[name]
    except Exception:  # noqa: BLE001
        return float("nan")
    return float(x.get_data(start + t)[0, 0])


def _close(a, b, rtol, atol):
    if math.isnan(a) or math.isnan(b):
        return math.isnan(a) and math.isnan(b)
    return abs(a - b) <= atol + rtol * abs(b)


def _outside_float_range(out, spec, span):
    """A log-variable whose estimate in logs lies beyond +-709 (an observation loading of 1e-3 or less on the state)
    comes back as inf or 0 in levels: floating-point range, not a wrong moment; such cases are not compared."""
    for step in ("predict", "update", "smooth"):
        for nm in spec["names"] + lm.meas_names(spec):
            a_ = np.asarray(out[f"{step}_med"][nm].get_data(span), dtype=float)
            if np.any(np.isinf(a_)) or np.any(a_ == 0):
                return True
    return False


def _selection(col, case, m, db, span, kwargs, out, info, tag="selection"):
    """Requesting fewer outputs (return_=..., return_predict=False, ...) changes neither the returned values
    nor the likelihood."""
    sel = kc.return_kwargs(case)
    if not sel:
        return
    out_s, info_s = api("kalman_filter_selected", m.kalman_filter, db, span, **kwargs, **sel)
    a, b = float(info_s["neg_log_likelihood"]), float(info["neg_log_likelihood"])
    col.check(_close(a, b, 1e-10, 1e-10), f"{tag}:nll", lambda: f"neg_log_likelihood {a!r} with {sel}, {b!r} with everything returned")
    if out_s is not None:
        kc.compare_selected(col, tag, out_s, out, span)


def _check(case):
    col = Collector()
    spec = case["spec"]
    if not kc.in_domain(spec):
        return {"labels": ["model_not_in_domain"], "nontrivial": False}
    N = case["N"]
    dev = case["deviation"]
    log = spec["log"]
    start = sd.start_period(case["freq"])
    span = start >> (start + N - 1)
    m = api("build_and_solve", lm.build_model, spec, stds=kc.assigned_stds(spec, case))
    su, sw = kc.std_dicts(spec, case)
    tvu, tvw = kc.tv_dicts(spec, case)
    levels, lin = kc.observed_values(spec, case)
    db = kc.input_databox(spec, case, start, levels)

    joint = rg.Joint(spec, m, N, su, sw, tvu, tvw, deviation=dev)
    if joint.tail > 1e-9:
        return {"labels": ["responses_not_decayed"], "nontrivial": False}
    mn = lm.meas_names(spec)
    nm = len(mn)

    def obs_rows(upto):
        rows, vals = [], []
        for t in range(min(upto, N)):
            for k in range(nm):
                if not math.isnan(lin[t, k]):
                    rows.append(joint.row(t, mn[k]))
                    vals.append(lin[t, k])
        return rows, vals

    rows_all, vals_all = obs_rows(N)
    full = joint.condition(rows_all, vals_all)
    if full is None or (rows_all and full.cond_number() > 1e7):
        return {"labels": ["singular_observation_covariance"], "nontrivial": False}
    prefix = []
    for t in range(N):
        r_, v_ = obs_rows(t + 1)
        cj = joint.condition(r_, v_)
        if cj is None:
            return {"labels": ["singular_observation_covariance"], "nontrivial": False}
        prefix.append(cj)

    kwargs = dict(return_info=True, deviation=dev, rescale_variance=case["rescale"])
    if tvu or tvw:
        kwargs["stds_from_data"] = True
    out, info = api("kalman_filter", m.kalman_filter, db, span, **kwargs)
    if log and _outside_float_range(out, spec, span):
        return {"labels": ["log_estimate_outside_float_range"], "nontrivial": False}
    _selection(col, case, m, db, span, kwargs, out, info)

    # ---- likelihood ----------------------------------------------------------
    nll_ref, (n, logdet, quad) = full.nll()
    v = 1.0
    if case["rescale"] and n > 0:
        v = quad / n
        nll_ref = 0.5 * (n * math.log(2 * math.pi) + logdet + n * math.log(v) + n) if v > 0 else float("nan")
    if case["rescale"] and n > 0 and v < 1e-12:
        return {"labels": ["degenerate_variance_scale"], "nontrivial": False}
    got = float(info["neg_log_likelihood"])
    col.check(_close(got, nll_ref, RT_MEAN, 1e-8), "nll:total", lambda: f"neg_log_likelihood {got!r} expected {nll_ref!r}\n{lm.source(spec)}")
    col.check(_close(float(info["var_scale"]), v, 1e-7, 1e-12), "nll:var_scale", lambda: f"var_scale {info['var_scale']!r} expected {v!r}")
    nll2 = api("neg_log_likelihood", m.neg_log_likelihood, db, span, **{k: x for k, x in kwargs.items() if k != "return_info"})
    col.check(_close(float(nll2), nll_ref, RT_MEAN, 1e-8), "nll:method", lambda: f"neg_log_likelihood() {nll2!r} expected {nll_ref!r}")
    contrib = np.asarray(info["neg_log_likelihood_contributions"].get_data(span))[:, 0]
    col.check(_close(float(np.sum(contrib)), got, 1e-9, 1e-9), "nll:contributions_sum",
              lambda: f"contributions sum {float(np.sum(contrib))!r} != total {got!r} (rescale_variance={case['rescale']})")
    prev = 0.0
    for t in range(N):
        cj = prefix[t]
        tot, (n_t, ld_t, q_t) = cj.nll()
        if case["rescale"]:
            tot = 0.5 * (n_t * math.log(2 * math.pi) + ld_t + n_t * math.log(v) + q_t / v)
        c_ref = tot - prev
        prev = tot
        if all(case["mask"][t]):
            col.check(contrib[t] == 0, "nll:empty_period_contributes", lambda: f"period {t} has no observation but contributes {contrib[t]!r}")
        col.check(_close(float(contrib[t]), c_ref, 1e-6, 1e-7), "nll:contribution",
                  lambda: f"period {t}: contribution {contrib[t]!r} expected {c_ref!r} (rescale_variance={case['rescale']})")
    sscale = math.sqrt(v)

    # ---- moments -----------------------------------------------------------------
    def name_med(nm_):
        return nm_

    def name_std(nm_):
        return f"log({nm_})" if log else nm_

    def tr(x):
        return math.log(x) if (log and x > 0) else x

    shocks_u = [s for s in lm.shock_names(spec) if s]
    shocks_w = [w for w in lm.mshock_names(spec) if w]
    none = joint.condition([], [])
    for t in range(N):
        cpred = prefix[t - 1] if t > 0 else none
        cupd = prefix[t]
        steps = (("predict", cpred), ("update", cupd), ("smooth", full))
        for step, cj in steps:
            med, std = out[f"{step}_med"], out[f"{step}_std"]
            for nm_ in spec["names"]:
                row = joint.row(t, nm_)
                g = tr(_val(med, name_med(nm_), start, t))
                e = cj.mean_of_row(row)
                psd = math.sqrt(max(none.var_of_row(row), 0.0))      # prior std: the scale of rounding noise
                col.check(_close(g, e, RT_MEAN, 1e-7 * max(1.0, psd, abs(joint.mean[row]))), f"{step}_med:transition",
                          lambda: f"{step}_med[{nm_}] t={t}: {g!r} expected {e!r}\n{lm.source(spec)}")
                gs = _val(std, name_std(nm_), start, t)
                ev_ = max(cj.var_of_row(row), 0.0) * v
                es = math.sqrt(ev_)
                # compared as variances: a zero variance comes back as the square root of rounding noise
                vtol = 2 * RT_STD * ev_ + 1e-8 * max(1.0, none.var_of_row(row) * v)
                col.check(not math.isnan(gs) and abs(gs * gs - ev_) <= vtol, f"{step}_std:transition",
                          lambda: f"{step}_std[{nm_}] t={t}: {gs!r} expected {es!r}\n{lm.source(spec)}")
            if step == "predict":
                for s in shocks_u + shocks_w:
                    g = _val(med, s, start, t)
                    col.check(_close(g, 0.0, 0, 1e-12), "predict_med:shock", lambda: f"predict_med[{s}] t={t}: {g!r} expected 0")
                    gs = _val(std, s, start, t)
                    c_ = joint.u_col(s, t) if s in shocks_u else joint.w_col(s, t)
                    es = math.sqrt(joint.d[c_]) * sscale
                    col.check(_close(gs, es, RT_STD, 1e-9), "predict_std:shock", lambda: f"predict_std[{s}] t={t}: {gs!r} expected {es!r}")
            else:
                for s in shocks_u + shocks_w:
                    c_ = joint.u_col(s, t) if s in shocks_u else joint.w_col(s, t)
                    g = _val(med, s, start, t)
                    e = cj.mean_of_e(c_)
                    col.check(_close(g, e, RT_MEAN, 1e-7 * max(1.0, math.sqrt(joint.d[c_]))), f"{step}_med:shock",
                              lambda: f"{step}_med[{s}] t={t}: {g!r} expected {e!r}\n{lm.source(spec)}")
        # measurement variables: prediction, prediction error, prediction MSE
        obs_k = [k for k in range(nm) if not math.isnan(lin[t, k])]
        for k in range(nm):
            row = joint.row(t, mn[k])
            g = tr(_val(out["predict_med"], mn[k], start, t))
            pe = _val(out["predict_err"], f"log({mn[k]})" if log else mn[k], start, t)
            if k in obs_k:
                e = cpred.mean_of_row(row)
                col.check(_close(g, e, RT_MEAN, 1e-7 * max(1.0, abs(e))), "predict_med:measurement", lambda: f"predict_med[{mn[k]}] t={t}: {g!r} expected {e!r}")
                col.check(_close(pe, lin[t, k] - e, 1e-6, 1e-8), "predict_err", lambda: f"predict_err[{mn[k]}] t={t}: {pe!r} expected {lin[t, k] - e!r}")
                for step in ("update", "smooth"):
                    gu = tr(_val(out[f"{step}_med"], mn[k], start, t))
                    col.check(_close(gu, lin[t, k], 1e-9, 1e-10), f"{step}_med:measurement_equals_data",
                              lambda: f"{step}_med[{mn[k]}] t={t}: {gu!r} data {lin[t, k]!r}")
            else:
                col.check(math.isnan(pe), "predict_err:missing_cell", lambda: f"predict_err[{mn[k]}] t={t} is {pe!r} for a missing observation")
        if not case["rescale"]:
            F = out["predict_mse_obs"][0][t]
            Fref = cpred.cov_of_rows([joint.row(t, mn[k]) for k in obs_k]) if obs_k else np.zeros((0, 0))
            F = np.asarray(F)
            if F.shape != Fref.shape:
                col.fail("predict_mse_obs:shape", f"t={t}: {F.shape} expected {Fref.shape}")
            elif F.size:
                err = float(np.max(np.abs(F - Fref)))
                col.check(err <= 1e-9 + 1e-6 * float(np.max(np.abs(Fref))), "predict_mse_obs:value", lambda: f"t={t}: differs by {err:.3e}")
        if col.items:
            break
    col.done()
    return None


# ---------------------------------------------------------------------------
# Unit-root models under the default diffuse method: metamorphic oracle
# ---------------------------------------------------------------------------

def _check_unit_root(case):
    """Level mode on the data must equal deviation mode on data minus steady state: same likelihood, same
    standard deviations, means shifted by the steady state (ratio for log-variables)."""
    from checks import c08_smoother as c08
    col = Collector()
    prep = c08.prepare_unit_root(case)
    if isinstance(prep, dict):
        return prep
    case, spec, m, start, xs, ys = prep
    N, log = case["N"], spec["log"]
    span = start >> (start + N - 1)
    res = {}
    for dev in (False, True):
        levels, lin = c08._observed(spec, case, dev, ys)
        db = kc.input_databox(spec, dict(case, deviation=dev), start, levels)
        kwargs = dict(return_info=True, deviation=dev, rescale_variance=case["rescale"])
        out, info = api("kalman_filter", m.kalman_filter, db, span, **kwargs)
        _selection(col, case, m, db, span, kwargs, out, info, tag="unit_root:selection")
        nllm = api("neg_log_likelihood", m.neg_log_likelihood, db, span, **{k: x for k, x in kwargs.items() if k != "return_info"})
        a_, b_ = float(nllm), float(info["neg_log_likelihood"])
        if math.isfinite(a_) and math.isfinite(b_):
            col.check(_close(a_, b_, 1e-9, 1e-9), "unit_root:nll_method", lambda: f"neg_log_likelihood() {a_!r}, kalman_filter info {b_!r} (deviation={dev})\n{lm.source(spec)}")
        res[dev] = (out, info)
        contrib = np.asarray(info["neg_log_likelihood_contributions"].get_data(span))[:, 0]
        tot = float(info["neg_log_likelihood"])
        if math.isfinite(tot):
            col.check(_close(float(np.sum(contrib)), tot, 1e-9, 1e-9), "unit_root:contributions_sum", lambda: f"{float(np.sum(contrib))!r} vs {tot!r} (deviation={dev})")
        for t in range(N):
            if all(case["mask"][t]):
                col.check(contrib[t] == 0, "unit_root:empty_period_contributes", lambda: f"period {t}: {contrib[t]!r}")
    (oL, iL), (oD, iD) = res[False], res[True]
    a, b = float(iL["neg_log_likelihood"]), float(iD["neg_log_likelihood"])
    if case["rescale"] and (min(float(iL["var_scale"]), float(iD["var_scale"])) < 1e-10 or not (math.isfinite(a) and math.isfinite(b))):
        # the unknown initial condition fits the few observations perfectly: the variance scale is zero
        return {"labels": ["degenerate_variance_scale"], "nontrivial": False}
    col.check(_close(a, b, 1e-7, 1e-7), "unit_root:likelihood_level_vs_deviation", lambda: f"level mode {a!r}, deviation mode {b!r}\n{lm.source(spec)}")
    col.check(_close(float(iL["var_scale"]), float(iD["var_scale"]), 1e-7, 1e-9), "unit_root:var_scale_level_vs_deviation", "")
    steady = dict(zip(spec["names"], xs))
    steady.update(zip(lm.meas_names(spec), ys))
    if log and (_outside_float_range(oL, spec, span) or _outside_float_range(oD, spec, span)):
        return {"labels": ["log_estimate_outside_float_range"], "nontrivial": False}
    for step in ("predict", "update", "smooth"):
        for nm in spec["names"]:
            for t in range(N):
                gL, gD = _val(oL[f"{step}_med"], nm, start, t), _val(oD[f"{step}_med"], nm, start, t)
                if log:
                    gL, gD = (math.log(gL) if gL > 0 else float("nan")), (math.log(gD) if gD > 0 else float("nan"))
                col.check(_close(gL - steady[nm], gD, 1e-7, 1e-6 * (1 + abs(steady[nm]))), f"unit_root:{step}_med_level_vs_deviation",
                          lambda: f"{step}_med[{nm}] t={t}: level {gL!r} - steady {steady[nm]!r} vs deviation {gD!r}\n{lm.source(spec)}")
                sname = f"log({nm})" if log else nm
                sL, sD = _val(oL[f"{step}_std"], sname, start, t), _val(oD[f"{step}_std"], sname, start, t)
                col.check(_close(sL, sD, 1e-6, 1e-6), f"unit_root:{step}_std_level_vs_deviation", lambda: f"{step}_std[{nm}] t={t}: {sL!r} vs {sD!r}")
    col.done()
    return {"labels": ["judged"], "nontrivial": True}


# ---------------------------------------------------------------------------
# Parameter variants: one run over a two-variant model against two singleton models
# ---------------------------------------------------------------------------

@st.composite
def _variants_case(draw):
    case = draw(kc.kalman_case())
    n, nm = case["spec"]["n"], len(case["spec"]["meas"])
    std = st.sampled_from([1.0, 0.5, 2.0, 1.3, 0.2, 3.0])
    case["std_u2"] = [draw(std) for _ in range(n)]
    case["std_w2"] = [draw(std) for _ in range(nm)]
    case["pmul"] = draw(st.sampled_from([1.0, 1.0, 0.8, 1.2, 0.5]))
    return case


def _classify_variants(case):
    nontrivial, labels = _classify(case)
    labels = list(labels)
    if case["pmul"] != 1.0 and case["spec"]["params"]:
        labels.append("parameters_differ_across_variants")
    if case["std_u2"] != case["std_u"]:
        labels.append("transition_stds_differ_across_variants")
    return True, labels


def _check_variants(case):
    """Variant v of one kalman_filter run over a two-variant model equals the run of a singleton model that the
    harness builds from variant v's values (the singleton run itself is judged against exact conditioning above)."""
    import copy
    col = Collector()
    spec2 = copy.deepcopy(case["spec"])
    for p in spec2["params"]:
        p["value"] = [p["value"], round(p["value"] * case["pmul"], 6)]
    singles = []
    for v in range(2):
        sv = copy.deepcopy(case["spec"])
        for p, p2 in zip(sv["params"], spec2["params"]):
            p["value"] = p2["value"][v]
        if not kc.in_domain(sv):
            return {"labels": ["model_not_in_domain"], "nontrivial": False}
        singles.append(sv)
    N, dev = case["N"], case["deviation"]
    start = sd.start_period(case["freq"])
    span = start >> (start + N - 1)
    cases = [case, dict(case, std_u=case["std_u2"], std_w=case["std_w2"])]
    a0, a1 = kc.assigned_stds(singles[0], cases[0]), kc.assigned_stds(singles[1], cases[1])
    m2 = api("build_and_solve_two_variants", lm.build_model, spec2, variant_count=2, stds={k: [a0[k], a1[k]] for k in a0})
    levels, _ = kc.observed_values(singles[0], case)
    db = kc.input_databox(singles[0], case, start, levels)
    kwargs = dict(return_info=True, deviation=dev, rescale_variance=case["rescale"])
    if any(kc.tv_dicts(singles[0], case)):
        kwargs["stds_from_data"] = True
    single_runs = []
    for v in range(2):
        m1 = api("build_and_solve", lm.build_model, singles[v], stds=(a0, a1)[v])
        try:
            single_runs.append(m1.kalman_filter(db, span, **kwargs))
        except Exception:  # noqa: BLE001 - the singleton run is judged by the sub-check above (singular cases are excluded there)
            return {"labels": ["singleton_run_raises"], "nontrivial": False}
    out2, info2 = api("kalman_filter_two_variants", m2.kalman_filter, db, span, **kwargs)
    col.check(isinstance(info2, (list, tuple)) and len(info2) == 2, "variants:info_count", lambda: f"info is {type(info2).__name__} of length {len(info2) if hasattr(info2, '__len__') else None}")
    col.done()
    for v in range(2):
        out1, info1 = single_runs[v]
        a, b = float(info2[v]["neg_log_likelihood"]), float(info1["neg_log_likelihood"])
        if not (math.isfinite(a) and math.isfinite(b)):
            return {"labels": ["non_finite_likelihood"], "nontrivial": False}
        col.check(_close(a, b, 1e-9, 1e-9), "variants:nll", lambda: f"variant {v}: neg_log_likelihood {a!r} in the two-variant run, {b!r} for the singleton model\n{lm.source(singles[v])}")
        col.check(_close(float(info2[v]["var_scale"]), float(info1["var_scale"]), 1e-9, 1e-12), "variants:var_scale",
                  lambda: f"variant {v}: var_scale {info2[v]['var_scale']!r} vs {info1['var_scale']!r}")
        c2 = np.asarray(info2[v]["neg_log_likelihood_contributions"].get_data(span), dtype=float).ravel()
        c1 = np.asarray(info1["neg_log_likelihood_contributions"].get_data(span), dtype=float).ravel()
        col.check(c2.shape == c1.shape and bool(np.allclose(c2, c1, rtol=1e-8, atol=1e-9, equal_nan=True)), "variants:nll_contributions",
                  lambda: f"variant {v}: contributions {c2.tolist()} vs {c1.tolist()}")
        for key in out1.keys():
            if key == "predict_mse_obs":
                for t, (x, y) in enumerate(zip(out2[key][v], out1[key][0])):
                    x, y = np.asarray(x, dtype=float), np.asarray(y, dtype=float)
                    col.check(x.shape == y.shape and bool(np.allclose(x, y, rtol=1e-8, atol=1e-10, equal_nan=True)), "variants:predict_mse_obs",
                              lambda: f"variant {v} t={t}: {x.tolist()} vs {y.tolist()}")
                continue
            for name in out1[key].keys():
                y = np.asarray(out1[key][name].get_data(span), dtype=float)[:, 0]
                x_all = np.asarray(out2[key][name].get_data(span), dtype=float)
                if not col.check(x_all.ndim == 2 and x_all.shape[1] == 2, f"variants:{key}:columns", lambda: f"{key}[{name}] has shape {x_all.shape}"):
                    continue
                x = x_all[:, v]
                scale = max(1.0, float(np.nanmax(np.abs(y), initial=0.0)))
                col.check(bool(np.allclose(x, y, rtol=1e-8, atol=1e-9 * scale, equal_nan=True)), f"variants:{key}",
                          lambda: f"variant {v}: {key}[{name}] = {x.tolist()} in the two-variant run, {y.tolist()} for the singleton model\n{lm.source(singles[v])}")
    col.done()
    return {"labels": ["judged"], "nontrivial": True}


def _unit_root_strategy():
    from checks import c08_smoother as c08
    return c08._unit_root_case()


SUBCHECKS = [
    HypSub("kalman", kc.kalman_case, _check, _classify, budget={"quick": 1200, "thorough": 16000}),
    HypSub("kalman_unit_root", _unit_root_strategy, _check_unit_root, _classify, budget={"quick": 400, "thorough": 8000}),
    HypSub("kalman_variants", _variants_case, _check_variants, _classify_variants, budget={"quick": 300, "thorough": 5000}),
]
