"""
C14 - Trend filters return the optimum of their problem; trend plus gap is the data.

hpf:  the harness minimises  sum_obs (y - tau)^2 + lambda * sum (D2 tau)^2  subject to
      tau_t = L_t and tau_t - tau_{t-1} = C_t  by its own null-space / least-squares
      method (SVD of the constraint matrix, QR least squares on the stacked residual
      operator; never the bordered normal equations the library uses) and compares.
lonf: optimality (KKT) conditions of  1/2 ||y - x||^2 + lambda ||D x||_1  checked on
      the returned trend with the dual variable recovered from gap = D' nu.
"""

import math
import re

import numpy as np
from hypothesis import strategies as st

from vlib import refcal, pgen, refseries as rs
from vlib.runner import HypSub, Collector, api

PROPERTY = "C14"

RULE = (
    "hpf: drawn series (all six frequencies, length 3..40, 1-3 variants, interior/leading/trailing NaNs with >=2 "
    "observations per variant) x smoothing (log-uniform 1e-2..1e6, conventional values, None=default) x log x up to 3 "
    "level and 3 change constraints at drawn dates inside and outside the data (rank-checked, consistent by "
    "construction) x output span (None, inside, equal, beyond, disjoint) given as Span or tuple of periods; "
    "non-trivial iff at least one interior NaN or one constraint or an output span different from the data span. "
    "hpf_line: exactly linear (log-linear under log=True) data with NaNs, consistent constraints, spans beyond the "
    "data; same rule. lonf: complete series (3..40 periods, 1-3 variants, orders 1 and 2, smoothing 1e-2..1e2, "
    "span None or a sub-span); non-trivial iff some variant's solution has both active and inactive dual "
    "constraints (trend neither the data nor the polynomial fit) and (>=2 variants or explicit span or length>=6)"
)

ASSUMPTIONS = [
    "the Hodrick-Prescott objective is read as sum_obs (y-tau)^2 + smooth * sum (second difference of tau)^2, i.e. "
    "smooth multiplies the smoothness term (conventional lambda; documented defaults 100/400/1600 only make sense "
    "this way); the formula in the hpf docstring prints lambda in front of the fit term instead - treated as a "
    "misprint of the documentation, not asserted",
    "documented default smoothing values are read at run time from the table in the Series.hpf docstring (fallback: "
    "the table as of irispie 0.71.16) and compared with what smooth=None does",
    "level/change constraint series are single-variant and are applied to every variant of the data (the docstring "
    "does not describe multi-variant constraints; the code uses their first variant)",
    "a change constraint dated at the first period of the filter span (no earlier trend value exists; the library "
    "drops it) is not generated",
    "every variant has at least two observations (otherwise the HP minimiser is not unique); all-missing variants "
    "and empty series are not generated; constraint sets are linearly independent (rank checked by the harness)",
    "constraints are judged met within max(1e-9, 1e-13*smooth)*(1+|value|): the rounding residual of the library's "
    "bordered linear solve grows in proportion to smooth (measured 2e-16*smooth)",
    "under log=True data, level constraints and change constraints (gross rates) are positive",
    "output spans are contiguous ranges within 6 periods of the data; only min/max of the span are meaningful to hpf",
    "hpf tolerance: |trend-ref| <= max(1e-9, 1e-14*cond, 1e-13*smooth) * (1+max|ref|) (in logarithms under log=True) "
    "with cond the condition number of the reduced (null-space) Hessian computed by the harness; measured library "
    "error is about 1e-17*cond and 2e-16*smooth at worst; the generator bounds cond <= ~1e10 by construction (smooth <= 1e6, "
    "filter span <= 60 periods)",
    "lonf objective convention is 1/2*||y-x||^2 + smooth*||D x||_1 (Kim-Koh-Boyd-Gorinevsky), D the first/second "
    "difference operator; the docstring of lonf is empty, the convention is taken from the dual QP in the code",
    "lonf with missing observations (or spans reaching outside the data) is undefined in the code (the QP gets NaNs) "
    "and is not generated",
    "lonf dual feasibility is judged as |nu| <= smooth*(1+1e-6) + 2e-6: the absolute term is the primal_tol=1e-6 of "
    "the daqp active-set solver that lonf uses with default settings (measured: a bound violated by < 1e-6 in "
    "absolute terms is not activated, independent of smooth and of the length)",
    "lonf with an explicit sub-span: the docstring does not say whether span restricts the data or clips the "
    "output; either reading is accepted (optimal for the data on the span, or equal to the clipped full-sample "
    "result)",
    "lonf has a functional form only (no Series method exists)",
]

# ---------------------------------------------------------------------------
# tolerances
# ---------------------------------------------------------------------------

IDENT_RTOL = 1e-12          # trend+gap == data
CONSTR_TOL = 1e-9           # constraints met (or REF_RTOL_LAMBDA * smooth: measured residual ~ 2e-16 * smooth)
REF_RTOL_MIN = 1e-9         # reference comparison, floor
REF_RTOL_COND = 1e-14       # ... or this times cond of the reduced Hessian
REF_RTOL_LAMBDA = 1e-13     # ... or this times smooth (the library solves a bordered system with entries of size smooth)
PG_RTOL = 1e-9              # projected gradient relative to |Q||tau|+|b|
FORM_RTOL = 1e-12           # different entry points, same computation
DEFAULT_RTOL = 1e-9         # smooth=None against the documented value (material differences only)
LONF_FEAS_REL = 1e-6
LONF_FEAS_ABS = 2e-6        # daqp primal_tol (1e-6) + recovery noise
LONF_OBJ_REL = 1e-6

DOC_DEFAULTS_FALLBACK = {"YEARLY": 100.0, "HALF-YEARLY": 400.0, "QUARTERLY": 1600.0, "MONTHLY": 144000.0, "Otherwise": 1600.0}
FREQ_DOC_NAME = {1: "YEARLY", 2: "HALF-YEARLY", 4: "QUARTERLY", 12: "MONTHLY", 365: "Otherwise", 0: "Otherwise"}


_BLAS_PID = [None]


def _single_thread_blas():
    """Performance only: the matrices here are tiny and 16 shard processes each spinning a multi-threaded OpenBLAS
    pool slow each other down by two orders of magnitude.  Results do not depend on this (never raises)."""
    import os
    if _BLAS_PID[0] == os.getpid():
        return
    _BLAS_PID[0] = os.getpid()
    try:
        import ctypes
        libs = set()
        with open("/proc/self/maps") as fh:
            for line in fh:
                m = re.search(r"(/\S*openblas\S*\.so\S*)", line)
                if m:
                    libs.add(m.group(1))
        for path in sorted(libs):
            lib = ctypes.CDLL(path)
            for name in ("scipy_openblas_set_num_threads64_", "scipy_openblas_set_num_threads",
                         "openblas_set_num_threads64_", "openblas_set_num_threads"):
                fn = getattr(lib, name, None)
                if fn is not None:
                    fn(1)
                    break
    except Exception:  # noqa: BLE001 - optional speed-up only
        pass


def _ir():
    _single_thread_blas()
    import irispie as ir
    return ir


def _rtol(cond, lam):
    return max(REF_RTOL_MIN, REF_RTOL_COND * cond, REF_RTOL_LAMBDA * lam)


_DOC_CACHE = {}


def documented_defaults():
    """Default smoothing table parsed from the hpf docstring of the tree under test."""
    if "t" in _DOC_CACHE:
        return _DOC_CACHE["t"]
    ir = _ir()
    table = {}
    doc = getattr(getattr(ir.Series, "hpf", None), "__doc__", None) or ""
    for m in re.finditer(r"^\s*\|\s*`?([A-Za-z-]+)`?\s*\|\s*([\d,]+)\s*$", doc, re.M):
        table[m.group(1)] = float(m.group(2).replace(",", ""))
    source = "docstring"
    if set(table) != set(DOC_DEFAULTS_FALLBACK):
        table, source = dict(DOC_DEFAULTS_FALLBACK), "fallback"
    _DOC_CACHE["t"] = (table, source)
    return _DOC_CACHE["t"]


# ---------------------------------------------------------------------------
# reference mathematics
# ---------------------------------------------------------------------------

def diff_matrix(n, order):
    """(n-order) x n difference operator: order 1 -> x[t+1]-x[t]; order 2 -> x[t]-2x[t+1]+x[t+2]."""
    coef = (-1.0, 1.0) if order == 1 else (1.0, -2.0, 1.0)
    D = np.zeros((max(n - order, 0), n))
    for i in range(n - order):
        D[i, i:i + order + 1] = coef
    return D


def constraint_matrix(n, lev, chg):
    """Rows e_i (level at index i) and e_i - e_{i-1} (change at index i >= 1)."""
    rows, rhs = [], []
    for i, v in lev:
        r = np.zeros(n)
        r[i] = 1.0
        rows.append(r)
        rhs.append(v)
    for i, v in chg:
        r = np.zeros(n)
        r[i] = 1.0
        r[i - 1] = -1.0
        rows.append(r)
        rhs.append(v)
    if not rows:
        return np.zeros((0, n)), np.zeros(0)
    return np.array(rows), np.array(rhs, dtype=float)


class HPRef:
    """Constrained HP minimiser on n periods, observation pattern `obs`, by the null-space method."""

    def __init__(self, n, lam, lev_idx, chg_idx):
        self.n, self.lam = n, float(lam)
        self.K = diff_matrix(n, 2)
        A, _ = constraint_matrix(n, [(i, 0.0) for i in lev_idx], [(i, 0.0) for i in chg_idx])
        self.A = A
        if A.shape[0]:
            U, s, Vt = np.linalg.svd(A, full_matrices=True)
            if s.min() < 1e-6:
                raise AssertionError("harness: dependent constraints reached the reference")
            r = A.shape[0]
            self.N = Vt[r:].T
            self.pinv = Vt[:r].T @ np.diag(1.0 / s) @ U.T
        else:
            self.N = np.eye(n)
            self.pinv = np.zeros((n, 0))

    def solve(self, y, c):
        """y: data with NaN for missing; c: constraint right-hand sides (levels then changes)."""
        n, lam = self.n, self.lam
        obs = ~np.isnan(y)
        sel = np.eye(n)[obs]
        B = np.vstack([sel, math.sqrt(lam) * self.K])
        d = np.concatenate([y[obs], np.zeros(n - 2)])
        x0 = self.pinv @ c if self.A.shape[0] else np.zeros(n)
        if self.N.shape[1] == 0:
            return x0, 1.0
        BN = B @ self.N
        z, _, rank, sv = np.linalg.lstsq(BN, d - B @ x0, rcond=None)
        if rank < BN.shape[1]:
            raise AssertionError("harness: HP problem without a unique minimiser reached the reference")
        cond = float((sv.max() / sv.min()) ** 2)
        tau = x0 + self.N @ z
        return tau, cond

    def projected_gradient(self, y, tau):
        """N'(Q tau - b) and a scale for it, Q = W + lam K'K, b = W y."""
        obs = ~np.isnan(y)
        w = obs.astype(float)
        y0 = np.where(obs, y, 0.0)
        KtK = self.K.T @ self.K
        g = w * tau + self.lam * (KtK @ tau) - w * y0
        scale = w * np.abs(tau) + self.lam * (np.abs(KtK) @ np.abs(tau)) + w * np.abs(y0)
        return self.N.T @ g, (float(scale.max()) if scale.size else 0.0) + 1e-6


def constraints_independent(n, lev_idx, chg_idx):
    A, _ = constraint_matrix(n, [(i, 0.0) for i in lev_idx], [(i, 0.0) for i in chg_idx])
    if A.shape[0] == 0:
        return True
    if A.shape[0] > n:
        return False
    return bool(np.linalg.svd(A, compute_uv=False).min() > 1e-3)


# ---------------------------------------------------------------------------
# generators (shared pieces)
# ---------------------------------------------------------------------------

def _vals(lo, hi):
    return st.one_of(
        st.integers(int(math.ceil(lo * 8)), int(math.floor(hi * 8))).map(lambda k: k / 8.0),
        st.floats(lo, hi, allow_nan=False, allow_infinity=False, width=64),
    )


_SMOOTH = st.one_of(
    st.floats(-2.0, 6.0, allow_nan=False, width=64).map(lambda e: float(10.0 ** e)),
    st.sampled_from([100.0, 400.0, 1600.0, 14400.0, 1.0, 10.0, 6.25, 129600.0]),
    st.integers(1, 2000).map(float),
)

_LONF_SMOOTH = st.one_of(
    st.floats(-2.0, 2.0, allow_nan=False, width=64).map(lambda e: float(10.0 ** e)),
    st.sampled_from([0.125, 0.5, 1.0, 2.0, 10.0]),
)


def _start(draw, f):
    if f == 0:
        return {"f": 0, "n": draw(st.integers(-60, 60))}
    return draw(pgen.period_desc(freq=f, margin_years=30))


def _len(draw, lo=3, hi=40):
    return draw(st.one_of(st.integers(lo, min(hi, 12)), st.integers(lo, hi)))


def _mask_rows(draw, n, nv, values):
    """Blank drawn cells; keep >= 2 observations per variant and the first/last row observed in variant 0."""
    rows = [[values[t][v] for v in range(nv)] for t in range(n)]
    if draw(st.integers(0, 3)) == 0:
        return rows
    blanks = draw(st.lists(st.tuples(st.integers(0, n - 1), st.integers(0, nv - 1)), min_size=0, max_size=max(1, n * nv // 3)))
    keep = {(0, 0), (n - 1, 0)}
    for v in range(1, nv):
        a = draw(st.integers(0, n - 2))
        b = draw(st.integers(a + 1, n - 1))
        keep |= {(a, v), (b, v)}
    for (t, v) in blanks:
        if (t, v) not in keep:
            rows[t][v] = None
    return rows


def _span_arg(ir, f, lo, span, span_as):
    if span is None:
        return None
    a, b = lo + span[0], lo + span[1]
    if span_as == "tuple":
        return tuple(rs.period_at(f, t) for t in range(a, b + 1))
    return ir.Span(rs.period_at(f, a), rs.period_at(f, b))


def _constraint_series(f, lo, pairs):
    if not pairs:
        return None
    ref = rs.Ref(f, 1)
    for off, val in pairs:
        ref.set(lo + off, 0, val)
    return rs.build(ref)


def _snapshot(x):
    if x is None:
        return None
    return (repr(x.start), x.get_data().tobytes(), x.get_data().shape)


def _span_class(n, span):
    if span is None:
        return "span_default"
    a, b = span
    if (a, b) == (0, n - 1):
        return "span_equal"
    if a > n - 1 or b < 0:
        return "span_disjoint"
    if a >= 0 and b <= n - 1:
        return "span_inside"
    return "span_beyond"


def _interior_nan(rows):
    """Interior missing value of some variant: a None between two observations of that variant."""
    if not rows:
        return False
    for v in range(len(rows[0])):
        col = [r[v] is not None for r in rows]
        if True in col:
            first, last = col.index(True), len(col) - 1 - col[::-1].index(True)
            if not all(col[first:last + 1]):
                return True
    return False


def _filter_layout(n, span, level, change):
    """Filter span [e0, e1] in offsets relative to the data start."""
    starts = [0] + [o for o, _ in level] + [o for o, _ in change]
    ends = [n - 1] + [o for o, _ in level] + [o for o, _ in change]
    if span is not None:
        starts.append(span[0])
        ends.append(span[1])
    return min(starts), max(ends)


@st.composite
def _constraints(draw, n, span, log, base, max_each=3):
    """Level and change constraints (offset, value), independent, change never at the first filter period."""
    if draw(st.integers(0, 2)) == 0:
        return [], []
    offs = st.one_of(st.integers(0, n - 1), st.integers(-4, n + 3))
    lv = _vals(0.25, 5.0) if log else _vals(-5.0, 5.0)
    cv = _vals(0.8, 1.25) if log else _vals(-2.0, 2.0)
    level = draw(st.lists(st.tuples(offs, lv), min_size=0, max_size=max_each, unique_by=lambda t: t[0]))
    level = [[o, (v if log else v + base)] for o, v in level]
    change = draw(st.lists(st.tuples(offs, cv), min_size=0, max_size=max_each, unique_by=lambda t: t[0]))
    e_no_change = min([0] + [o for o, _ in level] + ([span[0]] if span is not None else []))
    change = [[o, v] for o, v in change if o > e_no_change]
    # keep an independent subset (levels first)
    e0, e1 = _filter_layout(n, span, level, change)
    m = e1 - e0 + 1
    kept_l, kept_c = [], []
    for o, v in sorted(level):
        if constraints_independent(m, [x[0] - e0 for x in kept_l] + [o - e0], []):
            kept_l.append([o, v])
    for o, v in sorted(change):
        if constraints_independent(m, [x[0] - e0 for x in kept_l], [x[0] - e0 for x in kept_c] + [o - e0]):
            kept_c.append([o, v])
    return kept_l, kept_c


def _draw_span(draw, n):
    kind = draw(st.integers(0, 5))
    if kind == 0:
        return None
    if kind == 1:
        return [0, n - 1]
    if kind == 2:       # inside
        a = draw(st.integers(0, n - 1))
        return [a, draw(st.integers(a, n - 1))]
    if kind == 3:       # beyond on either side
        return [-draw(st.integers(0, 6)), n - 1 + draw(st.integers(0, 6))]
    a = draw(st.integers(-6, n + 5))
    return [a, draw(st.integers(a, n + 5))]


# ---------------------------------------------------------------------------
# hpf: general cases
# ---------------------------------------------------------------------------

@st.composite
def _hpf_case(draw):
    f = draw(st.sampled_from(refcal.ALL))
    log = draw(st.booleans())
    n = _len(draw)
    nv = draw(st.integers(1, 3))
    base = 0.0 if log else draw(st.sampled_from([0.0, 0.0, 10.0, 100.0, -40.0]))
    vals = _vals(0.25, 5.0) if log else _vals(-5.0, 5.0)
    values = draw(st.lists(st.lists(vals, min_size=nv, max_size=nv), min_size=n, max_size=n))
    if base:
        values = [[x + base for x in row] for row in values]
    rows = _mask_rows(draw, n, nv, values)
    span = _draw_span(draw, n)
    level, change = draw(_constraints(n, span, log, base))
    smooth = None if draw(st.integers(0, 7)) == 7 else draw(_SMOOTH)
    return {
        "x": {"f": f, "start": _start(draw, f), "nv": nv, "rows": rows},
        "smooth": smooth, "log": log, "level": level, "change": change,
        "span": span, "span_as": draw(st.sampled_from(["span", "span", "tuple"])),
        "pad": [draw(st.integers(0, 2)), draw(st.integers(0, 2))],
    }


def _classify_hpf(case):
    x = case["x"]
    n = len(x["rows"])
    sc = _span_class(n, case["span"])
    labels = [f"freq_{refcal.LETTER[x['f']]}", f"nv_{x['nv']}", sc, "log" if case["log"] else "nolog",
              "smooth_default" if case["smooth"] is None else "smooth_given"]
    inan = _interior_nan(x["rows"])
    if inan:
        labels.append("interior_nan")
    if case["level"]:
        labels.append("level_constraint")
    if case["change"]:
        labels.append("change_constraint")
    if case["level"] and case["change"]:
        labels.append("level_and_change")
    if any(o < 0 or o > n - 1 for o, _ in case["level"] + case["change"]):
        labels.append("constraint_outside_data")
    nontrivial = inan or bool(case["level"]) or bool(case["change"]) or sc not in ("span_default", "span_equal")
    return nontrivial, labels


def _tf(log):
    return (np.log, np.exp) if log else ((lambda z: np.asarray(z, dtype=float)), (lambda z: z))


def _hpf_reference(case, lam, e0, e1):
    """Reference trend on the filter span [e0, e1] (offsets): array (m, nv) in original units, and cond."""
    rows = case["x"]["rows"]
    n, nv = len(rows), case["x"]["nv"]
    fwd, bwd = _tf(case["log"])
    m = e1 - e0 + 1
    lev = sorted((o - e0, v) for o, v in case["level"])
    chg = sorted((o - e0, v) for o, v in case["change"])
    ref = HPRef(m, lam, [i for i, _ in lev], [i for i, _ in chg])
    c = fwd(np.array([v for _, v in lev] + [v for _, v in chg], dtype=float)) if (lev or chg) else np.zeros(0)
    out = np.full((m, nv), np.nan)
    ys = []
    worst_cond = 1.0
    for v in range(nv):
        y = np.full(m, np.nan)
        for t in range(n):
            if rows[t][v] is not None:
                y[t - e0] = fwd(rows[t][v])
        tau, cond = ref.solve(y, c)
        out[:, v] = bwd(tau)
        ys.append(y)
        worst_cond = max(worst_cond, cond)
    return ref, ys, out, worst_cond


def _read_block(series, f, lo_pos, a, b, nv):
    """Cells of `series` on offsets a..b (relative to lo_pos) as an array; also the set of cells outside."""
    out = np.full((b - a + 1, nv), np.nan)
    outside = []
    got = rs.read(series, f)
    for (i, v), val in got.cells.items():
        off = i - lo_pos
        if a <= off <= b and v < nv:
            out[off - a, v] = val
        else:
            outside.append((off, v))
    return out, outside


def _judge_hpf_result(col, tag, case, trend, gap, f, lo, sa, sb, e0, refblock, cond, lam, diag=None):
    """All assertions about one (trend, gap) pair returned for the output offsets sa..sb."""
    rows = case["x"]["rows"]
    n, nv, log = len(rows), case["x"]["nv"], case["log"]
    ir = _ir()
    if not col.check(isinstance(trend, ir.Series) and isinstance(gap, ir.Series), f"{tag}:returns_two_series",
                     lambda: f"returned {type(trend).__name__}, {type(gap).__name__}"):
        return None
    if not col.check(trend.num_variants == nv and gap.num_variants == nv, f"{tag}:num_variants",
                     lambda: f"data have {nv} variants, trend {trend.num_variants}, gap {gap.num_variants}"):
        return None
    T, t_out = _read_block(trend, f, lo, sa, sb, nv)
    G, g_out = _read_block(gap, f, lo, sa, sb, nv)
    col.check(not t_out and not g_out, f"{tag}:values_outside_span",
              lambda: f"values outside the requested span at offsets {sorted(t_out + g_out)[:4]}")
    # trend defined on the entire requested span
    if not col.check(not np.isnan(T).any(), f"{tag}:trend_missing_in_span",
                     lambda: f"trend is missing at offsets {[(int(i) + sa, int(v)) for i, v in np.argwhere(np.isnan(T))[:4]]}"):
        return None
    if trend.start is not None:
        ts, te = rs.idx_of(trend.start, f) - lo, rs.idx_of(trend.end, f) - lo
        col.check((ts, te) == (sa, sb), f"{tag}:trend_span", lambda: f"trend spans offsets {ts}..{te}, requested {sa}..{sb}")
    # data block on the output span
    Y = np.full((sb - sa + 1, nv), np.nan)
    for t in range(max(sa, 0), min(sb, n - 1) + 1):
        for v in range(nv):
            if rows[t][v] is not None:
                Y[t - sa, v] = rows[t][v]
    have = ~np.isnan(Y)
    gh = ~np.isnan(G)
    col.check(bool((gh == have).all()), f"{tag}:gap_pattern",
              lambda: f"gap must exist exactly where data exist; differs at {[(int(i) + sa, int(v)) for i, v in np.argwhere(gh != have)[:4]]}")
    both = have & gh
    if both.any():
        if log:
            err = np.abs(T * G - Y)[both]
            allowed = (IDENT_RTOL * np.abs(Y) * (1.0 + np.abs(np.log(np.abs(Y))) + np.abs(np.log(np.abs(T)))))[both]
        else:
            err = np.abs(T + G - Y)[both]
            allowed = (IDENT_RTOL * (1.0 + np.abs(Y) + np.abs(T)))[both]
        col.check(bool((err <= allowed).all()), f"{tag}:trend_{'times' if log else 'plus'}_gap_is_data",
                  lambda: f"max |trend{'*' if log else '+'}gap - data| = {err.max():.3e}")
        if diag is not None:
            diag["ident"] = max(diag.get("ident", 0), float((err / allowed).max()) * IDENT_RTOL)
    # reference comparison
    R = refblock[sa - e0: sb - e0 + 1, :]
    scale = 1.0 + float(np.abs(R).max())
    rtol = _rtol(cond, lam)
    if log:
        err = float(np.abs(T / R - 1.0).max())
        lscale = 1.0 + float(np.abs(np.log(R)).max())
        ok = err <= rtol * lscale
        rel = err / lscale
    else:
        err = float(np.abs(T - R).max())
        ok = err <= rtol * scale
        rel = err / scale
    if diag is not None:
        diag.setdefault("ref", []).append((rel, cond, lam))
    col.check(ok, f"{tag}:not_the_minimiser",
              lambda: f"trend differs from the independent constrained HP minimiser (smooth={lam!r}): max "
                      f"{'relative ' if log else ''}difference {err:.3e}, allowed {rtol * (lscale if log else scale):.3e}; "
                      f"first rows got {T[:3].tolist()} expected {R[:3].tolist()}")
    return T, G


def _check_hpf(case, diag=None):
    ir = _ir()
    col = Collector()
    xd = case["x"]
    f, nv, rows, log = xd["f"], xd["nv"], xd["rows"], case["log"]
    n = len(rows)
    xr = rs.ref_from_desc(xd)
    lo = pgen.ref_index(xd["start"])
    if xr.span() != (lo, lo + n - 1):
        raise AssertionError("harness: generator must keep first and last rows observed")
    x = rs.build(xr)
    level = _constraint_series(f, lo, case["level"])
    change = _constraint_series(f, lo, case["change"])
    span = case["span"]
    sa, sb = (0, n - 1) if span is None else span
    e0, e1 = _filter_layout(n, span, case["level"], case["change"])
    if any(o <= e0 for o, _ in case["change"]):
        raise AssertionError("harness: change constraint at the first filter period")
    kw = {"log": log}
    if span is not None:
        kw["span"] = _span_arg(ir, f, lo, span, case["span_as"])
    if level is not None:
        kw["level"] = level
    if change is not None:
        kw["change"] = change
    before = (_snapshot(x), _snapshot(level), _snapshot(change))
    doc_table, doc_source = documented_defaults()
    extra_labels = []
    if case["smooth"] is None:
        # The default is not part of the property; it is only used to learn which lambda the run used.  For
        # monthly series the docstring table says 144,000 while every other row (and the code) follows
        # (10*frequency)**2 = 14,400: both are accepted and the optimality test uses the one that matches.
        candidates = [doc_table[FREQ_DOC_NAME[f]]] + ([14400.0, 144000.0] if f == 12 else [])
        extra_labels.append(f"default_from_{doc_source}")
        td, gd = api("hpf:default_smooth", ir.hpf, x, **kw)
        lam, msg = None, ""
        for cand in dict.fromkeys(candidates):
            te, ge = api("hpf:function", ir.hpf, x, smooth=cand, **kw)
            m1 = rs.compare(td, rs.read(te, f), DEFAULT_RTOL, DEFAULT_RTOL, check_span=False)
            m2 = rs.compare(gd, rs.read(ge, f), DEFAULT_RTOL, DEFAULT_RTOL, check_span=False)
            if not m1 and not m2:
                lam = cand
                break
            msg = msg or (m1 or m2)
        if not col.check(lam is not None, f"hpf:default_smooth:{FREQ_DOC_NAME[f] if f in (1, 2, 4, 12) else refcal.LETTER[f]}",
                         lambda: f"smooth=None differs from every documented default {candidates} for frequency "
                                 f"{refcal.LETTER[f]} (table from {doc_source}): {msg}"):
            col.done()
        trend, gap = td, gd
    else:
        lam = float(case["smooth"])
        kw["smooth"] = lam
        trend, gap = api("hpf:function", ir.hpf, x, **kw)
    col.check((_snapshot(x), _snapshot(level), _snapshot(change)) == before, "hpf:function:input_modified",
              "the functional form changed the data or a constraint series")
    # ---- requested span ---------------------------------------------------
    _, _, refblock, cond = _hpf_reference(case, lam, e0, e1)
    got = _judge_hpf_result(col, "hpf", case, trend, gap, f, lo, sa, sb, e0, refblock, cond, lam, diag)
    if got is None or col.items:
        col.done()
    # ---- wide span: covers the whole filter span plus padding ----------------
    w0, w1 = e0 - case["pad"][0], e1 + case["pad"][1]
    kww = dict(kw)
    kww["smooth"] = lam
    kww["span"] = ir.Span(rs.period_at(f, lo + w0), rs.period_at(f, lo + w1))
    wcase = dict(case)
    wcase["span"] = [w0, w1]
    wref, wys, wblock, wcond = _hpf_reference(wcase, lam, w0, w1)
    wtrend, wgap = api("hpf:function", ir.hpf, x, **kww)
    wgot = _judge_hpf_result(col, "hpf:wide", case, wtrend, wgap, f, lo, w0, w1, w0, wblock, wcond, lam, diag)
    if wgot is None:
        col.done()
    T, G = got
    WT, WG = wgot
    fwd, _ = _tf(log)
    # ---- constraints met (all of them lie inside the wide span) -------------
    ctol = max(CONSTR_TOL, REF_RTOL_LAMBDA * lam)
    for o, v in case["level"]:
        for k in range(nv):
            g = float(WT[o - w0, k])
            if diag is not None:
                diag["constr"] = max(diag.get("constr", 0), abs(g - v) / (1.0 + abs(v)))
            col.check(abs(g - v) <= ctol * (1.0 + abs(v)), "hpf:level_constraint_not_met",
                      lambda: f"trend at offset {o} variant {k} is {g!r}, level constraint {v!r}")
    for o, v in case["change"]:
        for k in range(nv):
            a_, b_ = float(WT[o - w0, k]), float(WT[o - 1 - w0, k])
            g = a_ / b_ if log else a_ - b_
            if diag is not None:
                diag["constr"] = max(diag.get("constr", 0), abs(g - v) / (1.0 + abs(v) + (0 if log else abs(a_))))
            col.check(abs(g - v) <= ctol * (1.0 + abs(v) + (0 if log else abs(a_))), "hpf:change_constraint_not_met",
                      lambda: f"trend {'ratio' if log else 'difference'} at offset {o} variant {k} is {g!r}, change constraint {v!r}")
    # ---- projected gradient = 0 (first-order condition on the library's trend) -
    for k in range(nv):
        tau = fwd(WT[:, k])
        pg, scale = wref.projected_gradient(wys[k], tau)
        worst = float(np.abs(pg).max()) if pg.size else 0.0
        if diag is not None:
            diag["pg"] = max(diag.get("pg", 0), worst / scale)
        col.check(worst <= PG_RTOL * scale, "hpf:projected_gradient_nonzero",
                  lambda: f"variant {k}: |N'(Q tau - b)| = {worst:.3e} with scale {scale:.3e} (smooth={lam!r})")
    # ---- span only clips --------------------------------------------------
    clip_T, clip_G = fwd(WT[sa - w0: sb - w0 + 1, :]), fwd(WG[sa - w0: sb - w0 + 1, :])
    rtol = _rtol(max(cond, wcond), lam)
    scale = 1.0 + float(np.abs(clip_T).max())
    dT = float(np.abs(fwd(T) - clip_T).max())
    unit = "log " if log else ""
    col.check(dT <= 2 * rtol * scale, "hpf:span_does_not_only_clip:trend",
              lambda: f"{unit}trend on offsets {sa}..{sb} differs from the clipped result for span {w0}..{w1} by {dT:.3e}")
    same_pat = bool((np.isnan(G) == np.isnan(clip_G)).all())
    dG = float(np.nanmax(np.abs(fwd(G) - clip_G))) if same_pat and (~np.isnan(G)).any() else 0.0
    col.check(same_pat and dG <= 2 * rtol * scale, "hpf:span_does_not_only_clip:gap",
              lambda: f"{unit}gap on offsets {sa}..{sb} differs from the clipped result for span {w0}..{w1} (max diff {dG:.3e}, same pattern {same_pat})")
    if diag is not None:
        diag["clip"] = max(diag.get("clip", 0), dT / scale / rtol, dG / scale / rtol)
    # ---- other entry points -------------------------------------------------
    kwf = dict(kw)          # exactly the arguments of the first call (smooth omitted when defaulted)
    tref, gref = rs.read(trend, f), rs.read(gap, f)
    for name, target in (("hpf_trend", tref), ("hpf_gap", gref)):
        y = x.copy()
        out = api(f"{name}:method", getattr(y, name), **kwf)
        col.check(out is None, f"{name}:method_returns_none", lambda: f"returned {type(out).__name__}")
        msg = rs.compare(y, target, FORM_RTOL, 1e-13, check_span=False)
        col.check(not msg, f"{name}:method_differs_from_hpf", lambda: f"x.{name}(...) vs irispie.hpf(x, ...): {msg}")
        z = api(f"{name}:function", getattr(ir, name), x, **kwf)
        msg2 = rs.compare(z, target, FORM_RTOL, 1e-13, check_span=False)
        col.check(not msg2, f"{name}:function_differs_from_hpf", lambda: f"irispie.{name}(x, ...) vs irispie.hpf(x, ...): {msg2}")
    col.check((_snapshot(x), _snapshot(level), _snapshot(change)) == before, "hpf:forms:input_modified",
              "a functional form (or a method applied to a copy) changed the data or a constraint series")
    col.done()
    return {"labels": extra_labels} if extra_labels else None


# ---------------------------------------------------------------------------
# hpf: a straight line is returned unchanged
# ---------------------------------------------------------------------------

@st.composite
def _line_case(draw):
    f = draw(st.sampled_from(refcal.ALL))
    log = draw(st.booleans())
    n = _len(draw)
    with_constraints = draw(st.integers(0, 2)) == 0
    nv = 1 if with_constraints else draw(st.integers(1, 3))
    if log:
        coef = [[draw(_vals(-1.0, 1.0)), draw(_vals(-0.05, 0.05))] for _ in range(nv)]
    else:
        coef = [[draw(_vals(-100.0, 100.0)), draw(_vals(-3.0, 3.0))] for _ in range(nv)]
    marks = [[1.0] * nv for _ in range(n)]
    mask = _mask_rows(draw, n, nv, marks)
    present = [[mask[t][v] is not None for v in range(nv)] for t in range(n)]
    span = _draw_span(draw, n)
    level_at, change_at = [], []
    if with_constraints:
        offs = st.one_of(st.integers(0, n - 1), st.integers(-4, n + 3))
        level_at = sorted(draw(st.lists(offs, min_size=0, max_size=2, unique=True)))
        change_at = sorted(draw(st.lists(offs, min_size=0, max_size=2, unique=True)))
        e_no_change = min([0] + level_at + ([span[0]] if span is not None else []))
        change_at = [o for o in change_at if o > e_no_change]
        e0, e1 = _filter_layout(n, span, [[o, 0] for o in level_at], [[o, 0] for o in change_at])
        kl, kc = [], []
        for o in level_at:
            if constraints_independent(e1 - e0 + 1, [q - e0 for q in kl] + [o - e0], []):
                kl.append(o)
        for o in change_at:
            if constraints_independent(e1 - e0 + 1, [q - e0 for q in kl], [q - e0 for q in kc] + [o - e0]):
                kc.append(o)
        level_at, change_at = kl, kc
    return {"f": f, "start": _start(draw, f), "coef": coef, "present": present, "log": log,
            "smooth": draw(_SMOOTH), "span": span, "level_at": level_at, "change_at": change_at}


def _line_value(coef, t, log):
    a, b = coef
    z = a + b * t
    return math.exp(z) if log else z


def _classify_line(case):
    n = len(case["present"])
    sc = _span_class(n, case["span"])
    rows = [[(1.0 if p else None) for p in r] for r in case["present"]]
    labels = [f"freq_{refcal.LETTER[case['f']]}", sc, "log" if case["log"] else "nolog", f"nv_{len(case['coef'])}"]
    inan = _interior_nan(rows)
    if inan:
        labels.append("interior_nan")
    if case["level_at"] or case["change_at"]:
        labels.append("consistent_constraints")
    return inan or bool(case["level_at"]) or bool(case["change_at"]) or sc not in ("span_default", "span_equal"), labels


def _check_line(case):
    ir = _ir()
    col = Collector()
    f, log, coef = case["f"], case["log"], case["coef"]
    nv, n = len(coef), len(case["present"])
    lo = pgen.ref_index(case["start"])
    xr = rs.Ref(f, nv)
    for t in range(n):
        for v in range(nv):
            if case["present"][t][v]:
                xr.set(lo + t, v, _line_value(coef[v], t, log))
    x = rs.build(xr)
    level = [[o, _line_value(coef[0], o, log)] for o in case["level_at"]]
    if log:
        change = [[o, math.exp(coef[0][1])] for o in case["change_at"]]
    else:
        change = [[o, coef[0][1]] for o in case["change_at"]]
    span = case["span"]
    sa, sb = (0, n - 1) if span is None else span
    kw = {"log": log, "smooth": float(case["smooth"])}
    if span is not None:
        kw["span"] = _span_arg(ir, f, lo, span, "span")
    if level:
        kw["level"] = _constraint_series(f, lo, level)
    if change:
        kw["change"] = _constraint_series(f, lo, change)
    trend, gap = api("hpf:function", ir.hpf, x, **kw)
    if not col.check(trend.num_variants == nv and gap.num_variants == nv, "hpf:line:num_variants", ""):
        col.done()
    T, t_out = _read_block(trend, f, lo, sa, sb, nv)
    G, g_out = _read_block(gap, f, lo, sa, sb, nv)
    col.check(not t_out and not g_out, "hpf:line:values_outside_span", lambda: f"{sorted(t_out + g_out)[:4]}")
    # conditioning of the problem as seen by the harness (for the tolerance only)
    e0, e1 = _filter_layout(n, span, level, change)
    pcase = {"x": {"nv": nv, "rows": [[(_line_value(coef[v], t, log) if case["present"][t][v] else None) for v in range(nv)]
                                      for t in range(n)]},
             "log": log, "level": level, "change": change}
    _, _, _, cond = _hpf_reference(pcase, float(case["smooth"]), e0, e1)
    rtol = _rtol(cond, float(case["smooth"]))
    L = np.array([[_line_value(coef[v], t, log) for v in range(nv)] for t in range(sa, sb + 1)])
    if not col.check(not np.isnan(T).any(), "hpf:line:trend_missing_in_span", ""):
        col.done()
    if log:
        err = float(np.abs(np.log(T) - np.log(L)).max())
        scale = 1.0 + float(np.abs(np.log(L)).max())
    else:
        err = float(np.abs(T - L).max())
        scale = 1.0 + float(np.abs(L).max())
    col.check(err <= rtol * scale, "hpf:line:straight_line_changed",
              lambda: f"data on the line {coef} ({'log-' if log else ''}linear), smooth={case['smooth']!r}: trend deviates "
                      f"from the line by {err:.3e} (allowed {rtol * scale:.3e})")
    neutral = 1.0 if log else 0.0
    for t in range(sa, sb + 1):
        for v in range(nv):
            has = 0 <= t <= n - 1 and case["present"][t][v]
            g = G[t - sa, v]
            if has:
                col.check(not math.isnan(g) and abs(g - neutral) <= rtol * scale * (1.0 if not log else 2.0),
                          "hpf:line:gap_not_neutral", lambda: f"gap at offset {t} variant {v} is {g!r}")
            else:
                col.check(math.isnan(g), "hpf:line:gap_where_no_data", lambda: f"gap at offset {t} variant {v} is {g!r}")
    col.done()


# ---------------------------------------------------------------------------
# lonf
# ---------------------------------------------------------------------------

@st.composite
def _lonf_case(draw):
    f = draw(st.sampled_from(refcal.ALL))
    order = draw(st.sampled_from([1, 2]))
    n = _len(draw)
    nv = draw(st.integers(1, 3))
    kind = draw(st.sampled_from(["iid", "walk", "kinked"]))
    if kind == "iid":
        values = draw(st.lists(st.lists(_vals(-5.0, 5.0), min_size=nv, max_size=nv), min_size=n, max_size=n))
    elif kind == "walk":
        steps = draw(st.lists(st.lists(_vals(-1.0, 1.0), min_size=nv, max_size=nv), min_size=n, max_size=n))
        values, acc = [], [0.0] * nv
        for row in steps:
            acc = [a + s for a, s in zip(acc, row)]
            values.append(list(acc))
    else:
        values = []
        for _ in range(nv):
            k = draw(st.integers(1, n - 1))
            s1, s2, noise = draw(_vals(-1.0, 1.0)), draw(_vals(-1.0, 1.0)), draw(st.sampled_from([0.0, 0.125, 0.5]))
            eps = draw(st.lists(_vals(-1.0, 1.0), min_size=n, max_size=n))
            values.append([s1 * min(t, k) + s2 * max(t - k, 0) + noise * eps[t] for t in range(n)])
        values = [list(r) for r in zip(*values)]
    span = None
    if n >= 5 and draw(st.integers(0, 3)) == 0:
        a = draw(st.integers(0, n - 3))
        span = [a, draw(st.integers(a + 2, n - 1))]
    return {"x": {"f": f, "start": _start(draw, f), "nv": nv, "rows": values}, "order": order,
            "smooth": draw(_LONF_SMOOTH), "span": span, "kind": kind, "seed": draw(st.integers(0, 2 ** 31 - 1))}


def _classify_lonf(case):
    x = case["x"]
    n = len(x["rows"])
    labels = [f"freq_{refcal.LETTER[x['f']]}", f"order_{case['order']}", f"nv_{x['nv']}", f"data_{case['kind']}",
              "span_default" if case["span"] is None else "span_inside"]
    return (x["nv"] >= 2 or case["span"] is not None or n >= 6), labels


def lonf_objective(y, z, D, lam):
    return 0.5 * float(np.sum((y - z) ** 2)) + lam * float(np.sum(np.abs(D @ z)))


def lonf_kkt(y, trend, gap, order, lam):
    """KKT residuals of the l1 trend filter at (trend, gap).  Returns dict of findings (bucket -> message) and info."""
    n = len(y)
    D = diff_matrix(n, order)
    fails = {}
    ys = 1.0 + float(np.abs(y).max())
    ident = float(np.abs(trend + gap - y).max())
    if ident > IDENT_RTOL * ys:
        fails["trend_plus_gap_is_data"] = f"max |trend+gap-data| = {ident:.3e}"
    nu, *_ = np.linalg.lstsq(D.T, gap, rcond=None)
    resid = float(np.abs(D.T @ nu - gap).max())
    if resid > 1e-9 * ys:
        fails["gap_not_in_range_of_Dt"] = (f"gap is not D' nu for any nu (least-squares residual {resid:.3e}): the trend is not "
                                           f"data minus a combination of difference rows, so no dual variable exists")
    feas = float(np.abs(nu).max()) if nu.size else 0.0
    bound = lam * (1 + LONF_FEAS_REL) + LONF_FEAS_ABS
    if feas > bound:
        fails["dual_infeasible"] = f"max |nu| = {feas!r} exceeds smooth = {lam!r} (allowed {bound!r})"
    Dx = D @ trend
    tolD = 1e-7 * ys
    active = np.abs(Dx) > tolD
    if active.any():
        dev = np.abs(nu[active] - lam * np.sign(Dx[active]))
        if dev.max() > lam * LONF_FEAS_REL + LONF_FEAS_ABS:
            i = int(np.argwhere(active)[int(np.argmax(dev))][0])
            fails["complementary_slackness"] = (f"(D trend)[{i}] = {Dx[i]!r} is non-zero but nu[{i}] = {nu[i]!r} is not "
                                                f"smooth*sign = {lam * np.sign(Dx[i])!r}")
    n_kinks = int(active.sum())
    n_free = int((np.abs(nu) < lam * (1 - 1e-6) - LONF_FEAS_ABS).sum())
    return fails, {"D": D, "nu": nu, "kinks": n_kinks, "free": n_free, "m": n - order}


def _lonf_competitors(y, trend, D, order, lam, seed):
    n = len(y)
    rng = np.random.default_rng(seed)
    out = []
    t = np.arange(n, dtype=float)
    out.append(("data", y.copy()))
    P = np.vander(t, order, increasing=True)        # polynomial fit of degree order-1 (null space of D)
    out.append(("polynomial_fit", P @ np.linalg.lstsq(P, y, rcond=None)[0]))
    for hp_lam in (lam, 10.0 * lam + 1.0):
        tau, _ = HPRef(n, hp_lam, [], []).solve(y.astype(float), np.zeros(0)) if n >= 3 else (y.copy(), 1.0)
        out.append((f"hp_trend_{hp_lam:g}", tau))
    Dx = D @ trend
    kinks = np.abs(Dx) > 1e-7 * (1 + np.abs(y).max())
    pinvD = np.linalg.pinv(D)
    for j in range(24):
        s = (1e-4, 1e-2, 1e-1, 1.0)[j % 4]
        mode = j % 3
        if mode == 0:                                   # dense perturbation
            delta = s * rng.standard_normal(n)
        elif mode == 1:                                 # keeps the zero pattern of D trend (moves along the active face)
            w = np.where(kinks, rng.standard_normal(n - order), 0.0)
            delta = s * (pinvD @ w) + s * (P @ rng.standard_normal(order))
        else:                                           # local bump
            delta = np.zeros(n)
            i = int(rng.integers(0, n))
            delta[i:i + int(rng.integers(1, 4))] = s * rng.standard_normal()
        out.append((f"perturbation_{j}", trend + delta))
    return out


def _check_lonf(case, diag=None):
    ir = _ir()
    col = Collector()
    xd = case["x"]
    f, nv, order, lam = xd["f"], xd["nv"], case["order"], float(case["smooth"])
    n = len(xd["rows"])
    xr = rs.ref_from_desc(xd)
    lo = pgen.ref_index(xd["start"])
    x = rs.build(xr)
    Yfull = np.array(xd["rows"], dtype=float)
    span = case["span"]
    sa, sb = (0, n - 1) if span is None else span
    args = (x, order, lam)
    kw = {} if span is None else {"span": ir.Span(rs.period_at(f, lo + sa), rs.period_at(f, lo + sb))}
    before = _snapshot(x)
    res = api("lonf", ir.lonf, *args, **kw)
    col.check(_snapshot(x) == before, "lonf:input_modified", "lonf changed its input series")
    if not col.check(isinstance(res, tuple) and len(res) == 2 and all(isinstance(r, ir.Series) for r in res),
                     "lonf:returns_two_series", lambda: f"returned {type(res).__name__}"):
        col.done()
    trend, gap = res
    if not col.check(trend.num_variants == nv and gap.num_variants == nv, "lonf:variants_dropped",
                     lambda: f"input has {nv} variants; trend has {trend.num_variants}, gap has {gap.num_variants} "
                             f"(trend+gap must equal the data for every variant)"):
        col.done()
    T, t_out = _read_block(trend, f, lo, sa, sb, nv)
    G, g_out = _read_block(gap, f, lo, sa, sb, nv)
    col.check(not t_out and not g_out, "lonf:values_outside_span", lambda: f"{sorted(t_out + g_out)[:4]}")
    if not col.check(not np.isnan(T).any() and not np.isnan(G).any(), "lonf:missing_in_span",
                     "trend or gap has missing values although the data are complete"):
        col.done()
    labels = set()
    mixed = False
    full = None
    for v in range(nv):
        y = Yfull[sa:sb + 1, v]
        fails, info = lonf_kkt(y, T[:, v], G[:, v], order, lam)
        if "trend_plus_gap_is_data" in fails:
            col.fail("lonf:trend_plus_gap_is_data", f"variant {v}: {fails['trend_plus_gap_is_data']}")
            continue
        if fails and span is not None:
            # other admissible reading of `span`: clip of the full-sample result
            if full is None:
                full = api("lonf", ir.lonf, x, order, lam)
            if isinstance(full, tuple) and len(full) == 2 and full[0].num_variants == nv:
                FT, _ = _read_block(full[0], f, lo, 0, n - 1, nv)
                ffails, _ = lonf_kkt(Yfull[:, v], FT[:, v], Yfull[:, v] - FT[:, v], order, lam)
                if not ffails and float(np.abs(FT[sa:sb + 1, v] - T[:, v]).max()) <= 1e-9 * (1 + float(np.abs(y).max())):
                    labels.add("span_clips_full_result")
                    continue
        for b, m in fails.items():
            col.fail(f"lonf:{b}", f"order {order}, smooth {lam!r}, variant {v}: {m}")
        if fails:
            continue
        if diag is not None:
            diag["feas"] = max(diag.get("feas", -1), float(np.abs(info["nu"]).max()) - lam)
        if 0 < info["free"] and 0 < info["kinks"]:
            mixed = True
        labels.add("all_saturated" if info["free"] == 0 else ("polynomial_trend" if info["kinks"] == 0 else "mixed_active_set"))
        # primal objective against competitors
        D = info["D"]
        p0 = lonf_objective(y, T[:, v], D, lam)
        atol = 4e-6 * float(np.abs(G[:, v]).sum()) + 16e-6 * lam * info["m"] + 1e-12
        for name, z in _lonf_competitors(y, T[:, v], D, order, lam, case["seed"] + v):
            pz = lonf_objective(y, z, D, lam)
            if diag is not None:
                diag["obj"] = max(diag.get("obj", -1e9), (p0 - pz) / (pz * LONF_OBJ_REL + atol))
            if not col.check(p0 <= pz * (1 + LONF_OBJ_REL) + atol, "lonf:objective_not_minimal",
                             lambda: f"order {order}, smooth {lam!r}, variant {v}: objective at the returned trend {p0!r} "
                                     f"exceeds the objective {pz!r} at competitor '{name}'"):
                break
    col.done()
    return {"labels": sorted(labels), "nontrivial": mixed}


SUBCHECKS = [
    HypSub("hpf", _hpf_case, _check_hpf, _classify_hpf, budget={"quick": 9000, "thorough": 120000}),
    HypSub("hpf_line", _line_case, _check_line, _classify_line, budget={"quick": 2400, "thorough": 30000}),
    HypSub("lonf", _lonf_case, _check_lonf, _classify_lonf, budget={"quick": 4800, "thorough": 80000}),
]
