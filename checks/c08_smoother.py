"""
C08 - Smoothed estimates reproduce the data and are a simulation of the model.

Oracle: the harness's own evaluator of the generated structure applied to
kalman_filter(...)["smooth_med"], a re-simulation round trip, and the
deviation/level metamorphic relation.  No Gaussian reference is needed here
(C03 judges the moments); the dense joint of vlib.refgauss is only used to
exclude singular observation covariances by construction.
"""

import math

import numpy as np

from vlib import linmodels as lm, simdata as sd, refgauss as rg, kalman_cases as kc
from vlib.runner import HypSub, Collector, api

PROPERTY = "C08"

RULE = (
    "same generator as C03 (determinate structural model with 1-3 measurement equations, additive or log-linear "
    "rendering, drawn stds, span 1-8, arbitrary data, missing-data mask, deviation flag). Non-trivial iff at least "
    "one observation is missing and the model has a log-variable or a measurement shock."
)

ASSUMPTIONS = [
    "equations are judged only at periods where every value they read is present in smooth_med (lags before the filter span are not returned; prepend_initial is not used)",
    "cases with a singular observation covariance (harness-side joint Gaussian) are not generated",
    "smoother_unit_root: one exact random walk, flat steady state taken from solve_steady (judged by C05), default diffuse_method; every measurement equation carries a shock with positive std so that the prediction-error covariance is regular",
    "smoother_shocks_from_data: known anticipated shock values are supplied as ant_<shock> data with shocks_from_data=True; they are part of the smoothed databox and of the re-simulation",
    "re-simulation starts after the maximum lag, from the smoothed values of the first periods, with smoothed shocks fed as unanticipated shocks",
    "tolerance 1e-8 * (1 + max|value|) in the units of the linear(ised) equation",
]


def _classify(case):
    spec = case["spec"]
    nmiss = sum(1 for row in case["mask"] for c in row if c)
    labels = ["log_rendering" if spec["log"] else "additive_rendering", "deviation" if case["deviation"] else "levels"]
    has_w = any(w for w in lm.mshock_names(spec))
    if has_w:
        labels.append("measurement_shock")
    if lm.num_forwards(spec):
        labels.append("forward_looking")
    return nmiss >= 1 and (spec["log"] or has_w), labels


def _observed(spec, case, deviation, ys):
    """N x nm observations (levels and linear units) around the given measurement steady state."""
    N, nm = case["N"], len(spec["meas"])
    lin = np.full((N, nm), np.nan)
    for t in range(N):
        for k in range(nm):
            if not case["mask"][t][k]:
                lin[t, k] = (0.0 if deviation else float(ys[k])) + case["data"][t][k]
    return (np.exp(lin) if spec["log"] else lin), lin


def _filter(m, spec, case, start, deviation, ys):
    import copy
    c2 = copy.deepcopy(case)
    c2["deviation"] = deviation
    levels, lin = _observed(spec, c2, deviation, ys)
    db = kc.input_databox(spec, c2, start, levels)
    span = start >> (start + case["N"] - 1)
    kw = {}
    if case.get("ant"):
        # known (anticipated) shock values supplied as data
        import irispie as ir
        shn = lm.shock_names(spec)
        for i, t, v in case["ant"]:
            if shn[i % spec["n"]] and t < case["N"]:
                name = "ant_" + shn[i % spec["n"]]
                if name not in db.keys():
                    db[name] = ir.Series(start=start, values=np.zeros((case["N"], 1)))
                db[name][start + t] = v
        kw["shocks_from_data"] = True
    elif case.get("returns", 0) % 3 == 1:
        # leftovers of an earlier scenario in the input databox: without shocks_from_data they must be ignored (and
        # must not come back in the smoothed databox, which is re-simulated below)
        import irispie as ir
        for i, s_ in enumerate(x for x in lm.shock_names(spec) if x):
            db["ant_" + s_] = ir.Series(start=start, values=tuple(0.7 - 0.4 * ((t + i) % 3) for t in range(case["N"])))
    kw.update(kc.return_kwargs(case, need="smooth"))      # an output selection that still returns the smoother
    out = api("kalman_filter", m.kalman_filter, db, span, deviation=deviation, rescale_variance=case["rescale"], **kw)
    return out, levels, lin


def _check(case):
    col = Collector()
    spec = case["spec"]
    case = dict(case, tv={})
    if not kc.in_domain(spec):
        return {"labels": ["model_not_in_domain"], "nontrivial": False}
    N, dev, log = case["N"], case["deviation"], spec["log"]
    start = sd.start_period(case["freq"])
    m = api("build_and_solve", lm.build_model, spec, stds=kc.assigned_stds(spec, case))
    su, sw = kc.std_dicts(spec, case)
    # exclude singular observation covariances by construction
    joint = rg.Joint(spec, m, N, su, sw, deviation=dev)
    mn = lm.meas_names(spec)
    _, lin0 = kc.observed_values(spec, case)
    for upto in range(1, N + 1):
        rows = [joint.row(t, mn[k]) for t in range(upto) for k in range(len(mn)) if not math.isnan(lin0[t, k])]
        vals = [lin0[t, k] for t in range(upto) for k in range(len(mn)) if not math.isnan(lin0[t, k])]
        if joint.condition(rows, vals) is None:
            return {"labels": ["singular_observation_covariance"], "nontrivial": False}

    xs, ys = lm.steady(spec)
    return _judge(col, case, spec, m, start, xs, ys)


def _judge(col, case, spec, m, start, xs, ys, filt=None, variant=0, modes=True):
    """Assertions 1-5 on smooth_med, given the model and a steady state (xs, ys in linear units).

    filt/variant: the filter output comes from a run over a multi-variant model `m` (column `variant` is judged against
    the single-variant `spec`); modes=False leaves out assertion 5 (one databox cannot be level data minus steady state
    for two different steady states)."""
    N, dev, log = case["N"], case["deviation"], spec["log"]
    mn = lm.meas_names(spec)
    out, levels, lin = (filt or _filter)(m, spec, case, start, dev, ys)
    sm = out["smooth_med"]
    p = sd.Paths(sm, spec, start, 0, N - 1, variant=variant)
    names = spec["names"]
    allv = np.concatenate([np.abs(np.log(p.arr(nm))) if log else np.abs(p.arr(nm)) for nm in names])
    allv = allv[np.isfinite(allv)]
    tol = 1e-8 * (1.0 + (float(allv.max()) if allv.size else 0.0) + float(np.nanmax(np.abs(lin), initial=0.0)))

    # ---- 1. smoothed measurement variables equal the data; NaN elsewhere ------
    for k, nm in enumerate(mn):
        for t in range(N):
            g = p.get(nm, t)
            if math.isnan(levels[t, k]):
                col.check(math.isnan(g), "data:missing_cell_not_nan", lambda: f"smooth_med[{nm}] t={t} is {g!r} where no observation exists")
            else:
                d = abs((math.log(g) - lin[t, k]) if (log and g > 0) else (g - levels[t, k]))
                col.check(d <= 1e-9 * (1 + abs(lin[t, k])), "data:not_reproduced", lambda: f"smooth_med[{nm}] t={t}: {g!r} vs data {levels[t, k]!r}")
    # transition variables are estimated in every period
    if log and any(np.any(np.isinf(p.arr(nm))) or np.any(p.arr(nm) == 0) for nm in names):
        # exp() of an estimate beyond +-709 in logs (an observation loading of 1e-3 or less on the state): floating-point
        # range, not a missing estimate
        return {"labels": ["log_estimate_outside_float_range"], "nontrivial": False}
    for nm in names:
        col.check(bool(np.all(np.isfinite(p.arr(nm)))), "smooth:transition_missing", lambda: f"smooth_med[{nm}] has missing values")
    if col.items:
        col.done()

    get = sd.getter(p, spec)

    def available(terms, t, extra=()):
        return all(0 <= t + k_ <= N - 1 for _, k_, *_ in terms) and 0 <= t <= N - 1

    # ---- 2. measurement equations with smoothed measurement shocks ----------
    nchk_m = 0
    for mi, e in enumerate(spec["meas"]):
        for t in range(N):
            if math.isnan(levels[t, mi]) or not available(e["terms"], t):
                continue
            r = lm.residuals(spec, get, t, deviation=dev, which="measurement")[mi]
            nchk_m += 1
            col.check(abs(r) <= tol, "measurement_equation", lambda: f"measurement equation {mi} at t={t}: residual {r:.3e}\n{lm.source(spec)}")
    # ---- 3. backward-looking transition equations with smoothed shocks ------
    nchk_t = 0
    for i, e in enumerate(spec["eqs"]):
        if any(t_[1] > 0 for t_ in e["terms"]):
            continue
        for t in range(N):
            if not available(e["terms"], t):
                continue
            r = lm.residuals(spec, get, t, deviation=dev)[i]
            nchk_t += 1
            col.check(abs(r) <= tol, "transition_equation", lambda: f"transition equation {i} at t={t}: residual {r:.3e}\n{lm.source(spec)}")

    # ---- 4. re-simulation from the smoothed initial condition ----------------
    Lmax, _ = lm.max_lag_lead(spec)
    Lmax = max(Lmax, 1)
    resim = False
    if N - Lmax >= 1:
        sim_in = sm.copy()
        s = api("simulate_smoothed", m.simulate, sim_in, (start + Lmax) >> (start + N - 1), method="first_order", deviation=dev)
        ps = sd.Paths(s, spec, start, Lmax, N - 1, variant=variant)
        for nm in names + mn:
            a, b = ps.arr(nm), p.arr(nm)[Lmax:]
            ok = np.isfinite(b)
            if not ok.any():
                continue
            d = np.abs(np.log(a[ok]) - np.log(b[ok])) if log else np.abs(a[ok] - b[ok])
            worst = float(np.max(d)) if np.all(np.isfinite(d)) else float("inf")
            col.check(worst <= 10 * tol, "resimulation", lambda: f"{nm}: re-simulated path differs from smooth_med by {worst:.3e}\n{lm.source(spec)}")
        resim = True

    # ---- 5. deviation mode = level mode minus (divided by) steady state ------
    if not modes:
        col.done()
        return {"labels": (["resimulated"] if resim else []) + ["judged"], "nontrivial": True}
    out2, _, _ = _filter(m, spec, case, start, not dev, ys)
    p2 = sd.Paths(out2["smooth_med"], spec, start, 0, N - 1)
    lev, dv = (p2, p) if dev else (p, p2)
    shocks = [s_ for s_ in lm.shock_names(spec) if s_] + [w for w in lm.mshock_names(spec) if w]
    for nm, ss in [(nm, xs[j]) for j, nm in enumerate(names)] + [(nm, ys[k]) for k, nm in enumerate(mn)]:
        a, d = lev.arr(nm), dv.arr(nm)
        ok = np.isfinite(a) & np.isfinite(d)
        col.check(bool(np.array_equal(np.isfinite(a), np.isfinite(d))), "deviation_vs_level:nan_pattern", lambda: f"{nm}")
        if ok.any():
            diff = np.abs(np.log(a[ok]) - (ss + np.log(d[ok]))) if log else np.abs(a[ok] - (ss + d[ok]))
            worst = float(np.max(diff))
            col.check(worst <= 10 * tol, "deviation_vs_level", lambda: f"{nm}: level-mode minus steady differs from deviation-mode by {worst:.3e}\n{lm.source(spec)}")
    for s_ in shocks:
        worst = float(np.max(np.abs(lev.arr(s_) - dv.arr(s_))))
        col.check(worst <= 10 * tol, "deviation_vs_level:shocks", lambda: f"{s_}: smoothed shocks differ between modes by {worst:.3e}")
    col.done()
    labels = []
    if resim:
        labels.append("resimulated")
    if nchk_m:
        labels.append("measurement_equations_checked")
    if nchk_t:
        labels.append("backward_equations_checked")
    return {"labels": labels, "nontrivial": True}


@__import__('hypothesis').strategies.composite
def _unit_root_case(draw):
    case = draw(kc.kalman_case(allow_tv_stds=False))
    spec = case["spec"]
    rw = draw(__import__("hypothesis").strategies.integers(0, spec["n"] - 1))
    spec["eqs"][rw] = {"terms": [[rw, -1, 1.0]], "const": 0.0, "shock": 1.0}
    for e in spec["eqs"]:
        for t in e["terms"]:
            del t[3:]
    spec["params"] = []
    spec["rw"] = rw
    for e in spec["meas"]:
        e["shock"] = 1.0                     # every observation carries noise: the prediction-error covariance is regular
    case["std_w"] = [s_ if s_ > 0 else 0.5 for s_ in case["std_w"]]
    case["std_u"][rw] = case["std_u"][rw] if case["std_u"][rw] > 0 else 1.0
    return case


def _check_unit_root(case):
    col = Collector()
    prep = prepare_unit_root(case)
    if isinstance(prep, dict):
        return prep
    case, spec, m, start, xs, ys = prep
    return _judge(col, case, spec, m, start, xs, ys)


@__import__('hypothesis').strategies.composite
def _ant_case(draw):
    st_ = __import__("hypothesis").strategies
    case = draw(kc.kalman_case(allow_tv_stds=False))
    n, N = case["spec"]["n"], case["N"]
    case["ant"] = [list(x) for x in draw(st_.lists(st_.tuples(st_.integers(0, n - 1), st_.integers(0, max(N - 1, 0)),
                                                              st_.sampled_from([0.5, -0.5, 1.0, -0.3])), min_size=1, max_size=3))]
    return case


@__import__('hypothesis').strategies.composite
def _variants_case(draw):
    st_ = __import__("hypothesis").strategies
    case = draw(kc.kalman_case(allow_tv_stds=False))
    n, nm = case["spec"]["n"], len(case["spec"]["meas"])
    std = st_.sampled_from([1.0, 0.5, 2.0, 1.3, 0.2, 3.0])
    case["std_u2"] = [draw(std) for _ in range(n)]
    case["std_w2"] = [draw(std) for _ in range(nm)]
    case["pmul"] = draw(st_.sampled_from([1.0, 0.8, 1.2, 0.5, 0.5]))
    return case


def _check_variants(case):
    """One filter run over a two-variant model (parameters and stds differ): each variant's smoothed output must
    reproduce the data, satisfy that variant's equations and be a simulation of that variant."""
    import copy
    col = Collector()
    case = dict(case, tv={})
    spec2 = copy.deepcopy(case["spec"])
    for p_ in spec2["params"]:
        p_["value"] = [p_["value"], round(p_["value"] * case["pmul"], 6)]
    singles, cases = [], [case, dict(case, std_u=case["std_u2"], std_w=case["std_w2"])]
    N, dev = case["N"], case["deviation"]
    start = sd.start_period(case["freq"])
    for v in range(2):
        sv = copy.deepcopy(case["spec"])
        for p_, p2 in zip(sv["params"], spec2["params"]):
            p_["value"] = p2["value"][v]
        if not kc.in_domain(sv):
            return {"labels": ["model_not_in_domain"], "nontrivial": False}
        singles.append(sv)
    xs0, ys0 = lm.steady(singles[0])
    _, lin0 = kc.observed_values(singles[0], case)
    mn = lm.meas_names(singles[0])
    for v in range(2):
        # singular observation covariances are excluded for either variant (harness-side joint covariance)
        mv = api("build_and_solve", lm.build_model, singles[v], stds=kc.assigned_stds(singles[v], cases[v]))
        su, sw = kc.std_dicts(singles[v], cases[v])
        joint = rg.Joint(singles[v], mv, N, su, sw, deviation=dev)
        for upto in range(1, N + 1):
            rows = [joint.row(t, mn[k]) for t in range(upto) for k in range(len(mn)) if not math.isnan(lin0[t, k])]
            vals = [lin0[t, k] for t in range(upto) for k in range(len(mn)) if not math.isnan(lin0[t, k])]
            if joint.condition(rows, vals) is None:
                return {"labels": ["singular_observation_covariance"], "nontrivial": False}
    a0, a1 = kc.assigned_stds(singles[0], cases[0]), kc.assigned_stds(singles[1], cases[1])
    m2 = api("build_and_solve_two_variants", lm.build_model, spec2, variant_count=2, stds={k: [a0[k], a1[k]] for k in a0})
    cache = {}

    def filt(m_, spec_, case_, start_, deviation, ys_):
        # one databox for both variants: observations around variant 0's steady state
        if deviation not in cache:
            cache[deviation] = _filter(m2, singles[0], case, start, deviation, ys0)
        return cache[deviation]

    labels = set()
    for v in range(2):
        xs, ys = lm.steady(singles[v])
        res = _judge(col, case, singles[v], m2, start, xs, ys, filt=filt, variant=v, modes=False)
        labels |= set((res or {}).get("labels", []))
        if "log_estimate_outside_float_range" in labels:
            return {"labels": ["log_estimate_outside_float_range"], "nontrivial": False}
    return {"labels": sorted(labels), "nontrivial": True}


def prepare_unit_root(case):
    """Build and solve the unit-root model of a case: (case, spec, model, start, xs, ys) or a label dict."""
    import irispie as ir
    spec = case["spec"]
    case = dict(case, tv={})
    if not lm.unit_root_domain(spec, 1, band=kc.MARGIN):
        return {"labels": ["model_not_in_domain"], "nontrivial": False}
    start = sd.start_period(case["freq"])
    linear = not spec["log"]
    m = api("from_string", ir.Simultaneous.from_string, lm.source(spec), linear=linear, flat=True)
    if not linear:
        m.assign(**{nm: 1.0 for nm in spec["names"] + lm.meas_names(spec)})
    m.assign(**kc.assigned_stds(spec, case))
    try:
        m.solve_steady()
        m.solve()
    except Exception:  # noqa: BLE001 - steady state and solution of unit-root models are judged by C05/C01
        return {"labels": ["steady_or_solve_failed"], "nontrivial": False}
    lv = m.get_steady_levels()
    vals = [float(lv[nm]) for nm in spec["names"] + lm.meas_names(spec)]
    if any(math.isnan(v) for v in vals) or (spec["log"] and any(not (1e-6 < v < 1e6) for v in vals)):
        return {"labels": ["degenerate_steady"], "nontrivial": False}
    f = math.log if spec["log"] else float
    xs = [f(float(lv[nm])) for nm in spec["names"]]
    ys = [f(float(lv[nm])) for nm in lm.meas_names(spec)]
    # The level of a random walk is pinned down by the data only: the level/deviation relation needs at least one
    # observation of a measurement variable that carries the permanent component (harness: 60-period response)
    Lmax, Fmax = lm.max_lag_lead(spec)
    dbr = sd.steady_db(m, spec, start, -max(Lmax, 1), 60 + Fmax, True)
    dbr[lm.shock_names(spec)[spec["rw"]]][start] = 1.0
    resp = m.simulate(dbr, start >> (start + 59), method="first_order", deviation=True)
    loads = []
    for k, nm in enumerate(lm.meas_names(spec)):
        r = float(resp[nm].get_data(start + 59)[0, 0])
        r = math.log(r) if (spec["log"] and r > 0) else r
        loads.append(abs(r) > 1e-6)
    identified = any(loads[k] and not case["mask"][t][k] for t in range(case["N"]) for k in range(len(loads)))
    if not identified:
        return {"labels": ["random_walk_level_not_identified"], "nontrivial": False}
    return case, spec, m, start, xs, ys


SUBCHECKS = [
    HypSub("smoother", lambda: kc.kalman_case(allow_tv_stds=False), _check, _classify, budget={"quick": 900, "thorough": 24000}),
    HypSub("smoother_shocks_from_data", lambda: _ant_case(), _check, _classify, budget={"quick": 400, "thorough": 12000}),
    HypSub("smoother_unit_root", _unit_root_case, _check_unit_root, _classify, budget={"quick": 500, "thorough": 16000}),
    HypSub("smoother_variants", _variants_case, _check_variants, _classify, budget={"quick": 300, "thorough": 8000}),
]
