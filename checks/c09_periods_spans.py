"""
C09 - Periods behave as calendar-consistent integers and spans as their ranges.

Oracle: vlib.refcal (datetime/calendar) for periods, an explicit Python list
of positions for spans (the statement read literally).
"""

import copy
import datetime as dt

from hypothesis import strategies as st

from vlib import refcal, pgen
from vlib.runner import HypSub, EnumSub, Violation, Collector, api

PROPERTY = "C09"

RULE = (
    "enum_regular/enum_daily: every period of the enumerated calendar range built through the public "
    "constructors (each one counts as non-trivial: its start/end day, year/segment, successor and keyword "
    "shifts are compared with datetime/calendar); period_algebra: Hypothesis triples of same-frequency "
    "periods + a different-frequency period, non-trivial iff the periods differ and straddle a year boundary "
    "(or are integer periods of opposite sign); span_machine: a constructor followed by a drawn sequence of "
    "span operations mirrored on an explicit list model, non-trivial iff |step|>1 or backward or a mutation "
    "follows a reverse or an open end was resolved (for half of the open spans the leading shift/+/- operations are "
    "applied before the resolution and compared with resolve-then-shift)"
)

ASSUMPTIONS = [
    "supported calendar = years 1..9999 (datetime range); WEEKLY has no period class and is not in the property",
    "`a << b` is only required to be a backward span over the periods between its operands (docs and code disagree on operand order)",
    "reversal is compared with the reversed enumeration only when the step divides end-start (reverse() is documented as swapping start and end)",
    "daily `yoy` is the documented t-365",
]

ONE_DAY = dt.timedelta(days=1)


def _ir():
    import irispie as ir
    return ir


_CTOR = {1: "yy", 2: "hh", 4: "qq", 12: "mm"}


# ---------------------------------------------------------------------------
# Exhaustive enumeration: regular frequencies
# ---------------------------------------------------------------------------

QUICK_YEARS = sorted(set(range(1995, 2031)) | {1, 2, 4, 100, 400, 1600, 1900, 2000, 2100, 9998, 9999})


def _chunks_regular(tier):
    if tier == "quick":
        return [{"f": f, "years": QUICK_YEARS} for f in refcal.REGULAR]
    out = []
    for f in refcal.REGULAR:
        for lo in range(1, 10000, 1250):
            out.append({"f": f, "lo": lo, "hi": min(lo + 1250, 10000)})
    return out


def _check_regular_period(f, y, s, col, ctor):
    """All single-period facts for (f, y, s); returns the Period."""
    tag = f"{refcal.LETTER[f]}"
    p = ctor(y, s) if f != 1 else ctor(y)
    rs, re_ = refcal.start_day(f, y, s), refcal.end_day(f, y, s)
    col.check(p.year == y and p.segment == s, f"{tag}:year_segment", lambda: f"{y},{s}: got {p.year},{p.segment}")
    col.check(tuple(p.to_year_segment()) == (y, s), f"{tag}:to_year_segment", lambda: f"{y},{s}: {p.to_year_segment()}")
    ps, pe, pm = p.to_python_date(position="start"), p.to_python_date(position="end"), p.to_python_date(position="middle")
    col.check(ps == rs, f"{tag}:start_day", lambda: f"{y},{s}: {ps} != {rs}")
    col.check(pe == re_, f"{tag}:end_day", lambda: f"{y},{s}: {pe} != {re_}")
    col.check(rs <= pm <= re_, f"{tag}:middle_day_inside", lambda: f"{y},{s}: {pm}")
    col.check(p.frequency == f, f"{tag}:frequency", "")
    # every calendar day of the period belongs to it (first, last and the day before/after)
    F = _ir().Frequency(f)
    for day, inside in ((rs, True), (re_, True), (pm, True)):
        q_ = _ir().Period.from_python_date(day, F)
        col.check((q_ == p) == inside, f"{tag}:from_calendar_day", lambda: f"{y},{s}: day {day} maps to {q_!r}")
    # successor tiles the calendar
    q = p + 1
    if not (y == 9999 and s == f):
        qs = q.to_python_date(position="start")
        col.check(qs == re_ + ONE_DAY, f"{tag}:tiling", lambda: f"{y},{s}: next starts {qs}, this ends {re_}")
        ny, ns = refcal.next_regular(f, y, s)
        col.check((q.year, q.segment) == (ny, ns), f"{tag}:successor", lambda: f"{y},{s}: {q.year},{q.segment}")
    col.check(q - p == 1 and p - q == -1, f"{tag}:diff_successor", "")
    col.check((p < q) and (q > p) and (p <= q) and (q >= p) and (p != q) and not (p == q) and not (q < p) and not (q <= p),
              f"{tag}:order_successor", f"{y},{s}")
    p2 = ctor(y, s) if f != 1 else ctor(y)
    col.check(p == p2 and not (p != p2) and hash(p) == hash(p2) and p <= p2 and p >= p2 and p - p2 == 0,
              f"{tag}:equal_hash", f"{y},{s}")
    col.check(q - 1 == p and hash(q - 1) == hash(p), f"{tag}:roundtrip_plus_minus", f"{y},{s}")
    # keyword shifts
    if y > 1:
        def mkp(yy_, ss_):
            return ctor(yy_, ss_) if f != 1 else ctor(yy_)
        col.check(p.shift("yoy") == mkp(y - 1, s), f"{tag}:shift_yoy", lambda: f"{y},{s}: {p.shift('yoy')}")
        col.check(p.shift("soy") == mkp(y, 1), f"{tag}:shift_soy", lambda: f"{y},{s}: {p.shift('soy')}")
        col.check(p.shift("eopy") == mkp(y - 1, f), f"{tag}:shift_eopy", lambda: f"{y},{s}: {p.shift('eopy')}")
        tty = p.shift("tty")
        if s == 1:
            col.check(tty is None, f"{tag}:shift_tty", lambda: f"{y},{s}: {tty}")
        else:
            col.check(tty is not None and tty == mkp(y, s - 1), f"{tag}:shift_tty", lambda: f"{y},{s}: {tty}")
        col.check(p.shift(-3) == p - 3 and p.shift(2) - p == 2, f"{tag}:shift_int", "")
    return p


def _run_regular_case(case):
    ir = _ir()
    col = Collector()
    f = case["f"]
    ctor = getattr(ir, _CTOR[f])
    api(f"{refcal.LETTER[f]}:period_ops", _check_regular_period, f, case["y"], case["s"], col, ctor)
    col.done()


def _run_chunk_regular(chunk):
    ir = _ir()
    f = chunk["f"]
    ctor = getattr(ir, _CTOR[f])
    years = chunk["years"] if "years" in chunk else range(chunk["lo"], chunk["hi"])
    n = 0
    failures = []
    seen_buckets = {}
    samples = []
    for y in years:
        for s in range(1, f + 1):
            n += 1
            col = Collector()
            try:
                _check_regular_period(f, y, s, col, ctor)
            except Exception as exc:  # noqa: BLE001
                col.fail(f"{refcal.LETTER[f]}:period_ops:raises:{type(exc).__name__}", f"{y},{s}: {exc}")
            for b, m in col.items:
                if seen_buckets.setdefault(b, 0) < 2:
                    seen_buckets[b] += 1
                    failures.append((b, m, {"f": f, "y": y, "s": s}))
            if len(samples) < 1:
                samples.append({"f": f, "y": y, "s": s})
    return {"evaluations": n, "nontrivial": n, "labels": {f"freq_{refcal.LETTER[f]}": n},
            "samples": samples, "failures": failures}


# ---------------------------------------------------------------------------
# Exhaustive enumeration: daily
# ---------------------------------------------------------------------------

def _chunks_daily(tier):
    if tier == "quick":
        yrs = [(1995, 2031), (1, 3), (4, 5), (100, 101), (400, 401), (1600, 1601), (1899, 1901), (2100, 2101), (9998, 10000)]
        return [{"lo": a, "hi": b} for a, b in yrs]
    return [{"lo": lo, "hi": min(lo + 250, 10000)} for lo in range(1, 10000, 250)]


def _check_daily_period(d: dt.date, col, ir):
    p = ir.dd(d.year, d.month, d.day)
    yday = d.timetuple().tm_yday
    col.check((p.year, p.month, p.day) == (d.year, d.month, d.day), "D:ymd", lambda: f"{d}")
    col.check(tuple(p.to_ymd()) == (d.year, d.month, d.day), "D:to_ymd", lambda: f"{d}")
    for pos in ("start", "middle", "end"):
        col.check(p.to_python_date(position=pos) == d, f"D:python_date_{pos}", lambda: f"{d}")
    seg = api("D:segment", lambda: p.segment)
    col.check(seg == yday, "D:segment", lambda: f"{d}: segment {seg} != day of year {yday}")
    ys = api("D:to_year_segment", p.to_year_segment)
    col.check(tuple(ys) == (d.year, yday), "D:to_year_segment", lambda: f"{d}: {ys}")
    col.check(ir.dd(d.year, None, yday) == p, "D:from_day_of_year", lambda: f"{d}")
    col.check(p.frequency == 365, "D:frequency", "")
    if d < dt.date.max:
        q = p + 1
        d1 = d + ONE_DAY
        col.check(q.to_python_date() == d1, "D:tiling", lambda: f"{d}: successor is {q}")
        col.check(q - p == 1 and p - q == -1 and q - 1 == p, "D:diff_successor", lambda: f"{d}")
        col.check((p < q) and (q > p) and (p <= q) and (q >= p) and (p != q) and not (p == q) and not (q < p),
                  "D:order_successor", lambda: f"{d}")
        col.check(hash(q - 1) == hash(p), "D:equal_hash", lambda: f"{d}")
    if d.year > 1:
        col.check(p.shift("soy") == ir.dd(d.year, 1, 1), "D:shift_soy", lambda: f"{d}: {p.shift('soy')}")
        col.check(p.shift("eopy") == ir.dd(d.year - 1, 12, 31), "D:shift_eopy", lambda: f"{d}: {p.shift('eopy')}")
        tty = api("D:shift_tty", p.shift, "tty")
        if yday == 1:
            col.check(tty is None, "D:shift_tty", lambda: f"{d}: {tty}")
        else:
            col.check(tty is not None and tty.to_python_date() == d - ONE_DAY, "D:shift_tty", lambda: f"{d}: {tty}")
        if d.toordinal() > 366:
            col.check(p.shift("yoy").to_python_date() == d - dt.timedelta(days=365), "D:shift_yoy", lambda: f"{d}")
    return p


def _run_daily_case(case):
    ir = _ir()
    col = Collector()
    _check_daily_period(dt.date.fromordinal(case["o"]), col, ir)
    col.done()


def _run_chunk_daily(chunk):
    ir = _ir()
    lo = dt.date(chunk["lo"], 1, 1).toordinal()
    hi = dt.date(chunk["hi"] - 1, 12, 31).toordinal() + 1
    n = 0
    failures = []
    seen = {}
    for o in range(lo, hi):
        d = dt.date.fromordinal(o)
        n += 1
        col = Collector()
        try:
            _check_daily_period(d, col, ir)
        except Violation as v:
            col.items.extend(v.items)
        except Exception as exc:  # noqa: BLE001
            col.fail(f"D:period_ops:raises:{type(exc).__name__}", f"{d}: {exc}")
        for b, m in col.items:
            if seen.setdefault(b, 0) < 2:
                seen[b] += 1
                failures.append((b, m, {"f": 365, "o": o}))
    return {"evaluations": n, "nontrivial": n, "labels": {"freq_D": n},
            "samples": [{"f": 365, "o": lo}], "failures": failures}


# ---------------------------------------------------------------------------
# Hypothesis: algebra on pairs / triples, frequency mixing
# ---------------------------------------------------------------------------

@st.composite
def _algebra_case(draw):
    a = draw(pgen.period_desc(margin_years=1))
    b = pgen.nearby(draw, a, max_dist=draw(st.sampled_from([3, 40, 3000])))
    c = pgen.nearby(draw, a, max_dist=draw(st.sampled_from([3, 40, 3000])))
    other_freqs = [f for f in refcal.ALL if f != a["f"]]
    # a period of another frequency, preferably with the *same* position
    of = draw(st.sampled_from(other_freqs))
    if draw(st.booleans()):
        idx = pgen.ref_index(a)
        if of in refcal.REGULAR:
            idx = min(max(idx, of), of * 9999)
        elif of == 365:
            idx = min(max(idx, 1), dt.date(9999, 1, 1).toordinal())
        other = pgen.from_index(of, idx)
    else:
        other = draw(pgen.period_desc(freq=of, margin_years=1))
    return {"a": a, "b": b, "c": c, "other": other}


def _sign(x):
    return (x > 0) - (x < 0)


def _year_of(pd):
    if pd["f"] in refcal.REGULAR:
        return pd["y"]
    if pd["f"] == 365:
        return dt.date.fromordinal(pd["o"]).year
    return _sign(pd["n"])


def _classify_algebra(case):
    a, b, c = case["a"], case["b"], case["c"]
    differ = pgen.ref_index(a) != pgen.ref_index(b)
    straddle = _year_of(a) != _year_of(b) or _year_of(a) != _year_of(c)
    labels = [f"freq_{refcal.LETTER[a['f']]}", f"other_{refcal.LETTER[case['other']['f']]}"]
    if straddle:
        labels.append("straddles_year")
    if pgen.ref_index(a) == pgen.ref_index(b):
        labels.append("equal_pair")
    if pgen.ref_index(case["other"]) == pgen.ref_index(a):
        labels.append("other_same_position")
    return differ and straddle, labels


def _must_raise(col, bucket, fn):
    try:
        out = fn()
    except Exception:  # noqa: BLE001 - rejection is what the property asks for
        return
    col.fail(bucket, f"returned {out!r} instead of rejecting mixed frequencies")


def _check_algebra(case):
    ir = _ir()
    col = Collector()
    a, b, c = (pgen.mk(case[k]) for k in "abc")
    ia, ib, ic = (pgen.ref_index(case[k]) for k in "abc")
    n, m = ib - ia, ic - ia
    tag = refcal.LETTER[case["a"]["f"]]
    # differences and sums
    col.check(b - a == n and a - b == -n, f"{tag}:difference", lambda: f"{a!r},{b!r}: {b - a} vs {n}")
    col.check(a + (b - a) == b, f"{tag}:p_plus_q_minus_p", lambda: f"{a!r},{b!r}")
    col.check((a + n) - a == n and (a + m) - a == m, f"{tag}:p_plus_n_minus_p", lambda: f"{a!r},{n}")
    col.check(a + n == b and n + a == b and a - (-n) == b and b - n == a, f"{tag}:plus_int", lambda: f"{a!r},{n}")
    col.check((a + n) + (m - n) == c and a + m == c, f"{tag}:plus_assoc", lambda: f"{a!r},{n},{m}")
    col.check((c - b) == (c - a) - (b - a), f"{tag}:difference_additive", lambda: f"{a!r},{b!r},{c!r}")
    # order, equality, hashing agree with the reference order
    for (x, ix, y, iy) in ((a, ia, b, ib), (b, ib, c, ic), (c, ic, a, ia)):
        s = _sign(ix - iy)
        got = ((x < y), (x <= y), (x == y), (x != y), (x >= y), (x > y))
        exp = (s < 0, s <= 0, s == 0, s != 0, s >= 0, s > 0)
        col.check(got == exp, f"{tag}:comparison", lambda: f"{x!r} vs {y!r}: {got} expected {exp}")
        if s == 0:
            col.check(hash(x) == hash(y), f"{tag}:hash_equal", lambda: f"{x!r}")
            col.check(y in {x} and {x: 1}.get(y) == 1, f"{tag}:set_membership", lambda: f"{x!r}")
        else:
            col.check(len({x, y}) == 2, f"{tag}:set_distinct", lambda: f"{x!r},{y!r}")
    srt = sorted([a, b, c])
    col.check([t - a for t in srt] == sorted([0, n, m]), f"{tag}:sorted", lambda: f"{srt}")
    col.check(min(a, b, c) - a == min(0, n, m) and max(a, b, c) - a == max(0, n, m), f"{tag}:min_max", "")
    a_copy = copy.deepcopy(a)
    col.check(a_copy == a and hash(a_copy) == hash(a), f"{tag}:copy_equal", "")
    # calendar consistency of the distance for calendar frequencies
    f = case["a"]["f"]
    if f in refcal.CALENDAR:
        da, db = a.to_python_date(position="start"), b.to_python_date(position="start")
        col.check(_sign((db - da).days) == _sign(n), f"{tag}:order_vs_calendar", lambda: f"{a!r} {da}, {b!r} {db}")
        if f == 365:
            col.check((db - da).days == n, f"{tag}:distance_vs_calendar", lambda: f"{da},{db},{n}")
        else:
            months = (db.year - da.year) * 12 + (db.month - da.month)
            col.check(months == n * (12 // f), f"{tag}:distance_vs_calendar", lambda: f"{da},{db},{n}")
    # periods_from_until
    lo, hi = (a, b) if n >= 0 else (b, a)
    if abs(n) <= 200:
        lst = api(f"{tag}:periods_from_until", ir.periods_from_until, lo, hi)
        col.check(len(lst) == abs(n) + 1 and all(t - lo == i for i, t in enumerate(lst)), f"{tag}:periods_from_until", lambda: f"{lo!r}..{hi!r}")
    # mixing frequencies is rejected
    o = pgen.mk(case["other"])
    otag = f"{tag}{refcal.LETTER[case['other']['f']]}"
    _must_raise(col, f"mix:{otag}:eq", lambda: a == o)
    _must_raise(col, f"mix:{otag}:ne", lambda: a != o)
    _must_raise(col, f"mix:{otag}:lt", lambda: a < o)
    _must_raise(col, f"mix:{otag}:le", lambda: a <= o)
    _must_raise(col, f"mix:{otag}:gt", lambda: o > a)
    _must_raise(col, f"mix:{otag}:ge", lambda: o >= a)
    _must_raise(col, f"mix:{otag}:sub", lambda: a - o)
    _must_raise(col, f"mix:{otag}:span", lambda: ir.Span(a, o))
    _must_raise(col, f"mix:{otag}:rshift", lambda: a >> o)
    _must_raise(col, f"mix:{otag}:periods_from_until", lambda: ir.periods_from_until(a, o))
    col.done()


# ---------------------------------------------------------------------------
# Span machine: constructor + operation sequence against a list model
# ---------------------------------------------------------------------------

_STEP = st.one_of(st.sampled_from([1, 1, -1, 2, -2, 3, -3]), st.integers(-7, 7).filter(lambda k: k != 0))


@st.composite
def _span_case(draw):
    f = draw(st.sampled_from(refcal.ALL))
    a = draw(pgen.period_desc(freq=f, margin_years=3))
    b = pgen.nearby(draw, a, max_dist=draw(st.sampled_from([2, 12, 60])))
    ctx_s = pgen.nearby(draw, a, max_dist=30)
    ctx_e = pgen.nearby(draw, a, max_dist=30)
    how = draw(st.sampled_from([
        "ctor", "ctor", "rshift", "lshift", "pow", "ellipsis",
        "open_start", "open_end", "open_both", "none_rshift", "rshift_none",
    ]))
    init = {"how": how, "a": a, "b": b, "step": draw(_STEP), "n": draw(st.integers(-8, 8)), "ctx": [ctx_s, ctx_e]}
    if how.startswith("open") or "none" in how:
        init["late"] = draw(st.booleans())      # shifting operations applied to the open span before it is resolved
    op = st.one_of(
        st.tuples(st.just("reverse")),
        st.tuples(st.just("reversed")),
        st.tuples(st.just("copy")),
        st.tuples(st.sampled_from(["shift", "shift_start", "shift_end", "add", "radd", "sub"]), st.integers(-9, 9)),
        st.tuples(st.just("restep"), st.integers(1, 5)),
        st.tuples(st.just("resolve")),
    )
    ops = draw(st.lists(op, max_size=8))
    probes = draw(st.lists(st.tuples(st.one_of(st.none(), st.integers(-12, 12)),
                                     st.one_of(st.none(), st.integers(-12, 12)),
                                     st.one_of(st.none(), st.integers(-4, 4).filter(lambda k: k != 0))), max_size=3))
    return {"f": f, "init": init, "ops": [list(o) for o in ops], "slices": [list(p) for p in probes]}


_OPEN_OPS = ("shift", "shift_start", "shift_end", "add", "radd", "sub", "copy")


def _classify_span(case):
    init = case["init"]
    labels = [f"freq_{refcal.LETTER[case['f']]}", f"init_{init['how']}"]
    names = [o[0] for o in case["ops"]]
    nontrivial = False
    if init["how"] == "ctor" and abs(init["step"]) > 1:
        labels.append("step_gt_1")
        nontrivial = True
    if (init["how"] == "ctor" and init["step"] < 0) or init["how"] in ("lshift",) or (init["how"] == "pow" and init["n"] < -1):
        labels.append("backward")
        nontrivial = True
    if init["how"].startswith("open") or "none" in init["how"]:
        labels.append("open_resolved")
        nontrivial = True
        npre = 0
        for nm in names:
            if nm not in _OPEN_OPS:
                break
            npre += nm != "copy"
        if init.get("late") and npre:
            labels.append("open_shifted_before_resolve" + ("_twice" if npre > 1 else ""))
    if "reverse" in names or "reversed" in names:
        i = min(k for k, nm in enumerate(names) if nm in ("reverse", "reversed"))
        if any(nm in ("shift", "shift_start", "shift_end", "add", "sub", "radd") for nm in names[i + 1:]):
            labels.append("mutation_after_reverse")
            nontrivial = True
    if "restep" in names:
        labels.append("restep")
        nontrivial = True
    return nontrivial, labels


class _Model:
    """Span model: integer positions of start/end and a step."""

    def __init__(self, s, e, step):
        self.s, self.e, self.step = s, e, step

    def items(self):
        return refcal.enumerate_span(self.s, self.e, self.step)


def _compare_span(col, span, model, f, mk_at, where, slices):
    ir = _ir()
    exp = model.items()
    if isinstance(span, ir.Period):
        got = [t for t in span]
        col.check(len(exp) == 1 and got[0] == mk_at(exp[0]) and len(span) == 1, "span:pow_unit", lambda: f"{where}: {span!r}")
        return
    if isinstance(span, ir.EmptySpan):
        col.check(len(span) == 0 and list(span) == [], "span:empty", where)
        return
    base = mk_at(model.s)
    got = api("span:iter", lambda: [t - base + model.s for t in span])
    col.check(got == exp, "span:iteration", lambda: f"{where}: {span!r} iterates {got[:12]} expected {exp[:12]}")
    n = api("span:len", len, span)
    col.check(n == len(exp), "span:len", lambda: f"{where}: {span!r} len {n} expected {len(exp)}")
    col.check(span.start == mk_at(model.s) and span.end == mk_at(model.e) and span.step == model.step,
              "span:start_end_step", lambda: f"{where}: {span!r}")
    col.check(span.start_date == span.start and span.end_date == span.end, "span:start_date_alias", where)
    col.check(span.direction == ("forward" if model.step > 0 else "backward"), "span:direction", lambda: f"{where}: {span!r}")
    col.check(span.frequency == f, "span:frequency", where)
    col.check(all(t.frequency == f for t in span), "span:item_frequency", where)
    # indexing, positive and negative
    for i in range(-len(exp), len(exp)):
        t = api("span:getitem", span.__getitem__, i)
        if not col.check(t - base + model.s == exp[i], "span:getitem", lambda: f"{where}: {span!r}[{i}] = {t!r}"):
            break
    for bad in (len(exp), -len(exp) - 1):
        try:
            t = span[bad]
        except IndexError:
            pass
        except Exception as exc:  # noqa: BLE001
            col.fail("span:getitem_out_of_range", f"{where}: {span!r}[{bad}] raised {type(exc).__name__}")
        else:
            col.fail("span:getitem_out_of_range", f"{where}: {span!r}[{bad}] returned {t!r}")
    for lo, hi, st_ in slices + [[None, None, -1], [None, None, None]]:
        sl = slice(lo, hi, st_)
        g = api("span:slice", span.__getitem__, sl)
        gg = [t - base + model.s for t in g]
        col.check(gg == exp[sl], "span:slice", lambda: f"{where}: {span!r}[{lo}:{hi}:{st_}] = {gg} expected {exp[sl]}")
    # distances to a period
    rng = api("span:sub_period", lambda: span - base)
    col.check(list(rng) == [x - model.s for x in exp], "span:sub_period",
              lambda: f"{where}: {span!r} - {base!r} = {list(rng)[:10]} expected {[x - model.s for x in exp][:10]}")
    # reversal
    rev = api("span:reversed", span.reversed)
    rgot = [t - base + model.s for t in rev]
    col.check(rgot == _Model(model.e, model.s, -model.step).items(), "span:reversed", lambda: f"{where}: {span!r}")
    if (model.e - model.s) % model.step == 0:
        col.check(rgot == exp[::-1], "span:reversed_is_reverse_iteration", lambda: f"{where}: {span!r}")
    col.check(span == span.copy() and span.copy() is not span, "span:copy_eq", where)
    # resolve of a resolved span is the identity
    res = span.resolve(ir.dates.ResolutionContext(mk_at(model.s - 5), mk_at(model.e + 5)))
    col.check(res == span, "span:resolve_identity", where)
    # periods_from_until agreement for unit forward spans
    if model.step == 1 and len(exp) <= 200:
        pu = ir.periods_from_until(span.start, span.end)
        col.check(list(pu) == list(span), "span:periods_from_until", where)


def _check_span(case):
    ir = _ir()
    col = Collector()
    f = case["f"]
    init = case["init"]
    ia, ib = pgen.ref_index(init["a"]), pgen.ref_index(init["b"])

    def mk_at(idx):
        return pgen.mk(pgen.from_index(f, idx))

    a, b = pgen.mk(init["a"]), pgen.mk(init["b"])
    cs, ce = (pgen.ref_index(x) for x in init["ctx"])
    ctx = ir.dates.ResolutionContext(mk_at(cs), mk_at(ce))
    done_ops = 0
    how = init["how"]
    step = init["step"]
    if how == "ctor":
        span = api("span:ctor", ir.Span, a, b, step)
        model = _Model(ia, ib, step)
    elif how == "rshift":
        span = api("span:rshift", lambda: a >> b)
        model = _Model(ia, ib, 1)
    elif how == "lshift":
        r1 = api("span:lshift", lambda: a << b)
        r2 = api("span:lshift", lambda: b << a)
        l1, l2 = list(r1), list(r2)
        lo, hi = min(ia, ib), max(ia, ib)
        expect = [mk_at(i) for i in range(hi, lo - 1, -1)]
        if ia == ib:
            col.check(l1 == expect and l2 == expect, "span:lshift", lambda: f"{a!r} << {b!r}")
        else:
            col.check(sorted([len(l1), len(l2)]) == [0, len(expect)] and (l1 == expect or l2 == expect),
                      "span:lshift", lambda: f"{a!r} << {b!r}: {l1[:5]} / {l2[:5]}")
        col.check(r1.step == -1 and r2.step == -1, "span:lshift_step", "")
        span = r1
        model = _Model(ib, ia, -1) if (l1 == expect or ia == ib) else _Model(ia, ib, -1)
        # which operand the code treats as start is not asserted; read it off
        model = _Model(span.start - a + ia, span.end - a + ia, -1)
    elif how == "pow":
        n = init["n"]
        span = api("span:pow", lambda: a ** n)
        if n == 0:
            col.check(len(span) == 0 and list(span) == [], "span:pow_zero", "")
            col.done()
            return
        model = _Model(ia, ia + n - 1, 1) if n > 0 else _Model(ia, ia + n + 1, -1)
    elif how == "ellipsis":
        ctor = {1: ir.yy, 2: ir.hh, 4: ir.qq, 12: ir.mm, 0: ir.ii}.get(f)
        if ctor is None:
            span = api("span:rshift", lambda: a >> b)
        else:
            def args(pd):
                if f == 1:
                    return (pd["y"],)
                if f == 0:
                    return (pd["n"],)
                return (pd["y"], pd["s"])
            span = api("span:ellipsis", ctor, *args(init["a"]), ..., *args(init["b"]))
        model = _Model(ia, ib, 1)
    else:
        # open-ended spans resolved against a context
        if how == "open_start":
            raw = api("span:ctor_open", ir.Span, None, b, step)
            model = _Model(cs if step > 0 else ce, ib, step)
        elif how == "open_end":
            raw = api("span:ctor_open", ir.Span, a, None, step)
            model = _Model(ia, ce if step > 0 else cs, step)
        elif how == "open_both":
            raw = api("span:ctor_open", ir.Span, None, None, step)
            model = _Model(cs, ce, step) if step > 0 else _Model(ce, cs, step)
        elif how == "none_rshift":
            raw = api("span:none_rshift", lambda: None >> b)
            model = _Model(cs, ib, 1)
        else:
            raw = api("span:rshift_none", lambda: a >> None)
            model = _Model(ia, ce, 1)
        col.check(raw.needs_resolve and not bool(raw), "span:needs_resolve", lambda: f"{raw!r}")
        col.check(len(raw) is None if False else True, "span:open_len", "")
        if init.get("late"):
            # shifting and resolution agree: shift the open span, then resolve, against resolve-then-shift (the model)
            for op in case["ops"]:
                name = op[0]
                if name not in _OPEN_OPS:
                    break
                if name == "copy":
                    raw = raw.copy()
                elif name == "shift":
                    api("span:open:shift", raw.shift, op[1])
                    model = _Model(model.s + op[1], model.e + op[1], model.step)
                elif name == "shift_start":
                    api("span:open:shift_start", raw.shift_start, op[1])
                    model = _Model(model.s + op[1], model.e, model.step)
                elif name == "shift_end":
                    api("span:open:shift_end", raw.shift_end, op[1])
                    model = _Model(model.s, model.e + op[1], model.step)
                else:
                    old_ = raw
                    raw = api(f"span:open:{name}", (lambda: old_ + op[1]) if name == "add" else
                              (lambda: op[1] + old_) if name == "radd" else (lambda: old_ - op[1]))
                    k_ = op[1] if name != "sub" else -op[1]
                    model = _Model(model.s + k_, model.e + k_, model.step)
                done_ops += 1
            how = f"{how}, {done_ops} operations before resolve {case['ops'][:done_ops]}"
        span = api("span:resolve", raw.resolve, ctx)
        col.check(not span.needs_resolve, "span:resolved_flag", lambda: f"{span!r}")
        col.check(raw.needs_resolve, "span:resolve_is_pure", "resolve() changed the open span in place")

    slices = case["slices"]
    _compare_span(col, span, model, f, mk_at, f"after {how}", slices)
    if isinstance(span, ir.Period) or isinstance(span, ir.EmptySpan):
        col.done()
        return

    for k, op in enumerate(case["ops"]):
        if k < done_ops:
            continue
        name = op[0]
        where = f"after op {k} {op}"
        before = (model.s, model.e, model.step)
        if name == "reverse":
            out = api("span:reverse", span.reverse)
            model = _Model(model.e, model.s, -model.step)
        elif name == "reversed":
            old = span
            span = api("span:reversed", span.reversed)
            col.check((old.start - mk_at(before[0]), old.end - mk_at(before[1]), old.step) == (0, 0, before[2]),
                      "span:reversed_is_pure", where)
            model = _Model(model.e, model.s, -model.step)
        elif name == "copy":
            span = span.copy()
        elif name == "shift":
            api("span:shift", span.shift, op[1])
            model = _Model(model.s + op[1], model.e + op[1], model.step)
        elif name == "shift_start":
            api("span:shift_start", span.shift_start, op[1])
            model = _Model(model.s + op[1], model.e, model.step)
        elif name == "shift_end":
            api("span:shift_end", span.shift_end, op[1])
            model = _Model(model.s, model.e + op[1], model.step)
        elif name in ("add", "radd", "sub"):
            old = span
            if name == "add":
                span = api("span:add", lambda: old + op[1])
            elif name == "radd":
                span = api("span:radd", lambda: op[1] + old)
            else:
                span = api("span:sub", lambda: old - op[1])
            k_ = op[1] if name != "sub" else -op[1]
            col.check((old.start - mk_at(before[0]), old.end - mk_at(before[1]), old.step) == (0, 0, before[2]),
                      "span:arith_is_pure", where)
            model = _Model(model.s + k_, model.e + k_, model.step)
        elif name == "restep":
            old = span
            if model.step > 0:
                span = api("span:restep", lambda: old >> op[1])
                model = _Model(model.s, model.e, op[1])
            else:
                span = api("span:restep", lambda: old << -op[1])
                model = _Model(model.s, model.e, -op[1])
        elif name == "resolve":
            span = api("span:resolve", span.resolve, ctx)
        _compare_span(col, span, model, f, mk_at, where, slices)
        if col.items:
            break
    col.done()


SUBCHECKS = [
    EnumSub("enum_regular", _chunks_regular, _run_chunk_regular, check=_run_regular_case),
    EnumSub("enum_daily", _chunks_daily, _run_chunk_daily, check=_run_daily_case),
    HypSub("period_algebra", _algebra_case, _check_algebra, _classify_algebra,
           budget={"quick": 3000, "thorough": 80000}),
    HypSub("span_machine", _span_case, _check_span, _classify_span,
           budget={"quick": 2500, "thorough": 60000}),
]
