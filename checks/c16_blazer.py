"""
C16 - Block decomposition of an incidence matrix is a valid sequential ordering.

Oracle: a validity predicate, not a reference decomposition (many block
orders are correct).  The harness owns its graph code: augmenting-path
perfect matching, Tarjan strong components of the matching-contracted digraph
(the unique irreducible block structure, used only to classify cases), and a
topological test of the generator's own zero-shift dependency graph for the
`Sequential.sequentialize` part.
"""

import contextlib
import io
import re

from hypothesis import strategies as st

from vlib.runner import HypSub, EnumSub, Violation, Collector, api

PROPERTY = "C16"

RULE = (
    "enum_blaze: every boolean n x n matrix with a perfect matching for n<=4 (harness augmenting-path test), each "
    "passed to blaze() with default ids and with deterministic non-identity id labelings; blaze_sampled: n in 5..30, "
    "families planted block-triangular then row/column permuted, (permuted) triangular, dense, sparse-with-matching, "
    "wide-and-shallow (n up to 40: single-unknown equations plus a short chain, permuted), "
    "with none/identity/permuted/non-contiguous ids; steady_blocks: small Simultaneous models whose steady incidence "
    "is a drawn matrix (split_into_blocks and solve_steady(split_into_blocks=True)). A matrix case is non-trivial iff "
    "the matrix is not already lower triangular and its irreducible block structure (harness strong components) has "
    ">=2 blocks of which one is larger than 1x1. enum_sequential: every zero-shift dependency pattern among n<=4 "
    "equations as a Sequential model; sequential_models: n in 2..30 with a planted order then shuffled, or a planted "
    "zero-shift cycle; lags/leads, LHS transforms, identities as decoration. A Sequential case is non-trivial iff "
    "the written order is not sequential (reordering needed, or cyclic)"
)

ASSUMPTIONS = [
    "'earlier block' means earlier in the tuple returned by blaze() (the order in which _steady_nonlinear solves the blocks)",
    "incidence matrices are boolean ndarrays (what calculate_incidence_matrix builds); ids are distinct non-negative ints",
    "only the validity of the decomposition is judged, not its fineness (blaze may return coarser blocks than the irreducible ones)",
    "Sequential models have one equation per left-hand variable and no zero-shift self reference on the right-hand side",
    "for a cyclic Sequential model any exception counts as 'raises'",
    "steady_blocks uses transition equations only, no steady plan (no exogenize/endogenize swaps), nonlinear (linear=False) steady solver",
]


def _ir():
    import irispie as ir
    return ir


def _blazer():
    from irispie.incidences import blazer
    return blazer


# ---------------------------------------------------------------------------
# Harness graph code on bitmask rows (bit j of rows[i] <=> incidence of quantity j in equation i)
# ---------------------------------------------------------------------------

def _rows_from_strings(strs):
    return [sum(1 << j for j, ch in enumerate(s) if ch == "1") for s in strs]


def _strings_from_rows(rows, n):
    return ["".join("1" if (r >> j) & 1 else "0" for j in range(n)) for r in rows]


def _rows_from_code(n, code):
    """Row-major bit code -> bitmask rows (bit i*n+j of code is entry (i, j))."""
    full = (1 << n) - 1
    return [(code >> (i * n)) & full for i in range(n)]


def _matching(rows, ncols):
    """Maximum bipartite matching by augmenting paths; returns column->row list (-1 if free) and its size."""
    owner = [-1] * ncols

    def augment(i, seen):
        r = rows[i]
        for j in range(ncols):
            if (r >> j) & 1 and not seen[j]:
                seen[j] = True
                if owner[j] < 0 or augment(owner[j], seen):
                    owner[j] = i
                    return True
        return False

    size = 0
    for i in range(len(rows)):
        if augment(i, [False] * ncols):
            size += 1
    return owner, size


def _has_perfect_matching(rows, n):
    if len(rows) != n:
        return False
    return _matching(rows, n)[1] == n


def _is_lower_triangular(rows, n):
    return all((rows[i] >> (i + 1)) == 0 for i in range(n))


def _fine_block_sizes(rows, n):
    """Sizes of the irreducible diagonal blocks (strong components of the
    digraph row i -> row matched to column j, for every incidence (i, j))."""
    owner, size = _matching(rows, n)
    if size != n:
        return None
    succ = [[owner[j] for j in range(n) if (rows[i] >> j) & 1 and owner[j] != i] for i in range(n)]
    index = [None] * n
    low = [0] * n
    on = [False] * n
    stack = []
    sizes = []
    counter = [0]

    def visit(v):
        index[v] = low[v] = counter[0]
        counter[0] += 1
        stack.append(v)
        on[v] = True
        for w in succ[v]:
            if index[w] is None:
                visit(w)
                low[v] = min(low[v], low[w])
            elif on[w]:
                low[v] = min(low[v], index[w])
        if low[v] == index[v]:
            k = 0
            while True:
                w = stack.pop()
                on[w] = False
                k += 1
                if w == v:
                    break
            sizes.append(k)

    for v in range(n):
        if index[v] is None:
            visit(v)
    return sizes


def _bucket(k):
    if k <= 1:
        return str(k)
    if k <= 3:
        return "2-3"
    if k <= 7:
        return "4-7"
    if k <= 15:
        return "8-15"
    return "16+"


def _matrix_class(rows, n):
    """(nontrivial, labels) from the stated rule, on the matrix alone."""
    sizes = _fine_block_sizes(rows, n)
    lower = _is_lower_triangular(rows, n)
    nb, mb = len(sizes), max(sizes)
    nontrivial = (not lower) and nb >= 2 and mb > 1
    labels = [f"blocks_{_bucket(nb)}", f"maxblock_{_bucket(mb)}"]
    if lower:
        labels.append("already_lower_triangular")
    return nontrivial, labels, nb


# ---------------------------------------------------------------------------
# The validity predicate
# ---------------------------------------------------------------------------

def _extract_blocks(out, tag):
    """Plain-int view of the returned blocks; a malformed return is a violation."""
    try:
        blocks = [([int(e) for e in b.eids], [int(q) for q in b.qids]) for b in out]
    except Exception as exc:  # noqa: BLE001
        raise Violation(f"{tag}:malformed_return", f"{type(exc).__name__}: {exc}; returned {out!r}"[:600])
    return blocks


def _validate_blocks(col, tag, rows, n, eids, qids, blocks, show):
    """blocks: list of (eid list, qid list) in solution order; eids/qids: label of each row / column."""
    row_of = {e: i for i, e in enumerate(eids)}
    col_of = {q: j for j, q in enumerate(qids)}
    all_e = [e for be, _ in blocks for e in be]
    all_q = [q for _, bq in blocks for q in bq]
    ok = col.check(sorted(all_e) == sorted(eids), f"{tag}:equations_not_partitioned",
                   lambda: f"{show()}: block eids {all_e} vs eids {list(eids)}")
    ok &= col.check(sorted(all_q) == sorted(qids), f"{tag}:quantities_not_partitioned",
                    lambda: f"{show()}: block qids {all_q} vs qids {list(qids)}")
    if not ok:
        return False
    seen_cols = 0
    for k, (be, bq) in enumerate(blocks):
        if not col.check(len(be) == len(bq) and len(be) >= 1, f"{tag}:block_not_square",
                         lambda: f"{show()}: block {k} has {len(be)} equations, {len(bq)} quantities"):
            return False
        cols = [col_of[q] for q in bq]
        mask = sum(1 << j for j in cols)
        seen_cols |= mask
        sub = []
        for e in be:
            r = rows[row_of[e]]
            if not col.check((r & ~seen_cols) == 0, f"{tag}:incidence_on_later_block",
                             lambda: f"{show()}: equation {e} in block {k} (eids {be}, qids {bq}) involves quantities "
                                     f"{[qids[j] for j in range(n) if (r >> j) & 1 and not (seen_cols >> j) & 1]} of later blocks; "
                                     f"blocks {blocks}"):
                return False
            sub.append(sum(1 << t for t, j in enumerate(cols) if (r >> j) & 1))
        if not col.check(_has_perfect_matching(sub, len(cols)), f"{tag}:block_structurally_singular",
                         lambda: f"{show()}: block {k} (eids {be}, qids {bq}) has no perfect matching; blocks {blocks}"):
            return False
    return True


def _np_matrix(rows, n):
    import numpy as np
    im = np.zeros((n, n), dtype=bool)
    for i, r in enumerate(rows):
        for j in range(n):
            if (r >> j) & 1:
                im[i, j] = True
    return im


def _check_blaze_on(rows, n, eids, qids, return_info, col, show):
    """Call blaze on a fresh ndarray and apply the predicate; returns the blocks (or None)."""
    bz = _blazer()
    im = _np_matrix(rows, n)
    kwargs = {}
    if eids is not None:
        kwargs["eids"] = tuple(eids)
    if qids is not None:
        kwargs["qids"] = tuple(qids)
    out = api("blaze", bz.blaze, im, **kwargs)
    blocks = _extract_blocks(out, "blaze")
    lab_e = list(eids) if eids is not None else list(range(n))
    lab_q = list(qids) if qids is not None else list(range(n))
    valid = _validate_blocks(col, "blaze", rows, n, lab_e, lab_q, blocks, show)
    if return_info:
        out2 = api("blaze:return_info", bz.blaze, _np_matrix(rows, n), return_info=True, **kwargs)
        good = isinstance(out2, tuple) and len(out2) == 2 and isinstance(out2[1], dict)
        if col.check(good, "blaze:return_info_shape", lambda: f"{show()}: {type(out2).__name__}"):
            blocks2 = _extract_blocks(out2[0], "blaze:return_info")
            col.check(blocks2 == blocks, "blaze:return_info_changes_blocks", lambda: f"{show()}: {blocks} vs {blocks2}")
    # is_sequential(im) is the lower-triangularity test used by Sequential.is_sequential
    seq = api("is_sequential", bz.is_sequential, _np_matrix(rows, n))
    col.check(bool(seq) == _is_lower_triangular(rows, n), "is_sequential:wrong",
              lambda: f"{show()}: is_sequential -> {seq}")
    return blocks if valid else None


# ---------------------------------------------------------------------------
# enum_blaze: all matrices with a perfect matching, n <= 4
# ---------------------------------------------------------------------------

def _perm_unrank(n, k):
    """k-th permutation of range(n) in lexicographic order (k taken modulo n!)."""
    items = list(range(n))
    fact = 1
    for i in range(2, n + 1):
        fact *= i
    k %= fact
    out = []
    for i in range(n, 0, -1):
        fact //= i
        out.append(items.pop(k // fact))
        k %= fact
    return out


def _enum_labeling(n, code, lab):
    """lab 0: ids omitted; lab 1: non-contiguous permuted ids; lab 2: permuted 0..n-1 (both != position)."""
    if lab == 0:
        return None, None
    fact = 1
    for i in range(2, n + 1):
        fact *= i
    span = max(fact - 1, 1)
    if lab == 1:
        pe = _perm_unrank(n, 1 + code % span)
        pq = _perm_unrank(n, 1 + (code // span) % span)
        return [3 + 4 * p for p in pe], [5 + 7 * p for p in pq]
    pe = _perm_unrank(n, 1 + (code * 7 + 5) % span)
    pq = _perm_unrank(n, 1 + (code * 11 + 3) % span)
    if n == 1:
        return [1], [2]
    return pe, pq


def _check_enum_blaze(case):
    n, code, lab = case["n"], case["code"], case["lab"]
    rows = _rows_from_code(n, code)
    if not _has_perfect_matching(rows, n):
        return None   # outside the property's domain
    eids, qids = _enum_labeling(n, code, lab)
    col = Collector()
    blocks = _check_blaze_on(rows, n, eids, qids, lab == 2 and (code >> 1) % 4 == 0, col,
                             lambda: f"matrix {_strings_from_rows(rows, n)} eids {eids} qids {qids}")
    col.done()
    return blocks


def _chunks_enum_blaze(tier):
    out = [{"n": 1, "lo": 0, "hi": 2}, {"n": 2, "lo": 0, "hi": 16}, {"n": 3, "lo": 0, "hi": 512}]
    step = 512
    out += [{"n": 4, "lo": lo, "hi": lo + step} for lo in range((1 << 16) - step, -1, -step)]   # dense (slow) end first
    for ch in out:
        ch["labs"] = "alternate" if tier == "quick" else "all"
    return out


def _enum_labs(mode, code):
    """quick: default ids + one of the two non-identity labelings per matrix; thorough: all three."""
    return [0, 1 + code % 2] if mode == "alternate" else [0, 1, 2]


def _run_chunk_enum_blaze(chunk):
    n = chunk["n"]
    labels = {}
    failures, samples = [], []
    per_bucket = {}
    evaluations = nontrivial = 0

    def bump(lb, k=1):
        labels[lb] = labels.get(lb, 0) + k

    for code in range(chunk["lo"], chunk["hi"]):
        rows = _rows_from_code(n, code)
        if not _has_perfect_matching(rows, n):
            bump("skipped_no_perfect_matching")
            continue
        nt, lbs, nb_fine = _matrix_class(rows, n)
        bump("matrices_with_perfect_matching")
        for lab in _enum_labs(chunk["labs"], code):
            case = {"n": n, "code": code, "lab": lab}
            evaluations += 1
            bump(f"n_{n}")
            bump(f"labeling_{lab}")
            for lb in lbs:
                bump(lb)
            if nt:
                nontrivial += 1
                if not samples:
                    samples.append(case)
            try:
                blocks = _check_enum_blaze(case)
            except Violation as v:
                for b, m in v.items:
                    if per_bucket.setdefault(b, 0) < 2:
                        per_bucket[b] += 1
                        failures.append((b, m, case))
                continue
            if blocks is not None:
                bump("blaze_finest" if len(blocks) == nb_fine else "blaze_coarser_than_irreducible")
    return {"evaluations": evaluations, "nontrivial": nontrivial, "labels": labels,
            "samples": samples, "failures": failures}


# ---------------------------------------------------------------------------
# blaze_sampled: n in 5..30
# ---------------------------------------------------------------------------

_DENSITIES = ("0", "1/8", "1/4", "1/2", "3/4", "7/8")


def _draw_bits(draw, width, dens):
    if width <= 0 or dens == "0":
        return 0
    r = st.integers(0, (1 << width) - 1)
    if dens == "1/8":
        return draw(r) & draw(r) & draw(r)
    if dens == "1/4":
        return draw(r) & draw(r)
    if dens == "1/2":
        return draw(r)
    if dens == "3/4":
        return draw(r) | draw(r)
    if dens == "7/8":
        return draw(r) | draw(r) | draw(r)
    return (1 << width) - 1


def _draw_block_sizes(draw, n, max_block):
    raw = draw(st.lists(st.integers(1, max_block), min_size=1, max_size=n))
    sizes, total = [], 0
    for s in raw:
        if total >= n:
            break
        s = min(s, n - total)
        sizes.append(s)
        total += s
    if total < n:
        sizes.append(n - total)
    return sizes


def _permute(rows, n, rperm, cperm):
    """Row i of the result is row rperm[i] of the input; column j of the result is column cperm[j]."""
    out = []
    for i in range(n):
        r = rows[rperm[i]]
        out.append(sum(1 << j for j in range(n) if (r >> cperm[j]) & 1))
    return out


def _draw_structured_rows(draw, n, family):
    """Bitmask rows of an n x n matrix with a perfect matching by construction, in the given family."""
    ident = list(range(n))
    if family == "planted":
        sizes = _draw_block_sizes(draw, n, draw(st.sampled_from([2, 3, 5, 8, n])))
        din = draw(st.sampled_from(_DENSITIES))
        dlow = draw(st.sampled_from(("0", "1/8", "1/8", "1/4", "1/2")))
        keep_diag = draw(st.booleans())
        rows, a = [], 0
        for s in sizes:
            for t in range(s):
                r = 1 << (a + (t + 1) % s)                    # Hamiltonian cycle: block is irreducible
                if keep_diag or s == 1:
                    r |= 1 << (a + t)
                r |= _draw_bits(draw, s, din) << a            # extras inside the block
                r |= _draw_bits(draw, a, dlow)                # earlier blocks' quantities
                rows.append(r)
            a += s
        mode = draw(st.sampled_from(("both", "both", "both", "rows", "cols", "none")))
    elif family == "triangular":
        dlow = draw(st.sampled_from(_DENSITIES))
        rows = [(1 << i) | _draw_bits(draw, i, dlow) for i in range(n)]
        mode = draw(st.sampled_from(("both", "both", "rows", "cols", "reverse", "none")))
    elif family == "wide_shallow":
        # many single-unknown equations, then a short chain that uses a few of them: one peeling step removes
        # almost everything and leaves two to four rows and columns at arbitrary positions
        tail = draw(st.integers(2, 4))
        head = n - tail
        rows = [1 << i for i in range(head)]
        for i in range(head, n):
            r = 1 << i
            for j in draw(st.lists(st.integers(0, head - 1), min_size=1, max_size=3)):
                r |= 1 << j
            if i > head:
                r |= 1 << (i - 1)
            rows.append(r)
        mode = draw(st.sampled_from(("both", "both", "rows", "cols")))
    elif family == "dense":
        d = draw(st.sampled_from(("1/2", "3/4", "7/8")))
        match = draw(st.permutations(ident))
        rows = [(1 << match[i]) | _draw_bits(draw, n, d) for i in range(n)]
        mode = "none"
    else:  # sparse
        match = draw(st.permutations(ident))
        rows = []
        for i in range(n):
            extras = draw(st.lists(st.integers(0, n - 1), max_size=3))
            rows.append((1 << match[i]) | sum(1 << j for j in set(extras)))
        mode = "none"
    rperm, cperm = ident, ident
    if mode in ("both", "rows"):
        rperm = draw(st.permutations(ident))
    if mode in ("both", "cols"):
        cperm = draw(st.permutations(ident))
    if mode == "reverse":
        rperm = cperm = ident[::-1]
    return _permute(rows, n, rperm, cperm)


def _draw_ids(draw, n):
    how = draw(st.sampled_from(("noncontiguous", "permuted", "identity", "none", "noncontiguous")))
    if how == "none":
        return how, None
    if how == "identity":
        return how, list(range(n))
    if how == "permuted":
        return how, list(draw(st.permutations(list(range(n)))))
    return how, draw(st.lists(st.integers(0, 999), min_size=n, max_size=n, unique=True))


@st.composite
def _sampled_case(draw, lo=5, hi=30):
    n = draw(st.one_of(st.integers(lo, min(hi, 10)), st.integers(lo, min(hi, 16)), st.integers(lo, hi)))
    family = draw(st.sampled_from(("planted", "planted", "planted", "triangular", "dense", "sparse", "sparse", "wide_shallow")))
    if family == "wide_shallow":
        n = draw(st.integers(max(lo, 6), max(hi, 40)))
    rows = _draw_structured_rows(draw, n, family)
    he, eids = _draw_ids(draw, n)
    hq, qids = _draw_ids(draw, n)
    return {"n": n, "family": family, "rows": _strings_from_rows(rows, n),
            "eids": eids, "qids": qids, "ids": f"{he}/{hq}", "return_info": draw(st.booleans())}


def _n_label(n):
    if n <= 4:
        return f"n_{n}"
    if n <= 8:
        return "n_5-8"
    if n <= 16:
        return "n_9-16"
    return "n_17-30" if n <= 30 else "n_31-40"


def _classify_sampled(case):
    n = case["n"]
    rows = _rows_from_strings(case["rows"])
    if _fine_block_sizes(rows, n) is None:
        return False, ["no_perfect_matching"]
    nt, lbs, _ = _matrix_class(rows, n)
    return nt, [_n_label(n), f"family_{case['family']}", f"ids_{case['ids']}"] + lbs


def _check_sampled(case):
    n = case["n"]
    rows = _rows_from_strings(case["rows"])
    sizes = _fine_block_sizes(rows, n)
    if sizes is None:
        return {"labels": [], "nontrivial": False}   # outside the domain (cannot happen by construction)
    col = Collector()
    blocks = _check_blaze_on(rows, n, case["eids"], case["qids"], case["return_info"], col,
                             lambda: f"matrix {case['rows']} eids {case['eids']} qids {case['qids']}")
    col.done()
    labels = [f"blaze_blocks_{_bucket(len(blocks))}",
              "blaze_finest" if len(blocks) == len(sizes) else "blaze_coarser_than_irreducible"]
    return {"labels": labels, "nontrivial": True}


# ---------------------------------------------------------------------------
# Sequential models
# ---------------------------------------------------------------------------

_TRANSFORMS = ("none", "none", "log", "diff", "diff_log", "roc", "pct")
_WRAPS = ("", "", "", "log", "diff", "exp")


def _seq_render(case):
    """Source text and, per written equation, the left-hand variable index."""
    names = case["names"]
    lines = []
    if case.get("params"):
        lines.append("!parameters\n    " + ", ".join(case["params"]))
    lines.append("!equations")
    for v in case["written"]:
        eq = case["eqs"][v]
        lhs = names[v] if eq["transform"] == "none" else f"{eq['transform']}({names[v]})"
        terms = []
        for u, wrap in eq["deps0"]:
            terms.append(f"0.5*{wrap}({names[u]})" if wrap else f"0.5*{names[u]}")
        for u, sh in eq["shifted"]:
            terms.append(f"0.1*{names[u]}[{sh:+d}]")
        terms.extend(eq["other"])
        terms.append("1")
        sign = "===" if eq["identity"] else "="
        lines.append(f"    {lhs} {sign} {' + '.join(terms)};")
    return "\n".join(lines) + "\n"


def _seq_ref(case):
    """Zero-shift dependency sets from the case (own graph) and whether a sequential order exists."""
    n = case["n"]
    deps = [sorted({u for u, _ in case["eqs"][v]["deps0"]}) for v in range(n)]
    # Kahn's algorithm
    indeg = [len(d) for d in deps]
    users = [[] for _ in range(n)]
    for v in range(n):
        for u in deps[v]:
            users[u].append(v)
    ready = [v for v in range(n) if indeg[v] == 0]
    done = 0
    while ready:
        u = ready.pop()
        done += 1
        for v in users[u]:
            indeg[v] -= 1
            if indeg[v] == 0:
                ready.append(v)
    return deps, done == n


def _order_is_sequential(order, deps):
    seen = set()
    for v in order:
        if any(u not in seen for u in deps[v]):
            return False
        seen.add(v)
    return True


def _seq_classify(case):
    deps, acyclic = _seq_ref(case)
    written_ok = _order_is_sequential(case["written"], deps)
    n = case["n"]
    labels = [_n_label(n), f"kind_{case['kind']}"]
    if not acyclic:
        labels.append("cyclic")
    elif written_ok:
        labels.append("acyclic_already_sequential")
    else:
        labels.append("acyclic_needs_reordering")
    return (not written_ok), labels


def _lhs_var_of(string, names):
    """Index of the generator variable on the left-hand side of a human equation string."""
    lhs = string.split("=", 1)[0]
    found = [v for v, nm in enumerate(names) if re.search(rf"(?<!\w){re.escape(nm)}(?!\w)", lhs)]
    return found[0] if len(found) == 1 else None


def _seq_compare_incidence(col, m, order, deps, names, where):
    """m.incidence_matrix against the generator's zero-shift graph (rows: equations in `order`)."""
    im = api("seq:incidence_matrix", lambda: m.incidence_matrix)
    lhs_names = tuple(api("seq:lhs_names", lambda: m.lhs_names))
    n = len(names)
    if not col.check(sorted(lhs_names) == sorted(names), "seq:lhs_names", lambda: f"{where}: {lhs_names} vs {names}"):
        return
    if not col.check(tuple(getattr(im, "shape", ())) == (n, n), "seq:incidence_shape", lambda: f"{where}: {getattr(im, 'shape', None)}"):
        return
    var_of_col = [names.index(nm) for nm in lhs_names]
    for k, v in enumerate(order):
        exp = [(u == v or u in deps[v]) for u in var_of_col]
        got = [bool(x) for x in im[k, :]]
        if not col.check(got == exp, "seq:incidence_matrix",
                         lambda: f"{where}: row {k} ({names[v]}) is {got}, zero-shift left-hand variables give {exp}; columns {lhs_names}"):
            return


def _check_sequential(case):
    ir = _ir()
    col = Collector()
    n, names = case["n"], case["names"]
    src = _seq_render(case)
    deps, acyclic = _seq_ref(case)
    m = api("seq:from_string", ir.Sequential.from_string, src)
    old = tuple(api("seq:equation_strings", lambda: m.equation_strings))
    # the harness's reading of which equation is which; the model's own initial order is the
    # reference point (normally the source order, but that is not something the property says)
    written = [_lhs_var_of(s, names) for s in old]
    if sorted(v for v in written if v is not None) != list(range(n)):
        raise RuntimeError(f"harness cannot identify the equations in {old} for\n{src}")
    written_ok = _order_is_sequential(written, deps)
    before = api("seq:is_sequential", lambda: m.is_sequential)
    col.check(bool(before) == written_ok, "seq:is_sequential_before",
              lambda: f"is_sequential={before} but harness says {written_ok}\n{src}")
    _seq_compare_incidence(col, m, written, deps, names, "before sequentialize")
    col.done()

    if acyclic:
        ret = api("seq:sequentialize", m.sequentialize)
        new = tuple(m.equation_strings)
        ok = col.check(isinstance(ret, tuple) and sorted(int(i) for i in ret) == list(range(n)), "seq:return_not_permutation",
                       lambda: f"sequentialize() returned {ret!r}\n{src}")
        col.check(sorted(new) == sorted(old), "seq:equations_changed", lambda: f"{old} -> {new}")
        if ok:
            col.check(new == tuple(old[int(i)] for i in ret), "seq:return_is_not_applied_permutation",
                      lambda: f"returned {ret}, equations before {old}, after {new}")
        new_vars = [_lhs_var_of(s, names) for s in new]
        if col.check(sorted(v for v in new_vars if v is not None) == list(range(n)), "seq:equations_changed",
                     lambda: f"{old} -> {new}"):
            col.check(_order_is_sequential(new_vars, deps), "seq:order_not_sequential",
                      lambda: f"after sequentialize the order is {[names[v] for v in new_vars]} but zero-shift dependencies are "
                              f"{ {names[v]: [names[u] for u in deps[v]] for v in range(n) if deps[v]} }\n{src}")
            after = m.is_sequential
            col.check(bool(after) == _order_is_sequential(new_vars, deps), "seq:is_sequential_after",
                      lambda: f"is_sequential={after} after sequentialize, order {[names[v] for v in new_vars]}")
            col.check(list(m.lhs_names_in_equations) == [names[v] for v in new_vars], "seq:lhs_names_in_equations",
                      lambda: f"{m.lhs_names_in_equations} vs {[names[v] for v in new_vars]}")
            _seq_compare_incidence(col, m, new_vars, deps, names, "after sequentialize")
            col.done()
            # a second call on the now sequential model must honour the same contract
            ret2 = api("seq:sequentialize_again", m.sequentialize)
            new2 = tuple(m.equation_strings)
            if col.check(isinstance(ret2, tuple) and sorted(int(i) for i in ret2) == list(range(n)), "seq:return_not_permutation",
                         lambda: f"second sequentialize() returned {ret2!r}"):
                col.check(new2 == tuple(new[int(i)] for i in ret2), "seq:return_is_not_applied_permutation",
                          lambda: f"second call returned {ret2}, equations before {new}, after {new2}")
            vars2 = [_lhs_var_of(s, names) for s in new2]
            col.check(None not in vars2 and _order_is_sequential(vars2, deps), "seq:order_not_sequential",
                      lambda: f"after a second sequentialize the order is {new2}")
    else:
        raised = None
        try:
            ret = m.sequentialize()
        except Exception as exc:  # noqa: BLE001 - raising is the required outcome
            raised = exc
        col.check(raised is not None, "seq:cyclic_did_not_raise",
                  lambda: f"sequentialize() returned {ret!r} for a model with a zero-shift cycle\n{src}")
        new = tuple(m.equation_strings)
        col.check(new == old, "seq:cyclic_model_modified", lambda: f"{old} -> {new} (raised {raised!r})")
        col.check(tuple(m.lhs_names_in_equations) == tuple(names[v] for v in written), "seq:cyclic_model_modified",
                  lambda: f"lhs_names_in_equations {m.lhs_names_in_equations}")
        after = m.is_sequential
        col.check(not bool(after), "seq:is_sequential_after", lambda: f"is_sequential={after} for a cyclic model")
        _seq_compare_incidence(col, m, written, deps, names, "after failed sequentialize")
    col.done()


# ---- exhaustive n <= 4 -----------------------------------------------------

_ENUM_NAMES = ("b7", "a12", "d3", "c40")


def _enum_seq_case(n, code):
    """All zero-shift dependency patterns: bit (v*(n-1)+t) of code <=> equation v uses its t-th other variable."""
    eqs = []
    for v in range(n):
        others = [u for u in range(n) if u != v]
        deps0 = [[u, _WRAPS[(code + v + u) % len(_WRAPS)]] for t, u in enumerate(others) if (code >> (v * (n - 1) + t)) & 1]
        # decoration: lags/leads of variables that are NOT zero-shift dependencies (and of itself)
        shifted = [[v, -1]] if (code + v) % 3 == 0 else []
        for t, u in enumerate(others):
            if not (code >> (v * (n - 1) + t)) & 1 and (code + 2 * v + u) % 2 == 0:
                shifted.append([u, (-1, 1, -2)[(code + u) % 3]])
        eqs.append({"deps0": deps0, "shifted": shifted, "other": ["z0"] if (code + v) % 2 else [],
                    "transform": _TRANSFORMS[(code // 3 + v) % len(_TRANSFORMS)], "identity": (code + v) % 5 == 0})
    return {"n": n, "names": list(_ENUM_NAMES[:n]), "eqs": eqs, "written": list(range(n)), "params": [], "kind": "enumerated"}


def _chunks_enum_seq(tier):
    out = [{"n": 1, "lo": 0, "hi": 1}, {"n": 2, "lo": 0, "hi": 4}, {"n": 3, "lo": 0, "hi": 64}]
    out += [{"n": 4, "lo": lo, "hi": lo + 256} for lo in range(0, 4096, 256)]
    return out


def _run_chunk_enum_seq(chunk):
    n = chunk["n"]
    labels = {}
    failures, samples, per_bucket = [], [], {}
    evaluations = nontrivial = 0
    for code in range(chunk["lo"], chunk["hi"]):
        case = _enum_seq_case(n, code)
        evaluations += 1
        nt, lbs = _seq_classify(case)
        for lb in lbs:
            labels[lb] = labels.get(lb, 0) + 1
        if nt:
            nontrivial += 1
            if not samples:
                samples.append(case)
        try:
            _check_sequential(case)
        except Violation as v:
            for b, msg in v.items:
                if per_bucket.setdefault(b, 0) < 2:
                    per_bucket[b] += 1
                    failures.append((b, msg, case))
    return {"evaluations": evaluations, "nontrivial": nontrivial, "labels": labels,
            "samples": samples, "failures": failures}


# ---- sampled -----------------------------------------------------------------

@st.composite
def _seq_case(draw):
    n = draw(st.one_of(st.integers(3, 6), st.integers(2, 12), st.integers(2, 30)))
    nums = draw(st.lists(st.integers(0, 99), min_size=n, max_size=n, unique=True))
    letters = draw(st.lists(st.sampled_from("abkvwxy"), min_size=n, max_size=n))
    names = [f"{a}{k}" for a, k in zip(letters, nums)]
    planted = list(draw(st.permutations(list(range(n)))))
    dens = draw(st.sampled_from(("1/4", "1/2", "1/8", "3/4", "0")))
    kind = draw(st.sampled_from(("acyclic", "acyclic", "cyclic")))
    dep_sets = [set() for _ in range(n)]
    for k, v in enumerate(planted):
        mask = _draw_bits(draw, k, dens)
        dep_sets[v] = {planted[t] for t in range(k) if (mask >> t) & 1}
    if kind == "cyclic":
        length = draw(st.integers(2, min(n, 5)))
        pos = sorted(draw(st.lists(st.integers(0, n - 1), min_size=length, max_size=length, unique=True)))
        for a, b in zip(pos, pos[1:]):
            dep_sets[planted[b]].add(planted[a])
        dep_sets[planted[pos[0]]].add(planted[pos[-1]])
    params = draw(st.sampled_from(([], [], ["p1"], ["p1", "p2"])))
    eqs = []
    for v in range(n):
        deps0 = [[u, draw(st.sampled_from(_WRAPS))] for u in sorted(dep_sets[v])]
        shifted = draw(st.lists(st.tuples(st.integers(0, n - 1), st.sampled_from((-1, -1, -2, 1, 2))), max_size=3))
        other = draw(st.lists(st.sampled_from(["z0", "z1[-1]", "z2[+1]"] + [f"{p}*z0" for p in params]), max_size=2, unique=True))
        eqs.append({"deps0": deps0, "shifted": [list(t) for t in shifted], "other": other,
                    "transform": draw(st.sampled_from(_TRANSFORMS)), "identity": draw(st.sampled_from((False, False, True)))})
    how = draw(st.sampled_from(("shuffled", "shuffled", "shuffled", "reversed", "planted")))
    if how == "shuffled":
        written = list(draw(st.permutations(list(range(n)))))
    elif how == "reversed":
        written = planted[::-1]
    else:
        written = list(planted)
    return {"n": n, "names": names, "eqs": eqs, "written": written, "params": list(params), "kind": f"{kind}_{how}"}


# ---------------------------------------------------------------------------
# steady_blocks: Simultaneous models whose steady incidence is a drawn matrix
# ---------------------------------------------------------------------------

@st.composite
def _steady_case(draw):
    n = draw(st.one_of(st.integers(3, 6), st.integers(2, 9)))
    family = draw(st.sampled_from(("planted", "planted", "planted", "sparse", "triangular", "dense")))
    rows = _draw_structured_rows(draw, n, family)
    coef, shifts = [], []
    for i in range(n):
        coef.append([draw(st.sampled_from((-4, -3, -2, -1, 1, 2, 3, 4))) if (rows[i] >> j) & 1 else 0 for j in range(n)])
        shifts.append([draw(st.sampled_from((0, 0, -1, 1))) if (rows[i] >> j) & 1 else 0 for j in range(n)])
    nums = draw(st.lists(st.integers(0, 99), min_size=n, max_size=n, unique=True))
    return {"n": n, "family": family, "rows": _strings_from_rows(rows, n), "coef": coef, "shifts": shifts,
            "const": draw(st.lists(st.integers(-9, 9), min_size=n, max_size=n)),
            "names": [f"x{k}" for k in nums], "declared": list(draw(st.permutations(list(range(n))))),
            "flat": draw(st.booleans()),
            # a steady plan with one swap: variable number `swap` is exogenized, the constant of the equation matched
            # with it is endogenized (None: no plan)
            "swap": draw(st.one_of(st.none(), st.integers(0, n - 1)))}


def _steady_classify(case):
    n = case["n"]
    rows = _rows_from_strings(case["rows"])
    if _fine_block_sizes(rows, n) is None:
        return False, ["no_perfect_matching"]
    nt, lbs, _ = _matrix_class(rows, n)
    return nt, [_n_label(n), f"family_{case['family']}", "flat" if case["flat"] else "nonflat"] + lbs


def _steady_system(case):
    """Coefficient matrix dominated by a perfect matching (so every valid block is numerically regular)."""
    n = case["n"]
    rows = _rows_from_strings(case["rows"])
    owner, size = _matching(rows, n)
    if size != n:
        return None
    match = [None] * n
    for j, i in enumerate(owner):
        match[i] = j
    a = [[0.0] * n for _ in range(n)]
    for i in range(n):
        others = 0.0
        for j in range(n):
            if (rows[i] >> j) & 1 and j != match[i]:
                a[i][j] = case["coef"][i][j] / 4
                others += abs(a[i][j])
        a[i][match[i]] = (1.0 + int(others + 1)) * (1 if case["coef"][i][match[i]] > 0 else -1)
    return rows, a


def _steady_render(case, a):
    n, names = case["n"], case["names"]
    eq_strings = []
    for i in range(n):
        terms = []
        for j in range(n):
            if a[i][j] != 0.0:
                sh = case["shifts"][i][j]
                terms.append(f"{'+' if a[i][j] > 0 else '-'}{abs(a[i][j])!r}*{names[j]}" + (f"[{sh:+d}]" if sh else ""))
        eq_strings.append("".join(terms).lstrip("+") + f"=c{i}")
    src = (
        "!transition-variables\n    " + ", ".join(names[j] for j in case["declared"]) + "\n"
        "!parameters\n    " + ", ".join(f"c{i}" for i in range(n)) + "\n"
        "!transition-equations\n" + "".join(f"    {s};\n" for s in eq_strings)
    )
    return src, eq_strings


_EQ_TAIL = re.compile(r"=c(\d+)$")


def _human_blocks_to_ids(col, tag, blocks, names):
    """[(equation strings, quantity names)] -> [(row indexes, column indexes)], rows identified by '=c<i>'."""
    out = []
    for eqs, qts in blocks:
        be = []
        for s in eqs:
            mt = _EQ_TAIL.search(str(s).replace(" ", ""))
            if not col.check(mt is not None, f"{tag}:unrecognized_equation_string", lambda: f"{s!r}"):
                return None
            be.append(int(mt.group(1)))
        if not col.check(all(q in names for q in qts), f"{tag}:unknown_quantity", lambda: f"{qts} not all in {names}"):
            return None
        out.append((be, [names.index(q) for q in qts]))
    return out


def _check_steady(case):
    import numpy as np
    ir = _ir()
    n, names = case["n"], case["names"]
    sys_ = _steady_system(case)
    if sys_ is None:
        return None
    rows, a = sys_
    src, eq_strings = _steady_render(case, a)
    col = Collector()
    show = lambda: f"model\n{src}"  # noqa: E731
    m = api("steady:from_string", ir.Simultaneous.from_string, src, flat=case["flat"])
    api("steady:assign", lambda: m.assign(**{f"c{i}": float(case["const"][i]) for i in range(n)}))
    ident = list(range(n))

    # (a) split_into_blocks: the human blocks obey the predicate on the generated matrix
    hb = api("steady:split_into_blocks", m.split_into_blocks, None)
    try:
        hb_plain = [(tuple(b.equations), tuple(b.quantities)) for b in hb]
    except Exception as exc:  # noqa: BLE001
        raise Violation("steady:split_into_blocks:malformed_return", f"{type(exc).__name__}: {exc}")
    blocks = _human_blocks_to_ids(col, "steady:split_into_blocks", hb_plain, names)
    col.done()
    _validate_blocks(col, "steady:split_into_blocks", rows, n, ident, ident, blocks, show)

    # (b) the same partition as blaze() on the generated matrix, presented the way the model presents it
    name_to_qid = api("steady:create_name_to_qid", m.create_name_to_qid)
    qid = [int(name_to_qid[nm]) for nm in names]
    by_qid = sorted(range(n), key=lambda j: qid[j])                  # model columns are in qid order
    rows_q = _permute(rows, n, ident, by_qid)
    out = api("blaze", _blazer().blaze, _np_matrix(rows_q, n), tuple(ident), tuple(qid[j] for j in by_qid))
    direct = [(sorted(be), sorted(qid.index(q) for q in bq)) for be, bq in _extract_blocks(out, "blaze")]
    col.check([(sorted(be), sorted(bq)) for be, bq in blocks] == direct, "steady:split_differs_from_blaze_on_generated_matrix",
              lambda: f"{show()}split_into_blocks {blocks}\nblaze on the generated incidence {direct}")
    col.done()   # no point in solving block by block when the split itself is wrong

    # (c) solve_steady(split_into_blocks=True) reports solving exactly these blocks in this order
    with contextlib.redirect_stdout(io.StringIO()):
        info = api("steady:solve_steady", m.solve_steady, split_into_blocks=True, return_info=True)
    try:
        solved_plain = [(tuple(b["equations"]), tuple(b["quantities"])) for b in info["blocks"]]
    except Exception as exc:  # noqa: BLE001
        raise Violation("steady:solve_steady:malformed_info", f"{type(exc).__name__}: {exc}; info {info!r}"[:600])
    col.check(solved_plain == hb_plain, "steady:solved_blocks_differ_from_split_into_blocks",
              lambda: f"{show()}solved {solved_plain}\nsplit_into_blocks {hb_plain}")
    solved = _human_blocks_to_ids(col, "steady:solve_steady", solved_plain, names)
    if solved is not None:
        _validate_blocks(col, "steady:solve_steady", rows, n, ident, ident, solved, show)

    # (d) block-by-block solution equals the solution of the whole linear system
    ref = np.linalg.solve(np.array(a), np.array([float(c) for c in case["const"]]))
    levels = api("steady:get_steady_levels", m.get_steady_levels)
    got = []
    for nm in names:
        try:
            got.append(float(np.ravel(levels[nm])[0]))
        except Exception as exc:  # noqa: BLE001
            raise Violation("steady:level_missing", f"{nm}: {type(exc).__name__}: {exc}")
    tol = 1e-7 * (1.0 + float(np.max(np.abs(ref))))
    bad = [(nm, g, float(r)) for nm, g, r in zip(names, got, ref) if not abs(g - r) <= tol]
    col.check(not bad, "steady:blockwise_solution_wrong", lambda: f"{show()}(name, got, reference) {bad[:4]}; blocks {blocks}")
    col.done()
    labels = [f"blaze_blocks_{_bucket(len(blocks))}"]

    # (e) the same with a steady plan that swaps a variable for a parameter: the unknowns are then the other variables
    #     and the endogenized constant, whose column has its only incidence in its own equation
    if case.get("swap") is not None:
        s_ = case["swap"] % n
        owner, _size = _matching(rows, n)
        t_ = owner[s_]                                   # the equation matched with the exogenized variable
        names_p = list(names)
        names_p[s_] = f"c{t_}"
        rows_p = [(r_ & ~(1 << s_)) | ((1 << s_) if i == t_ else 0) for i, r_ in enumerate(rows)]
        m3 = api("steady:plan:from_string", ir.Simultaneous.from_string, src, flat=case["flat"])
        api("steady:plan:assign", lambda: m3.assign(**{f"c{i}": float(case["const"][i]) for i in range(n)}))
        fixed_value = 0.5 + float(ref[s_])
        api("steady:plan:assign_exogenized", lambda: m3.assign(**{names[s_]: fixed_value}))
        plan = ir.SteadyPlan(m3)
        api("steady:plan:exogenize", plan.exogenize, names[s_])
        api("steady:plan:endogenize", plan.endogenize, f"c{t_}")
        showp = lambda: f"model\n{src}plan: exogenize {names[s_]}, endogenize c{t_}\n"  # noqa: E731
        hbp = api("steady:plan:split_into_blocks", m3.split_into_blocks, plan)
        try:
            hbp_plain = [(tuple(b.equations), tuple(b.quantities)) for b in hbp]
        except Exception as exc:  # noqa: BLE001
            raise Violation("steady:plan:split_into_blocks:malformed_return", f"{type(exc).__name__}: {exc}")
        blocks_p = _human_blocks_to_ids(col, "steady:plan:split_into_blocks", hbp_plain, names_p)
        col.done()
        _validate_blocks(col, "steady:plan:split_into_blocks", rows_p, n, ident, ident, blocks_p, showp)
        col.done()
        with contextlib.redirect_stdout(io.StringIO()):
            infop = api("steady:plan:solve_steady", m3.solve_steady, plan=plan, split_into_blocks=True, return_info=True)
        try:
            solved_p = [(tuple(b["equations"]), tuple(b["quantities"])) for b in infop["blocks"]]
        except Exception as exc:  # noqa: BLE001
            raise Violation("steady:plan:solve_steady:malformed_info", f"{type(exc).__name__}: {exc}"[:600])
        col.check(solved_p == hbp_plain, "steady:plan:solved_blocks_differ_from_split_into_blocks",
                  lambda: f"{showp()}solved {solved_p}\nsplit_into_blocks {hbp_plain}")
        # reference: unknowns x_j (j != s) and c_t
        A_ = np.array(a, dtype=float)
        M_ = A_.copy()
        M_[:, s_] = 0.0
        M_[t_, s_] = -1.0
        rhs_ = np.array([float(c) for c in case["const"]]) - A_[:, s_] * fixed_value
        rhs_[t_] = -A_[t_, s_] * fixed_value
        refp = np.linalg.solve(M_, rhs_)
        lev3 = api("steady:plan:get_steady_levels", m3.get_steady_levels)
        par3 = api("steady:plan:get_parameters", m3.get_parameters)
        gotp = [float(np.ravel(par3[f"c{t_}"])[0]) if j == s_ else float(np.ravel(lev3[names[j]])[0]) for j in range(n)]
        tolp = 1e-7 * (1.0 + float(np.max(np.abs(refp))))
        badp = [(names_p[j], gotp[j], float(refp[j])) for j in range(n) if not abs(gotp[j] - refp[j]) <= tolp]
        col.check(not badp, "steady:plan:blockwise_solution_wrong", lambda: f"{showp()}(name, got, reference) {badp[:4]}; blocks {blocks_p}")
        col.check(abs(float(np.ravel(lev3[names[s_]])[0]) - fixed_value) <= 1e-12 * (1 + abs(fixed_value)), "steady:plan:exogenized_value_changed",
                  lambda: f"{showp()}{names[s_]} = {float(np.ravel(lev3[names[s_]])[0])!r}, assigned {fixed_value!r}")
        col.done()
        labels.append("plan_with_swap")
    return {"labels": labels, "nontrivial": True}


SUBCHECKS = [
    EnumSub("enum_blaze", _chunks_enum_blaze, _run_chunk_enum_blaze, check=_check_enum_blaze),
    HypSub("blaze_sampled", _sampled_case, _check_sampled, _classify_sampled,
           budget={"quick": 4000, "thorough": 240000}),
    EnumSub("enum_sequential", _chunks_enum_seq, _run_chunk_enum_seq, check=_check_sequential),
    HypSub("sequential_models", _seq_case, _check_sequential, _seq_classify,
           budget={"quick": 2400, "thorough": 50000}),
    HypSub("steady_blocks", _steady_case, _check_steady, _steady_classify,
           budget={"quick": 640, "thorough": 12000}),
]
