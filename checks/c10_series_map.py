"""
C10 - A Series is a period-indexed map: reads, writes, alignment, trim, isolation.

Model-based sequence check.  A case is plain data
    {"f": frequency, "base": period description, "init": [series descriptions],
     "ops": [operation descriptions]}
interpreted against a pool of 1-3 live irispie Series, each mirrored by a dict
model (vlib.refseries.Ref: {(position, variant): value}, missing == absent).
Every operation is applied to both sides; after EVERY step
  * the series touched by the step is compared with its model cell by cell
    (NaN == missing): number of variants, values, reported span covering every
    non-missing value, a read of the span widened by three periods either side,
    and - after writes, trim() and binary arithmetic operators only - no
    all-missing leading/trailing period (all-missing == empty series, start None);
  * every other live series must be bit-for-bit unchanged (start, data bytes,
    description): functional forms / copy() / operators never modify an input,
    method forms modify only the receiver;
  * no two live series may share memory (numpy.shares_memory on .data).
Reference semantics of every operation are the per-period loops written from
the docstrings (moving windows, fill methods, AR extrapolation, overlay by span,
keyword shifts).  Where the documentation leaves a cell open (see ASSUMPTIONS)
the model lists the admissible readings for that cell and adopts whichever the
library returned (`amb`), so nothing undocumented is asserted.
"""

import math
import operator

import numpy as np
from hypothesis import strategies as st

from vlib import refcal, pgen, refseries as rs
from vlib.runner import HypSub, Collector, Violation

PROPERTY = "C10"

RULE = (
    "sequence machine: frequency (Y,H,Q,M,D,integer) x 1-3 initial series (start+tuple / start+ndarray / "
    "from_start_and_array / periods+values / empty; 1-3 variants; NaN cells; spans <= 12) x 3..25 operations drawn from "
    "construct, x[dates]=.. / x[dates,variants]=.. / set_data (scalar, tuple, 1-D and 2-D ndarray, list of variants, "
    "another live series; dates = period, span with step 1/-1/2, tuple or list of periods, open-ended spans, ...), "
    "reads x[dates] / x[dates,variants] / get_data / x(dates), time shifts x[k] / shift(k) / keyword shifts, clip, trim, "
    "overlay, underlay, hstack / & / |, unary and binary arithmetic with scalars (both sides) and live series, "
    "comparisons, element-wise functions, statistics over variants and over time, mov_sum/avg/mean/prod, fill_missing "
    "(7 methods), extrapolate, copy, redate, diff/roc/pct; method and functional forms; every live series compared with "
    "its dict model after every step.  Non-trivial iff the executed sequence contains at least one write of a value "
    "outside the receiver's current span, one binary arithmetic operation between two series whose spans differ, and "
    "one functional form irispie.f(x) (or x[k])"
)

ASSUMPTIONS = [
    "a bare tuple of periods inside square brackets cannot be told from (dates, variants) by Python; tuples of periods are "
    "passed as x[(p, q, ...), variants] (variants possibly None), lists of periods as x[[p, q, ...]]",
    "open-ended spans (None >> p, p >> None, Span(None, None)) are not applied to a series without a start (no context to "
    "resolve against; None >> p and p >> None also not to a series with a start but no rows); "
    "open ends, `...`, the default span of fill_missing, keyword shifts, statistics across time and overlay/underlay 'span of "
    "the series' are resolved against the reported start/end of the live series (which may carry all-missing edge rows "
    "after clip or element-wise functions)",
    "overlay/underlay: periods inside the reported span of the superimposed series but outside its first..last "
    "observation may either keep the underlying value (docstring: 'from the first available observation to the last') or "
    "become missing (reported span); both accepted",
    "the no-all-missing-edge rule is asserted after writes (constructors from values, x[..]=.., set_data), trim() and binary arithmetic operators "
    "(series-series, series-scalar, scalar-series) only; unary operators (-x, +x, abs, round), element-wise functions, clip, "
    "shift and the other functions only have to report a span covering the values",
    "binary operators whose numpy value is non-missing although an operand is missing (x**0, 1**x) may return that value "
    "or missing; comparison results (boolean series) are checked on their own reported span when created and are not "
    "used as operands afterwards",
    "nansum / nanprod (and any statistic over variants whose numpy value for an all-missing row is a number) may "
    "return that number or missing for all-missing periods inside the reported span",
    "statistics across time (axis=0) are not applied to a series with no rows (undocumented); percentile/quantile take a "
    "scalar q",
    "fill_missing: 'next'/'previous'/'nearest' may look for observations inside the filled span only or in the whole "
    "series (both accepted; ties of 'nearest' accept either neighbour); 'linear'/'log_linear' are asserted for "
    "interpolation only (cells that need extrapolation are not judged); spans are None, `...`, or increasing contiguous "
    "spans; 'from_series' is exercised with a one-variant filler (a multi-variant filler raises IndexError; undocumented)",
    "extrapolate: when an initial condition is missing (or non-positive under log=True) the extrapolated cells are not "
    "judged; AR order <= 3, |coefficients| <= 1.25",
    "keyword shifts 'soy'/'eopy'/'tty' replace each period of the reported span; where the original cell was missing the "
    "result may be missing or the shifted value; start-of-year cells under 'tty' are not judged; keyword shifts are "
    "generated for calendar frequencies only; 'yoy' for daily series is 365 days",
    "default moving window (window=None) is generated for yearly, quarterly, monthly and integer frequencies (the "
    "documented table); windows are negative integers",
    "series-series operations are generated only for equal numbers of variants or when one side has a single variant "
    "(broadcast); writes of a series or 2-D array use as many columns as addressed variants, or one",
    "hstack / & / | take live series as arguments (no scalars); a write addressed to zero periods (open-ended span that "
    "resolves to nothing) uses a scalar value; reference arithmetic evaluates each cell with numpy exactly as a 1x1 array "
    "against a plain scalar would be (numpy's scalar-exponent shortcuts differ from pow at -inf)",
    "redate is not applied to a series without a start; redate(new) means 'the reported start becomes new', "
    "redate(new, old) means 'the observation dated old becomes dated new'",
    "values computed by the library (arithmetic, functions) are compared with rtol 1e-9 and atol 1e-11 x magnitude of the "
    "operands; values that are only moved or copied are compared exactly; sequences stop once a magnitude exceeds 1e12",
]

NAN = float("nan")
RTOL = 1e-9
ATOL_REL = 1e-11
MAG_CAP = 1e12


def _ir():
    import irispie as ir
    return ir


def _isnan(x):
    return x != x


# ---------------------------------------------------------------------------
# Reference semantics on the dict model (pure functions, no irispie)
# ---------------------------------------------------------------------------

_BINOPS = {
    "add": operator.add, "sub": operator.sub, "mul": operator.mul, "truediv": operator.truediv,
    "pow": operator.pow, "floordiv": operator.floordiv, "mod": operator.mod,
}
_CMPOPS = {"gt": operator.gt, "lt": operator.lt, "ge": operator.ge, "le": operator.le, "eq": operator.eq, "ne": operator.ne}
_SYMBOL = {"add": "+", "sub": "-", "mul": "*", "truediv": "/", "pow": "**", "floordiv": "//", "mod": "%",
           "gt": ">", "lt": "<", "ge": ">=", "le": "<=", "eq": "==", "ne": "!="}


def _num(fn, a, b, a_series=True, b_series=True):
    """One cell of `a fn b` exactly as numpy evaluates it for a series operand (1x1 array) and a plain scalar
    (numpy takes shortcuts for scalar exponents, e.g. x**0.5 is sqrt(x), which differ from pow at -inf)."""
    with np.errstate(all="ignore"):
        A = np.array([[a]], dtype=float) if a_series else a
        B = np.array([[b]], dtype=float) if b_series else b
        return float(np.asarray(fn(A, B), dtype=float).reshape(-1)[0])


def _bcast(m, v):
    return v if m.nv > 1 else 0


def ref_binop(fn, a, b, reflected=False, rspan=None):
    """a, b: Ref or float; rspan: reported span of the series operand (scalar case).  Returns (Ref, amb)."""
    op = _BINOPS[fn]
    a_ref, b_ref = isinstance(a, rs.Ref), isinstance(b, rs.Ref)
    nv = max(a.nv if a_ref else 1, b.nv if b_ref else 1)
    f = a.f if a_ref else b.f
    out, amb = rs.Ref(f, nv), {}
    pos = set()
    if a_ref:
        pos |= {i for (i, _) in a.cells}
    if b_ref:
        pos |= {i for (i, _) in b.cells}
    if rspan is not None and rspan[1] >= rspan[0]:
        pos |= {rspan[0], rspan[1]}
    if pos:
        pos = range(min(pos), max(pos) + 1)
    for t in pos:
        for v in range(nv):
            x = a.get(t, _bcast(a, v)) if a_ref else a
            y = b.get(t, _bcast(b, v)) if b_ref else b
            r = _num(op, y, x, b_ref, a_ref) if reflected else _num(op, x, y, a_ref, b_ref)
            if (_isnan(x) or _isnan(y)) and not _isnan(r):
                amb[(t, v)] = [NAN, r]
            out.set(t, v, r)
    return out, amb


def ref_cmp(fn, a, b):
    """Expected boolean at (t, v) as a function; operands Ref or float."""
    op = _CMPOPS[fn]
    a_ref, b_ref = isinstance(a, rs.Ref), isinstance(b, rs.Ref)

    def at(t, v):
        x = a.get(t, _bcast(a, v)) if a_ref else a
        y = b.get(t, _bcast(b, v)) if b_ref else b
        with np.errstate(all="ignore"):
            return bool(op(np.float64(x), np.float64(y)))
    return at


def _elem_table():
    import scipy.special as sp
    s2, s2pi = math.sqrt(2.0), math.sqrt(2.0 * math.pi)
    return {
        "log": np.log, "log2": np.log2, "log10": np.log10, "log1p": np.log1p,
        "exp": np.exp, "exp2": np.exp2, "expm1": np.expm1, "sqrt": np.sqrt,
        "abs": np.abs, "sign": np.sign, "sin": np.sin, "cos": np.cos, "tan": np.tan,
        "asin": np.arcsin, "acos": np.arccos, "atan": np.arctan,
        "expit": sp.expit, "logistic": lambda x: 1.0 / (1.0 + np.exp(-x)),
        "erf": sp.erf, "erfinv": sp.erfinv, "erfc": sp.erfc, "erfcinv": sp.erfcinv,
        "normal_cdf": lambda x: 0.5 * sp.erfc(-x / s2),
        "normal_pdf": lambda x: np.exp(-0.5 * x * x) / s2pi,
    }


ELEM_ONE = ("log", "log2", "log10", "log1p", "exp", "exp2", "expm1", "sqrt", "abs", "sign", "sin", "cos", "tan",
            "asin", "acos", "atan", "expit", "logistic", "erf", "erfinv", "erfc", "erfcinv", "normal_cdf", "normal_pdf")
ELEM_TWO = ("round", "maximum", "minimum")


def ref_elem(m, fn, arg):
    if fn == "round":
        g = lambda x: np.round(x, int(arg))
    elif fn == "maximum":
        g = lambda x: np.maximum(x, arg)
    elif fn == "minimum":
        g = lambda x: np.minimum(x, arg)
    else:
        g = _elem_table()[fn]

    def h(x):
        with np.errstate(all="ignore"):
            return float(g(np.float64(x)))
    return m.map(h)


STAT_BASE = ("sum", "prod", "mean", "median", "std", "var", "max", "min", "percentile", "quantile")
STAT_ALL = STAT_BASE + tuple("nan" + n for n in STAT_BASE)


def _stat_args(fn, q):
    if fn.endswith("percentile"):
        return (float(q),)
    if fn.endswith("quantile"):
        return (float(q) / 100.0,)
    return ()


def ref_stat_rows(m, fn, q, rspan):
    """Statistic across variants for each period of the reported span."""
    out, amb = rs.Ref(m.f, 1), {}
    if rspan is None:
        return out, amb
    g = getattr(np, fn)
    args = _stat_args(fn, q)
    for t in range(rspan[0], rspan[1] + 1):
        row = np.array(m.row(t), dtype=float)
        with np.errstate(all="ignore"):
            r = float(g(row, *args))
        if np.all(np.isnan(row)) and not _isnan(r):
            amb[(t, 0)] = [NAN, r]
        out.set(t, 0, r)
    return out, amb


def ref_stat_time(m, fn, q, rspan):
    g = getattr(np, fn)
    arr = m.array(rspan[0], rspan[1])
    with np.errstate(all="ignore"):
        return [float(z) for z in np.atleast_1d(g(arr, *_stat_args(fn, q), axis=0))]


def _fsum(w):
    try:
        return math.fsum(w)
    except (ValueError, OverflowError):
        with np.errstate(all="ignore"):
            return float(np.sum(np.array(w, dtype=float)))


def ref_moving(m, fn, k):
    """y_t = f(x_t, x_{t-1}, ..., x_{t-k+1}); missing if any term is missing."""
    out = rs.Ref(m.f, m.nv)
    for (t, v) in list(m.cells):
        w = [m.get(t - i, v) for i in range(k)]
        if any(_isnan(z) for z in w):
            continue
        if fn == "mov_sum":
            r = _fsum(w)
        elif fn in ("mov_avg", "mov_mean"):
            r = _fsum(w) / k
        else:
            r = 1.0
            for z in w:
                r = _num(operator.mul, r, z)
        out.set(t, v, r)
    return out


def _interp(p, n, t, yp, yn, log):
    with np.errstate(all="ignore"):
        yp, yn = np.float64(yp), np.float64(yn)
        if log:
            yp, yn = np.log(yp), np.log(yn)
        r = yp + (yn - yp) * ((t - p) / (n - p))
        return float(np.exp(r) if log else r)


def ref_fill(m, method, P, const=None, filler=None):
    """Fill the missing cells at positions P (increasing, contiguous).  Returns (Ref, amb)."""
    out, amb = m.copy(), {}
    if not P:
        return out, amb
    lo, hi = P[0], P[-1]
    for v in range(m.nv):
        obs_all = sorted(i for (i, vv) in m.cells if vv == v)
        obs_in = [i for i in obs_all if lo <= i <= hi]
        for t in P:
            if not _isnan(m.get(t, v)):
                continue
            if method == "constant":
                out.set(t, v, const)
                continue
            if method == "from_series":
                out.set(t, v, filler.get(t, 0))
                continue
            cands = []
            free = False
            for obs in (obs_in, obs_all):
                prv = max((i for i in obs if i < t), default=None)
                nxt = min((i for i in obs if i > t), default=None)
                if method == "next":
                    cands.append(NAN if nxt is None else m.get(nxt, v))
                elif method == "previous":
                    cands.append(NAN if prv is None else m.get(prv, v))
                elif method == "nearest":
                    if prv is None and nxt is None:
                        cands.append(NAN)
                    elif prv is None or (nxt is not None and nxt - t < t - prv):
                        cands.append(m.get(nxt, v))
                    elif nxt is None or t - prv < nxt - t:
                        cands.append(m.get(prv, v))
                    else:
                        cands += [m.get(prv, v), m.get(nxt, v)]
                else:  # linear, log_linear
                    if prv is not None and nxt is not None:
                        cands.append(_interp(prv, nxt, t, m.get(prv, v), m.get(nxt, v), method == "log_linear"))
                    elif prv is None and nxt is None:
                        cands.append(NAN)
                    else:
                        free = True
            if free:
                amb[(t, v)] = None
                continue
            distinct = []
            for c in cands:
                if not any(rs.close(c, d, 0.0, 0.0) for d in distinct):
                    distinct.append(c)
            out.set(t, v, distinct[0])
            if len(distinct) > 1:
                amb[(t, v)] = distinct
    return out, amb


def ref_extrapolate(m, coefs, P, intercept, log):
    """x_t = sum_i rho_i x_{t-i} + c on positions P (increasing, contiguous)."""
    out, amb = m.copy(), {}
    order = len(coefs)
    for v in range(m.nv):
        init = [m.get(P[0] - i, v) for i in range(1, order + 1)]
        clean = all(math.isfinite(z) and (not log or z > 0) for z in init)
        hist = {}
        with np.errstate(all="ignore"):
            for i, z in enumerate(init, 1):
                hist[P[0] - i] = float(np.log(np.float64(z))) if log else z
            for t in P:
                val = _fsum([intercept] + [coefs[i - 1] * hist[t - i] for i in range(1, order + 1)]) \
                    if all(math.isfinite(hist[t - i]) for i in range(1, order + 1)) else NAN
                hist[t] = val
                out.set(t, v, float(np.exp(np.float64(val))) if log else val)
        if not clean:
            for t in P:
                amb[(t, v)] = None
    return out, amb


def ref_overlay(under, over, over_rspan):
    """Values of `over` superimposed on `under` within the span of `over`."""
    nv = max(under.nv, over.nv)
    out, amb = rs.Ref(under.f, nv), {}
    for v in range(nv):
        for (i, vv), x in under.cells.items():
            if vv == _bcast(under, v):
                out.cells[(i, v)] = x
    asp = over.span()
    if asp is not None:
        for t in range(asp[0], asp[1] + 1):
            for v in range(nv):
                out.set(t, v, over.get(t, _bcast(over, v)))
    if over_rspan is not None:
        for t in range(over_rspan[0], over_rspan[1] + 1):
            if asp is not None and asp[0] <= t <= asp[1]:
                continue
            for v in range(nv):
                cur = out.get(t, v)
                if not _isnan(cur):
                    amb[(t, v)] = [cur, NAN]
    return out, amb


def ref_keyword_shift(m, by, rspan):
    f = m.f
    out, amb = rs.Ref(f, m.nv), {}
    if rspan is None:
        return out, amb
    for t in range(rspan[0], rspan[1] + 1):
        if by == "soy":
            s = rs.soy(f, t)
        elif by == "eopy":
            s = rs.eopy(f, t)
        else:
            s = None if rs.is_soy(f, t) else t - 1
        for v in range(m.nv):
            if s is None:
                amb[(t, v)] = None
                continue
            val = m.get(s, v)
            out.set(t, v, val)
            if _isnan(m.get(t, v)) and not _isnan(val):
                amb[(t, v)] = [val, NAN]
    return out, amb


def ref_change(m, fn, k):
    out = rs.Ref(m.f, m.nv)
    g = {"diff": lambda x, y: x - y, "roc": lambda x, y: x / y, "pct": lambda x, y: 100 * (x / y - 1)}[fn]
    for (t, v), x in m.cells.items():
        y = m.get(t - k, v)
        if _isnan(y):
            continue
        with np.errstate(all="ignore"):
            out.set(t, v, float(g(np.float64(x), np.float64(y))))
    return out


# ---------------------------------------------------------------------------
# Interpreter
# ---------------------------------------------------------------------------

class _Res:
    """Outcome of one operation (before verification)."""

    def __init__(self, name, detail=None):
        self.name = name          # bucket prefix (operation family: root-cause granularity)
        self.detail = detail or name   # finer bucket prefix used for value mismatches only
        self.receiver = None      # pool index modified in place
        self.model = None         # new model of the receiver / of the created series
        self.created = None       # new irispie object
        self.dst = None
        self.inputs = ()          # pool indices read by the operation
        self.amb = {}
        self.exact = True
        self.trimmed = False
        self.scale_models = ()
        self.skipped = None
        self.functional = False


def _snap(x):
    d = x.data
    return (repr(x.start), d.shape, str(d.dtype), d.tobytes(), x.get_description())


class _Interp:

    def __init__(self, case, col):
        self.ir = _ir()
        self.col = col
        self.f = case["f"]
        self.base = pgen.ref_index(case["base"])
        self.pool = []
        self.labels = []
        self.flags = set()
        self.step = -1
        self.stop = False

    # ---- small helpers -----------------------------------------------------

    def label(self, lb):
        if lb not in self.labels:
            self.labels.append(lb)

    def P(self, idx):
        return rs.period_at(self.f, idx)

    def call(self, bucket, fn, *args, **kwargs):
        try:
            return fn(*args, **kwargs)
        except Violation:
            raise
        except Exception as exc:  # noqa: BLE001
            raise Violation(f"{bucket}:raises:{type(exc).__name__}",
                            f"step {self.step}: {type(exc).__name__}: {exc}"[:1500])

    def rspan(self, x):
        """Reported span of a live series as positions (lo, hi); hi < lo for a series with a start but no rows."""
        if x.start is None:
            return None
        lo = rs.idx_of(x.start, self.f)
        return (lo, lo + x.shape[0] - 1)

    def get(self, k):
        return self.pool[k % len(self.pool)]

    def idx(self, k):
        return k % len(self.pool)

    def idx2(self, i, y):
        """Second operand: y == 3 is the first operand itself, otherwise another live series when there is one."""
        n = len(self.pool)
        return i if (y >= 3 or n == 1) else (i + 1 + y % (n - 1)) % n

    def describe(self, idx):
        return pgen.describe(pgen.from_index(self.f, idx))

    # ---- dates, variants, values -------------------------------------------

    def dates(self, D, x):
        """(irispie dates object, positions in order) or None if not applicable to the state of x."""
        ir, k = self.ir, D["k"]
        if k == "period":
            a = self.base + D["a"]
            return self.P(a), [a]
        if k == "span":
            a, n, step = self.base + D["a"], D["n"], D["step"]
            pos = [a + i * step for i in range(n)]
            if step == 1 and D.get("rshift"):
                return self.P(pos[0]) >> self.P(pos[-1]), pos
            return ir.Span(self.P(pos[0]), self.P(pos[-1]), step), pos
        if k in ("tuple", "list"):
            pos = [self.base + o for o in D["offs"]]
            obj = [self.P(i) for i in pos]
            return (tuple(obj) if k == "tuple" else obj), pos
        rsp = self.rspan(x)
        has_rows = rsp is not None and rsp[1] >= rsp[0]
        if k in ("open_start", "open_end"):
            if not has_rows:
                return None
            a = self.base + D["a"]
            if k == "open_start":
                return (None >> self.P(a)), list(range(rsp[0], a + 1))
            return (self.P(a) >> None), list(range(a, rsp[1] + 1))
        pos = list(range(rsp[0], rsp[1] + 1)) if has_rows else []
        if k == "all":
            return ..., pos
        if k == "open_both":
            if rsp is None:
                return None
            return ir.Span(None, None), pos
        if k == "slice_all":
            return slice(None), pos
        raise ValueError(D)

    @staticmethod
    def variants(V, nv):
        if isinstance(V, bool) or V is None:
            return None, list(range(nv))
        if isinstance(V, int):
            return V % nv, [V % nv]
        if isinstance(V, list):
            sel = []
            for v in V:
                if v % nv not in sel:
                    sel.append(v % nv)
            return tuple(sel), sel
        a, b = V["slice"]
        sl = slice(a, b)
        sel = list(range(*sl.indices(nv)))
        if not sel:
            return None, list(range(nv))
        return sl, sel

    def values(self, VAL, T, pos, nsel, i):
        """(object to assign, matrix W[T][nsel], pool index of a source series or None)."""
        vals = VAL["vals"]
        L = len(vals)

        def g(i):
            z = vals[i % L]
            return NAN if z is None else float(z)
        kind = VAL["k"]
        src = None
        if kind == "series":
            src = self.idx2(i, VAL["y"])
            ym = self.pool[src][1]
            if ym.nv not in (1, nsel):
                kind, src = "scalar", None
        if T == 0:
            kind, src = "scalar", None
        if kind == "scalar":
            return g(0), [[g(0)] * nsel for _ in range(T)], None
        if kind in ("tuple", "array1"):
            col_ = [g(r) for r in range(T)]
            obj = tuple(col_) if kind == "tuple" else np.array(col_, dtype=float)
            return obj, [[col_[r]] * nsel for r in range(T)], None
        if kind == "array2":
            W = [[g(r * nsel + c) for c in range(nsel)] for r in range(T)]
            return np.array(W, dtype=float).reshape(T, nsel), W, None
        if kind == "list":
            kinds = VAL.get("kinds") or [0]
            obj, cols = [], []
            for c in range(nsel):
                if kinds[c % len(kinds)]:
                    col_ = [g(c * T + r + 1) for r in range(T)]
                    obj.append(tuple(col_))
                else:
                    col_ = [g(c)] * T
                    obj.append(g(c))
                cols.append(col_)
            return obj, [[cols[c][r] for c in range(nsel)] for r in range(T)], None
        # another live series
        y, ym = self.pool[src]
        W = [[ym.get(pos[r], c if ym.nv > 1 else 0) for c in range(nsel)] for r in range(T)]
        return y, W, src

    # ---- construction --------------------------------------------------------

    def construct(self, d, description=""):
        """Build (irispie Series, model) from a series description."""
        ir = self.ir
        nv, how = d["nv"], d["how"]
        lo = self.base + d["off"]
        m = rs.Ref(self.f, nv)
        rows = [[NAN if z is None else float(z) for z in (list(r) + [None] * nv)[:nv]] for r in d["rows"]]
        if how == "empty" or not rows:
            x = self.call("construct:empty", ir.Series, num_variants=nv, description=description)
            return x, m
        arr = np.array(rows, dtype=float).reshape(len(rows), nv)
        if how == "periods":
            order = d.get("order") or [0]
            idxs = sorted(range(len(rows)), key=lambda r: (order[r % len(order)], r))
            if d.get("gaps"):
                idxs = [r for r in idxs if r % 3 != 1] or idxs
            pos = [lo + r for r in idxs]
            periods = tuple(self.P(i) for i in pos)
            vals = arr[idxs, :]
            for r, t in zip(idxs, pos):
                for v in range(nv):
                    m.set(t, v, rows[r][v])
            if nv == 1 and d.get("as_tuple"):
                vals = tuple(float(z) for z in vals[:, 0])
            x = self.call("construct:periods_values", ir.Series, num_variants=nv, periods=periods, values=vals,
                          description=description)
            return x, m
        for r in range(len(rows)):
            for v in range(nv):
                m.set(lo + r, v, rows[r][v])
        if how == "periods_span":
            x = self.call("construct:periods_values", ir.Series, num_variants=nv,
                          periods=self.P(lo) >> self.P(lo + len(rows) - 1), values=arr, description=description)
        elif how == "start_tuple":
            vals = tuple(arr[:, 0].tolist()) if nv == 1 else [tuple(arr[:, v].tolist()) for v in range(nv)]
            x = self.call("construct:start_values", ir.Series, num_variants=nv, start=self.P(lo), values=vals,
                          description=description)
        elif how == "from_start_and_array":
            given = arr.copy()
            x = self.call("construct:from_start_and_array", ir.Series.from_start_and_array, self.P(lo), given,
                          description=description)
            twin = self.call("construct:from_start_and_array", ir.Series.from_start_and_array, self.P(lo), given,
                             description=description)
            self.remember_twin(twin, given)
        else:  # start_array
            vals = arr[:, 0].copy() if (nv == 1 and d.get("as_tuple")) else arr.copy()
            x = self.call("construct:start_values", ir.Series, num_variants=nv, start=self.P(lo), values=vals,
                          description=description)
            twin = self.call("construct:start_values", ir.Series, num_variants=nv, start=self.P(lo), values=vals,
                             description=description)
            self.remember_twin(twin, vals)
        return x, m

    # a second series built from the very same array, and the array itself: later writes to the first series
    # must leave both as they were (a Series is a map of its own, not a view of the caller's data)
    def remember_twin(self, twin, given):
        if not hasattr(self, "twins"):
            self.twins = []
        self.twins.append((twin, _snap(twin), given, given.copy()))

    def twins_intact(self, what):
        for twin, snap, given, orig in getattr(self, "twins", ()):
            if _snap(twin) != snap:
                self.col.fail("aliasing:sibling_series_changed",
                              f"step {self.step} {what}: a series built earlier from the same array changed although it was never touched")
                return False
            if not np.array_equal(given, orig, equal_nan=True):
                self.col.fail("aliasing:input_array_changed",
                              f"step {self.step} {what}: the array the series was constructed from changed: {given.tolist()} was {orig.tolist()}")
                return False
        return True

    # ---- verification ----------------------------------------------------------

    def scale(self, models):
        s = 1.0
        for m in models:
            for z in m.cells.values():
                if math.isfinite(z):
                    s = max(s, abs(z))
        return s

    def verify(self, x, m, name, exact, trimmed, scale, amb, what, vname=None):
        """Compare live series x with model m; adopt admissible readings; resynchronise the model."""
        col, ir, f = self.col, self.ir, self.f
        vname = vname or name
        where = f"step {self.step} ({what})"
        if not isinstance(x, ir.Series):
            col.fail(f"{name}:result_type", f"{where}: result is {type(x).__name__}, not a Series")
            return False
        if x.num_variants != m.nv:
            col.fail(f"{name}:num_variants", f"{where}: number of variants {x.num_variants}, expected {m.nv}")
            return False
        data = self.call(f"{name}:get_data", x.get_data)
        rsp = self.rspan(x)
        nrows = 0 if rsp is None else rsp[1] - rsp[0] + 1
        if data.shape != (nrows, m.nv):
            col.fail(f"{name}:data_shape", f"{where}: get_data() has shape {data.shape}, reported span has {nrows} periods x {m.nv} variants")
            return False
        got = rs.read(x, f)
        # undocumented cells: adopt what the library returned if it is an admissible reading
        for key, cands in sorted(amb.items()):
            g = got.get(*key)
            if cands is None or any(rs.close(g, c, RTOL, ATOL_REL * scale) for c in cands):
                m.set(key[0], key[1], g)
                self.label("amb_adopted")
            else:
                col.fail(f"{vname}:values", f"{where}: cell {self.describe(key[0])} variant {key[1]}: got {g!r}, "
                                           f"admissible readings {cands!r}")
                return False
        rtol, atol = (0.0, 0.0) if exact else (RTOL, ATOL_REL * scale)
        for key in sorted(set(got.cells) | set(m.cells)):
            a, b = got.get(*key), m.get(*key)
            if not rs.close(a, b, rtol, atol):
                col.fail(f"{vname}:values", f"{where}: cell {self.describe(key[0])} variant {key[1]}: got {a!r} expected {b!r}")
                return False
        sp = m.span()
        if sp is None:
            if trimmed and x.start is not None:
                col.fail(f"{name}:all_missing_result_has_start",
                         f"{where}: all-missing result reports start {x.start!r} (expected the empty series, start None)")
                return False
        else:
            if rsp is None:
                col.fail(f"{name}:span_not_covering", f"{where}: series with values reports no start")
                return False
            if rsp[0] > sp[0] or rsp[1] < sp[1]:
                col.fail(f"{name}:span_not_covering", f"{where}: reported span {x.start!r}..{x.end!r} does not cover "
                                                      f"{self.describe(sp[0])}..{self.describe(sp[1])}")
                return False
            if trimmed and rsp != sp:
                col.fail(f"{name}:all_missing_edge_period",
                         f"{where}: reported span {x.start!r}..{x.end!r} has all-missing leading/trailing periods; values "
                         f"span {self.describe(sp[0])}..{self.describe(sp[1])}")
                return False
            end = x.end
            if rs.idx_of(end, f) != rsp[1] or len(x.periods) != nrows:
                col.fail(f"{name}:span_length", f"{where}: start/end/periods disagree with the number of data rows")
                return False
        # resynchronise (keeps one-step rounding differences from accumulating)
        if not exact:
            for key in list(m.cells):
                m.cells[key] = got.get(*key)
        # a read of the widened span returns the same map, NaN outside
        lo, hi = (sp[0] - 3, sp[1] + 3) if sp is not None else (self.base - 1, self.base + 1)
        wide = self.call(f"{name}:get_data_wide", x.get_data, self.P(lo) >> self.P(hi))
        exp = m.array(lo, hi)
        if wide.shape != exp.shape or not np.array_equal(np.asarray(wide, dtype=float), exp, equal_nan=True):
            col.fail(f"{name}:read_widened_span", f"{where}: get_data({self.describe(lo)}>>{self.describe(hi)}) differs from the "
                                                  f"series' own cells padded with NaN")
            return False
        return True

    def finish(self, res, before, what):
        """Isolation, aliasing and value checks after one operation."""
        col = self.col
        name = res.name
        where = f"step {self.step} ({what})"
        ok = True
        for j, (x, _) in enumerate(self.pool):
            if j == res.receiver:
                continue
            if _snap(x) != before[j]:
                role = "argument" if j in res.inputs else "bystander"
                col.fail(f"{name}:modifies_{role}", f"{where}: live series #{j} ({role}) changed: "
                                                    f"start/shape before {before[j][0]} {before[j][1]}, after {x.start!r} {x.data.shape}")
                ok = False
        if not ok:
            return False
        scale = self.scale([m for _, m in self.pool] + ([res.model] if res.model is not None else []))
        if res.receiver is not None:
            x = self.pool[res.receiver][0]
            if not self.verify(x, res.model, name, res.exact, res.trimmed, scale, res.amb, what, res.detail):
                return False
            self.pool[res.receiver][1] = res.model
        if res.created is not None:
            x = res.created
            if not self.verify(x, res.model, name, res.exact, res.trimmed, scale, res.amb, what, res.detail):
                return False
            for j, (y, _) in enumerate(self.pool):
                if x is y:
                    col.fail(f"{name}:returns_input", f"{where}: the result is the input object #{j}")
                    return False
                if np.shares_memory(x.data, y.data):
                    col.fail(f"{name}:aliases_input", f"{where}: result shares memory with live series #{j}")
                    return False
            if res.dst < len(self.pool):
                self.pool[res.dst] = [x, res.model]
            else:
                self.pool.append([x, res.model])
        # global aliasing invariant
        for a in range(len(self.pool)):
            for b in range(a + 1, len(self.pool)):
                if np.shares_memory(self.pool[a][0].data, self.pool[b][0].data):
                    col.fail(f"{name}:live_series_share_memory", f"{where}: live series #{a} and #{b} share memory")
                    return False
        if scale > MAG_CAP:
            self.stop = True
            self.label("stopped_magnitude_cap")
        for _, m in self.pool:
            if any(not math.isfinite(z) for z in m.cells.values()):
                self.label("state_has_inf")
                break
        for x, m in self.pool:
            rsp = self.rspan(x)
            if rsp is not None and rsp[1] < rsp[0]:
                self.label("state_start_without_rows")
            elif rsp is not None and rsp != m.span():
                self.label("state_untrimmed")
        return True

    # ---- form helper -------------------------------------------------------------

    def apply_form(self, res, op, i, fname, args=(), kwargs=None, new_model=None):
        """Apply method form x.fname(*args) in place, or functional form irispie.fname(x, *args) -> dst."""
        kwargs = kwargs or {}
        x = self.pool[i][0]
        res.model = new_model
        if op.get("form") == "func":
            res.functional = True
            res.created = self.call(res.name, getattr(self.ir, fname), x, *args, **kwargs)
            res.dst = op.get("dst", 0)
            res.inputs = tuple(res.inputs) + (i,)
        else:
            self.call(res.name, getattr(x, fname), *args, **kwargs)
            res.receiver = i
        return res

    # ---- operations -----------------------------------------------------------------

    def op_new(self, op):
        res = _Res("construct", "construct:" + op["s"]["how"])
        x, m = self.construct(op["s"], description=f"new{self.step}")
        res.created, res.model, res.dst = x, m, op["dst"]
        res.trimmed = True
        return res

    def op_set(self, op):
        i = self.idx(op["x"])
        x, m = self.pool[i]
        d = self.dates(op["dates"], x)
        if d is None:
            return None
        dobj, pos = d
        vobj, sel = self.variants(op["vars"], m.nv)
        val, W, src = self.values(op["val"], len(pos), pos, len(sel), i)
        kind = op["dates"]["k"]
        res = _Res("write")
        res.inputs = (src,) if src is not None and src != i else ()
        m2 = m.copy()
        sp = m.span()
        for r, t in enumerate(pos):
            for c, v in enumerate(sel):
                m2.set(t, v, W[r][c])
                if sp is not None and (t < sp[0] or t > sp[1]) and not _isnan(W[r][c]):
                    self.flags.add("write_outside")
        if sp is None and m2.cells:
            self.label("write_into_empty")
        if m.cells and not m2.cells:
            self.label("write_erases_all")
        if op["via"] == "item":
            if vobj is None and kind != "tuple":
                self.call(res.name, x.__setitem__, dobj, val)
            else:
                self.call(res.name, x.__setitem__, (dobj, vobj), val)
        elif vobj is None:
            self.call(res.name, x.set_data, dobj, val)
        else:
            self.call(res.name, x.set_data, dobj, val, vobj)
        res.receiver, res.model, res.trimmed = i, m2, True
        return res

    def op_get(self, op):
        i = self.idx(op["x"])
        x, m = self.pool[i]
        d = self.dates(op["dates"], x)
        if d is None:
            return None
        dobj, pos = d
        vobj, sel = self.variants(op["vars"], m.nv)
        kind, via = op["dates"]["k"], op["via"]
        res = _Res("recreate" if via == "call" else "read")
        res.inputs = (i,)
        if via == "call":
            out = self.call(res.name, x, dobj) if vobj is None else self.call(res.name, x, dobj, vobj)
            m2 = rs.Ref(self.f, len(sel))
            for t in pos:
                for c, v in enumerate(sel):
                    m2.set(t, c, m.get(t, v))
            res.created, res.model, res.dst = out, m2, op["dst"]
            return res
        if via == "item":
            if vobj is None and kind != "tuple":
                out = self.call(res.name, x.__getitem__, dobj)
            else:
                out = self.call(res.name, x.__getitem__, (dobj, vobj))
        elif vobj is None:
            out = self.call(res.name, x.get_data, dobj)
        else:
            out = self.call(res.name, x.get_data, dobj, vobj)
        exp = np.array([[m.get(t, v) for v in sel] for t in pos], dtype=float).reshape(len(pos), len(sel))
        ok = isinstance(out, np.ndarray) and out.shape == exp.shape and np.array_equal(out, exp, equal_nan=True)
        self.col.check(ok, f"{res.name}:values", lambda: f"step {self.step}: read {op['dates']} variants {op['vars']} returned "
                                                         f"{np.asarray(out).tolist()!r}, expected {exp.tolist()!r}")
        if sp_outside(pos, m):
            self.label("read_outside_span")
        return res

    def op_shift(self, op):
        i = self.idx(op["x"])
        x, m = self.pool[i]
        by, form = op["by"], op["form"]
        res = _Res("shift", f"shift:{by if isinstance(by, str) else 'int'}")
        if isinstance(by, str):
            if self.f == 0:
                return None
            if by == "yoy":
                m2, amb = m.shifted(-self.f), {}
            else:
                m2, amb = ref_keyword_shift(m, by, self.rspan(x))
            res.amb = amb
        else:
            m2 = m.shifted(by)
        if form == "index" and isinstance(by, int):
            res.functional = True
            res.inputs = (i,)
            res.created, res.model, res.dst = self.call(res.name, x.__getitem__, by), m2, op["dst"]
            return res
        return self.apply_form(res, op if form != "index" else dict(op, form="func"), i, "shift", (by,), new_model=m2)

    def op_clip(self, op):
        i = self.idx(op["x"])
        x, m = self.pool[i]
        a = None if op["a"] is None else self.base + op["a"]
        b = None if op["b"] is None else self.base + op["b"]
        res = _Res("clip")
        m2 = rs.Ref(self.f, m.nv, {k: z for k, z in m.cells.items() if (a is None or k[0] >= a) and (b is None or k[0] <= b)})
        self.call(res.name, x.clip, None if a is None else self.P(a), None if b is None else self.P(b))
        res.receiver, res.model = i, m2
        return res

    def op_trim(self, op):
        i = self.idx(op["x"])
        x, m = self.pool[i]
        res = _Res("trim")
        self.call(res.name, x.trim)
        res.receiver, res.model, res.trimmed = i, m.copy(), True
        return res

    def op_lay(self, op):
        i = self.idx(op["x"])
        j = self.idx2(i, op["y"])
        (x, m), (y, my) = self.pool[i], self.pool[j]
        if m.nv != my.nv and 1 not in (m.nv, my.nv):
            return None
        which = op["op"]
        res = _Res(which)
        if which == "overlay":
            m2, amb = ref_overlay(m, my, self.rspan(y))
        else:
            m2, amb = ref_overlay(my, m, self.rspan(x))
        res.amb = amb
        res.inputs = (j,) if j != i else ()
        return self.apply_form(res, op, i, which, (y,), new_model=m2)

    def op_hstack(self, op):
        i = self.idx(op["x"])
        x, m = self.pool[i]
        how = op["how"]
        js = [self.idx2(i, j) for j in op["ys"]]
        if how in ("and", "or"):
            js = js[:1] or [i]
        parts = [m] + [self.pool[j][1] for j in js]
        nv = sum(p.nv for p in parts)
        m2 = rs.Ref(self.f, nv)
        c0 = 0
        for p in parts:
            for (t, v), z in p.cells.items():
                m2.cells[(t, c0 + v)] = z
            c0 += p.nv
        res = _Res("hstack")
        res.inputs = tuple([i] + js)
        ys = [self.pool[j][0] for j in js]
        if how == "and":
            out = self.call(res.name, operator.and_, x, ys[0])
        elif how == "or":
            out = self.call(res.name, operator.or_, x, ys[0])
        else:
            out = self.call(res.name, x.hstack, *ys)
        res.created, res.model, res.dst = out, m2, op["dst"]
        return res

    def op_unary(self, op):
        i = self.idx(op["x"])
        x, m = self.pool[i]
        fn = op["fn"]
        res = _Res("unary", "unary:" + fn)
        res.inputs = (i,)
        if fn == "neg":
            out, m2 = self.call(res.name, operator.neg, x), m.map(lambda z: -z)
        elif fn == "pos":
            out, m2 = self.call(res.name, operator.pos, x), m.copy()
        elif fn == "abs":
            out, m2 = self.call(res.name, abs, x), m.map(abs)
        else:
            out, m2 = self.call(res.name, round, x, op["nd"]), ref_elem(m, "round", op["nd"])
        res.created, res.model, res.dst = out, m2, op["dst"]
        return res

    def _binop_labels(self, ma, mb):
        sa, sb = ma.span(), mb.span()
        if sa is None or sb is None:
            self.label("binop_with_empty")
            if sa is None and sb is None:
                self.label("binop_both_empty")
        elif sa != sb:
            self.flags.add("binop_diff_spans")
            if sa[1] < sb[0] or sb[1] < sa[0]:
                self.label("binop_non_overlapping")
        if ma.nv != mb.nv:
            self.label("binop_variant_broadcast")

    def op_binop(self, op):
        i = self.idx(op["x"])
        x, m = self.pool[i]
        fn, other = op["fn"], op["other"]
        py = _BINOPS[fn]
        if other["k"] == "series":
            j = self.idx2(i, other["y"])
            y, my = self.pool[j]
            if m.nv != my.nv and 1 not in (m.nv, my.nv):
                return None
            res = _Res("binop:series", f"binop:series:{fn}")
            res.inputs = (i, j)
            self._binop_labels(m, my)
            m2, amb = ref_binop(fn, m, my)
            out = self.call(res.name, py, x, y)
        else:
            s = float(other["v"])
            refl = bool(other.get("refl"))
            res = _Res("binop:scalar", f"binop:{'rscalar' if refl else 'scalar'}:{fn}")
            res.inputs = (i,)
            arg = int(s) if other.get("as_int") and s == int(s) else s
            m2, amb = ref_binop(fn, m, arg, reflected=refl, rspan=self.rspan(x))
            out = self.call(res.name, py, arg, x) if refl else self.call(res.name, py, x, arg)
        res.created, res.model, res.dst, res.amb = out, m2, op["dst"], amb
        res.exact, res.trimmed = False, True
        return res

    def op_cmp(self, op):
        i = self.idx(op["x"])
        x, m = self.pool[i]
        fn, other = op["fn"], op["other"]
        py = _CMPOPS[fn]
        if other["k"] == "series":
            j = self.idx2(i, other["y"])
            y, my = self.pool[j]
            if m.nv != my.nv and 1 not in (m.nv, my.nv):
                return None
            res = _Res("cmp:series")
            res.inputs = (i, j)
            at, nv = ref_cmp(fn, m, my), max(m.nv, my.nv)
            spans = [s for s in (m.span(), my.span()) if s is not None]
            out = self.call(res.name, py, x, y)
        else:
            res = _Res("cmp:scalar")
            res.inputs = (i,)
            at, nv = ref_cmp(fn, m, float(other["v"])), m.nv
            spans = [s for s in (m.span(),) if s is not None]
            out = self.call(res.name, py, x, float(other["v"]))
        col, where = self.col, f"step {self.step}: x {_SYMBOL[fn]} {other}"
        if not col.check(isinstance(out, self.ir.Series), f"{res.name}:result_type", lambda: f"{where}: {type(out).__name__}"):
            return res
        if not col.check(out.num_variants == nv, f"{res.name}:num_variants", lambda: f"{where}: {out.num_variants} variants, expected {nv}"):
            return res
        rsp = self.rspan(out)
        data = self.call(res.name, out.get_data)
        nrows = 0 if rsp is None else rsp[1] - rsp[0] + 1
        if not col.check(data.shape == (nrows, nv), f"{res.name}:data_shape", lambda: f"{where}: shape {data.shape}"):
            return res
        if spans:
            need = (min(s[0] for s in spans), max(s[1] for s in spans))
            if not col.check(rsp is not None and rsp[0] <= need[0] and rsp[1] >= need[1], f"{res.name}:span_not_covering",
                             lambda: f"{where}: result span {out.start!r}..{out.end!r} does not cover the operands' values "
                                     f"{self.describe(need[0])}..{self.describe(need[1])}"):
                return res
        for r in range(nrows):
            for v in range(nv):
                e = at(rsp[0] + r, v)
                if not col.check(bool(data[r, v]) == e, f"{res.name}:values",
                                 lambda: f"{where}: at {self.describe(rsp[0] + r)} variant {v}: got {data[r, v]!r}, expected {e}"):
                    return res
        for j2, (z, _) in enumerate(self.pool):
            col.check(out is not z and not np.shares_memory(out.data, z.data), f"{res.name}:aliases_input",
                      lambda: f"{where}: result shares memory with live series #{j2}")
        return res

    def op_elem(self, op):
        i = self.idx(op["x"])
        x, m = self.pool[i]
        fn = op["fn"]
        res = _Res("elem", "elem:" + fn)
        args = ()
        arg = None
        if fn == "round":
            arg = int(op["arg"]) % 3
            args = (arg,)
        elif fn in ("maximum", "minimum"):
            arg = float(op["arg"])
            args = (arg,)
        m2 = ref_elem(m, fn, arg)
        res.exact = False
        return self.apply_form(res, op, i, fn, args, new_model=m2)

    def op_stat(self, op):
        i = self.idx(op["x"])
        x, m = self.pool[i]
        fn, axis, q = op["fn"], op["axis"], op["q"]
        args = _stat_args(fn, q)
        rsp = self.rspan(x)
        if axis == 0:
            if rsp is None or rsp[1] < rsp[0]:
                return None
            res = _Res("stat:axis0", f"stat:axis0:{fn}")
            res.inputs = (i,)
            res.functional = True
            exp = ref_stat_time(m, fn, q, rsp)
            kw = {"axis": 0}
            if op.get("nounpack"):
                kw["unpack_singleton"] = False
            out = self.call(res.name, getattr(self.ir, fn), x, *args, **kw)
            unpack = m.nv == 1 and not op.get("nounpack")
            where = f"step {self.step}: irispie.{fn}(x, axis=0)"
            if unpack:
                ok = isinstance(out, float)
                got = [out] if ok else []
            else:
                ok = isinstance(out, list) and len(out) == m.nv and all(isinstance(z, float) for z in out)
                got = out if ok else []
            if self.col.check(ok, f"{res.name}:result_type", lambda: f"{where} returned {out!r}"):
                mag, n = self.scale([m]), rsp[1] - rsp[0] + 1
                atol = 0.0 if fn.endswith("prod") else ATOL_REL * n * (mag * mag if fn.endswith("var") else mag)
                for v, (a, b) in enumerate(zip(got, exp)):
                    self.col.check(rs.close(a, b, RTOL, atol), f"{res.detail}:values",
                                   lambda: f"{where} variant {v}: got {a!r}, expected {b!r}")
            return res
        res = _Res("stat:axis1", f"stat:axis1:{fn}")
        m2, amb = ref_stat_rows(m, fn, q, rsp if rsp is not None and rsp[1] >= rsp[0] else None)
        res.amb, res.exact = amb, False
        return self.apply_form(res, op, i, fn, args, new_model=m2)

    def op_mov(self, op):
        i = self.idx(op["x"])
        x, m = self.pool[i]
        fn, w = op["fn"], op["window"]
        res = _Res("moving", "moving:" + fn)
        if w is None:
            if self.f not in (1, 4, 12, 0):
                w = -2
            else:
                k = self.f if self.f else 4
        if w is not None:
            k = -w
        m2 = ref_moving(m, fn, k)
        res.exact = False
        if w is None:
            return self.apply_form(res, op, i, fn, (), new_model=m2)
        if op.get("kw"):
            return self.apply_form(res, op, i, fn, (), {"window": w}, new_model=m2)
        return self.apply_form(res, op, i, fn, (w,), new_model=m2)

    def op_fill(self, op):
        i = self.idx(op["x"])
        x, m = self.pool[i]
        method = op["method"]
        res = _Res("fill_missing", "fill_missing:" + method)
        D = op["span"]
        if D is None:
            rsp = self.rspan(x)
            sobj, pos = None, (list(range(rsp[0], rsp[1] + 1)) if rsp is not None else [])
        else:
            d = self.dates(D, x)
            if d is None:
                return None
            sobj, pos = d
        margs, const, filler = None, None, None
        if method == "constant":
            const = float(op["const"])
            margs = const
        elif method == "from_series":
            j = self.idx2(i, op["y"])
            y, filler = self.pool[j]
            if filler.nv != 1:
                return None
            margs = y
            res.inputs = (j,) if j != i else ()
        m2, amb = ref_fill(m, method, pos, const, filler)
        res.amb = amb
        res.exact = method not in ("linear", "log_linear")
        args, kwargs = (method,), {}
        if margs is not None:
            args += (margs,)
        if sobj is not None or op.get("span_kw"):
            if margs is None and not op.get("span_kw"):
                args += (None, sobj)
            else:
                kwargs["span"] = sobj
        return self.apply_form(res, op, i, "fill_missing", args, kwargs, new_model=m2)

    def op_extrap(self, op):
        i = self.idx(op["x"])
        x, m = self.pool[i]
        res = _Res("extrapolate")
        a, n = self.base + op["a"], op["n"]
        pos = list(range(a, a + n))
        coefs = [float(c) for c in op["coefs"]]
        c0, log = float(op["intercept"]), bool(op["log"])
        if x.start is None:
            m2, amb = m.copy(), {}
        else:
            m2, amb = ref_extrapolate(m, coefs, pos, c0, log)
        res.amb, res.exact = amb, False
        ar = coefs[0] if (len(coefs) == 1 and op.get("scalar_coef")) else tuple(coefs)
        kwargs = {}
        if c0 != 0 or op.get("always_kw"):
            kwargs["intercept"] = c0
        if log:
            kwargs["log"] = True
        return self.apply_form(res, op, i, "extrapolate", (ar, self.P(pos[0]) >> self.P(pos[-1])), kwargs, new_model=m2)

    def op_copy(self, op):
        i = self.idx(op["x"])
        x, m = self.pool[i]
        res = _Res("copy")
        res.inputs = (i,)
        res.created, res.model, res.dst = self.call(res.name, x.copy), m.copy(), op["dst"]
        return res

    def op_redate(self, op):
        i = self.idx(op["x"])
        x, m = self.pool[i]
        rsp = self.rspan(x)
        if rsp is None:
            return None
        new = self.base + op["new"]
        res = _Res("redate")
        if op["old"] is None:
            delta = new - rsp[0]
            args = (self.P(new),)
        else:
            old = self.base + op["old"]
            delta = new - old
            args = (self.P(new), self.P(old))
        return self.apply_form(res, op, i, "redate", args, new_model=m.shifted(-delta))

    def op_change(self, op):
        i = self.idx(op["x"])
        x, m = self.pool[i]
        fn, k = op["fn"], op["k"]
        res = _Res("change", "change:" + fn)
        res.exact = False
        return self.apply_form(res, op, i, fn, (-k,), new_model=ref_change(m, fn, k))

    # ---- driver -------------------------------------------------------------------

    def run(self, case):
        for n, d in enumerate(case["init"]):
            self.step = -1 - n
            x, m = self.construct(d, description=f"s{n}")
            if not self.verify(x, m, "construct", True, True, 1.0, {}, f"initial series {n}", "construct:" + d["how"]):
                return
            self.pool.append([x, m])
        table = {
            "new": self.op_new, "set": self.op_set, "get": self.op_get, "shift": self.op_shift, "clip": self.op_clip,
            "trim": self.op_trim, "overlay": self.op_lay, "underlay": self.op_lay, "hstack": self.op_hstack,
            "unary": self.op_unary, "binop": self.op_binop, "cmp": self.op_cmp, "elem": self.op_elem, "stat": self.op_stat,
            "mov": self.op_mov, "fill": self.op_fill, "extrap": self.op_extrap, "copy": self.op_copy,
            "redate": self.op_redate, "change": self.op_change,
        }
        for k, op in enumerate(case["ops"]):
            if self.stop:
                break
            self.step = k
            before = [_snap(x) for x, _ in self.pool]
            res = table[op["op"]](op)
            if res is None:
                self.label("skipped_not_applicable")
                continue
            if self.col.items:
                return
            if res.functional:
                self.flags.add("functional_form")
            what = _brief(op)
            if not self.finish(res, before, what):
                return
            if not self.twins_intact(what):
                return


def sp_outside(pos, m):
    sp = m.span()
    return sp is not None and any(t < sp[0] or t > sp[1] for t in pos)


def _brief(op):
    keep = {k: v for k, v in op.items() if k not in ("val", "s")}
    if "val" in op:
        keep["val"] = op["val"]["k"]
    if "s" in op:
        keep["s"] = op["s"]["how"]
    return str(keep)[:300]


# ---------------------------------------------------------------------------
# Strategies
# ---------------------------------------------------------------------------

_VAL = st.integers(-12, 50).map(lambda k: None if k > 40 else k / 4.0)
_SCALAR = st.integers(-8, 12).map(lambda k: k / 2.0)
_OFF = st.integers(-8, 16)
_IDX = st.integers(0, 2)
_IDX2 = st.integers(0, 3)
_FORM = st.sampled_from(["method", "func"])


@st.composite
def _series_desc(draw, allow_empty=True):
    hows = ["start_tuple", "start_array", "from_start_and_array", "periods", "periods_span"] + (["empty"] if allow_empty else [])
    how = draw(st.sampled_from(hows))
    nv = draw(st.sampled_from([1, 1, 2, 3]))
    d = {"how": how, "off": draw(st.integers(-4, 8)), "nv": nv}
    if how == "empty":
        d["rows"] = []
        return d
    d["rows"] = draw(st.lists(st.lists(_VAL, min_size=nv, max_size=nv), min_size=1, max_size=12))
    if how == "periods":
        d["order"] = draw(st.lists(st.integers(0, 3), min_size=1, max_size=4))
        d["gaps"] = draw(st.booleans())
    if how in ("periods", "start_array"):
        d["as_tuple"] = draw(st.booleans())
    return d


@st.composite
def _dates(draw, open_ok=True):
    kinds = ["period", "span", "span", "tuple", "list"] + (["open_start", "open_end", "all", "open_both", "slice_all"] if open_ok else [])
    k = draw(st.sampled_from(kinds))
    if k == "period":
        return {"k": k, "a": draw(_OFF)}
    if k == "span":
        step = draw(st.sampled_from([1, 1, 1, 1, -1, 2]))
        n = draw(st.integers(1, 12 if step != 2 else 6))
        return {"k": k, "a": draw(_OFF), "n": n, "step": step, "rshift": draw(st.booleans())}
    if k in ("tuple", "list"):
        return {"k": k, "offs": draw(st.lists(_OFF, min_size=1, max_size=5, unique=True))}
    if k in ("open_start", "open_end"):
        return {"k": k, "a": draw(_OFF)}
    return {"k": k}


_VARS = st.one_of(
    st.none(), st.none(), st.integers(0, 2),
    st.lists(st.integers(0, 2), min_size=1, max_size=3, unique=True),
    st.fixed_dictionaries({"slice": st.tuples(st.sampled_from([None, 0, 1]), st.sampled_from([None, 1, 2, 3])).map(list)}),
)


@st.composite
def _write_value(draw):
    k = draw(st.sampled_from(["scalar", "scalar", "tuple", "array1", "array2", "list", "series", "series"]))
    v = {"k": k, "vals": draw(st.lists(_VAL, min_size=1, max_size=8))}
    if k == "list":
        v["kinds"] = draw(st.lists(st.integers(0, 1), min_size=1, max_size=3))
    if k == "series":
        v["y"] = draw(_IDX2)
    return v


_OTHER = st.one_of(
    st.fixed_dictionaries({"k": st.just("series"), "y": _IDX2}),
    st.fixed_dictionaries({"k": st.just("series"), "y": _IDX2}),
    st.fixed_dictionaries({"k": st.just("series"), "y": _IDX2}),
    st.fixed_dictionaries({"k": st.just("scalar"), "v": _SCALAR, "refl": st.booleans(), "as_int": st.booleans()}),
)

_OPS = (
    ["set"] * 8 + ["get"] * 4 + ["binop"] * 10 + ["shift"] * 3 + ["new"] * 2 + ["clip"] * 2 + ["overlay", "underlay"] * 2
    + ["hstack"] * 2 + ["unary", "cmp", "cmp", "elem", "elem", "stat", "stat", "mov", "mov", "fill", "fill", "fill",
                        "extrap", "extrap", "copy", "redate", "change", "trim"]
)


@st.composite
def _op(draw, f):
    name = draw(st.sampled_from(_OPS))
    o = {"op": name, "x": draw(_IDX)}
    if name == "new":
        o["s"] = draw(_series_desc())
        o["dst"] = draw(_IDX)
    elif name == "set":
        o.update(via=draw(st.sampled_from(["item", "item", "set_data"])), dates=draw(_dates()), vars=draw(_VARS), val=draw(_write_value()))
    elif name == "get":
        o.update(via=draw(st.sampled_from(["item", "get_data", "call", "call"])), dates=draw(_dates()), vars=draw(_VARS), dst=draw(_IDX))
    elif name == "shift":
        by = draw(st.one_of(st.integers(-6, 6), st.integers(-2, 2),
                            st.sampled_from(["yoy", "soy", "eopy", "tty"]) if f != 0 else st.integers(-3, 3)))
        o.update(by=by, form=draw(st.sampled_from(["index", "method", "func"])), dst=draw(_IDX))
    elif name == "clip":
        a = draw(st.one_of(st.none(), _OFF, _OFF))
        n = draw(st.one_of(st.none(), st.integers(0, 12), st.integers(0, 12), st.integers(-3, -1)))
        o.update(a=a, b=None if n is None else (a if a is not None else draw(_OFF)) + n)
    elif name in ("overlay", "underlay"):
        o.update(y=draw(_IDX2), form=draw(_FORM), dst=draw(_IDX))
    elif name == "hstack":
        o.update(ys=draw(st.lists(_IDX2, min_size=0, max_size=2)), how=draw(st.sampled_from(["method", "and", "or"])), dst=draw(_IDX))
    elif name == "unary":
        o.update(fn=draw(st.sampled_from(["neg", "pos", "abs", "round"])), nd=draw(st.integers(0, 2)), dst=draw(_IDX))
    elif name == "binop":
        o.update(fn=draw(st.sampled_from(["add", "add", "sub", "sub", "mul", "mul", "truediv", "pow", "floordiv", "mod"])),
                 other=draw(_OTHER), dst=draw(_IDX))
    elif name == "cmp":
        o.update(fn=draw(st.sampled_from(sorted(_CMPOPS))), other=draw(_OTHER))
    elif name == "elem":
        o.update(fn=draw(st.sampled_from(ELEM_ONE + ELEM_TWO + ("log", "exp", "sqrt", "abs", "round", "maximum"))),
                 arg=draw(st.integers(-2, 6)), form=draw(_FORM), dst=draw(_IDX))
    elif name == "stat":
        o.update(fn=draw(st.sampled_from(STAT_ALL)), axis=draw(st.sampled_from([1, 1, 0])), q=draw(st.sampled_from([0, 25, 50, 75, 100])),
                 form=draw(_FORM), dst=draw(_IDX), nounpack=draw(st.booleans()))
    elif name == "mov":
        o.update(fn=draw(st.sampled_from(["mov_sum", "mov_avg", "mov_mean", "mov_prod"])),
                 window=draw(st.sampled_from([None, -1, -2, -2, -2, -3, -3, -4])), kw=draw(st.booleans()),
                 form=draw(_FORM), dst=draw(_IDX))
    elif name == "fill":
        span = draw(st.one_of(
            st.none(), st.just({"k": "all"}),
            st.fixed_dictionaries({"k": st.just("span"), "a": _OFF, "n": st.integers(1, 12), "step": st.just(1), "rshift": st.booleans()}),
            st.fixed_dictionaries({"k": st.sampled_from(["open_start", "open_end"]), "a": _OFF}),
        ))
        o.update(method=draw(st.sampled_from(["next", "previous", "nearest", "linear", "log_linear", "constant", "from_series"])),
                 const=draw(_SCALAR), y=draw(_IDX2), span=span, span_kw=draw(st.booleans()), form=draw(_FORM), dst=draw(_IDX))
    elif name == "extrap":
        o.update(coefs=draw(st.lists(st.integers(-5, 5).map(lambda k: k / 4.0), min_size=1, max_size=3)), a=draw(_OFF),
                 n=draw(st.integers(1, 8)), intercept=draw(st.sampled_from([0.0, 0.0, 1.0, -0.5, 2.0])), log=draw(st.sampled_from([False, False, True])),
                 scalar_coef=draw(st.booleans()), always_kw=draw(st.booleans()), form=draw(_FORM), dst=draw(_IDX))
    elif name == "copy":
        o["dst"] = draw(_IDX)
    elif name == "redate":
        o.update(new=draw(_OFF), old=draw(st.one_of(st.none(), _OFF)), form=draw(_FORM), dst=draw(_IDX))
    elif name == "change":
        o.update(fn=draw(st.sampled_from(["diff", "roc", "pct"])), k=draw(st.integers(1, 4)), form=draw(_FORM), dst=draw(_IDX))
    return o


@st.composite
def _case(draw):
    f = draw(st.sampled_from(refcal.ALL))
    base = draw(pgen.period_desc(freq=f, margin_years=80))
    if f == 0:
        base = {"f": 0, "n": draw(st.integers(-60, 60))}
    init = draw(st.lists(_series_desc(), min_size=1, max_size=3))
    if len(init) == 1 and draw(st.booleans()):
        init = init + [draw(_series_desc(allow_empty=False))]
    # three concatenated lists: longer sequences on average, still shrinkable element by element
    ops = draw(st.lists(_op(f), min_size=3, max_size=9)) + draw(st.lists(_op(f), max_size=8)) + draw(st.lists(_op(f), max_size=8))
    return {"f": f, "base": base, "init": init, "ops": ops}


def _classify(case):
    labels = [f"freq_{refcal.LETTER[case['f']]}", f"init_{len(case['init'])}", f"len_{min(25, 5 * ((len(case['ops']) + 4) // 5))}"]
    for name in sorted({o["op"] for o in case["ops"]}):
        labels.append("has_" + name)
    return True, labels


def _check(case):
    col = Collector()
    it = _Interp(case, col)
    it.run(case)
    col.done()
    labels = list(it.labels)
    for fl in sorted(it.flags):
        labels.append("did_" + fl)
    strict = {"write_outside", "binop_diff_spans", "functional_form"} <= it.flags
    labels.append(f"rule_parts_{len({'write_outside', 'binop_diff_spans', 'functional_form'} & it.flags)}")
    return {"labels": labels, "nontrivial": strict}


def _matcher(buckets, fragment):
    def match(subcheck, case, bucket, message):
        return bucket in buckets and fragment in message
    return match


# Matchers for known_findings.json entries (used only while the corresponding entry is open)
FINDING_MATCHERS = {
    "overlay_underlay_argument_broadcast": _matcher(("overlay:modifies_argument", "underlay:modifies_argument"), "(argument) changed"),
    "redate_nameerror": _matcher(("redate:raises:NameError",), "old_data"),
    "binop_two_empty_series": _matcher(("binop:series:raises:TypeError", "cmp:series:raises:TypeError", "change:raises:TypeError"),
                                       "'NoneType' and 'NoneType'"),
    "clip_empty_series": _matcher(("clip:raises:IrisPieError",), "different time frequencies"),
    "moving_window_empty_series": _matcher(("moving:raises:ValueError",), "window shape cannot be larger"),
    "statistics_empty_series": _matcher(("stat:axis1:raises:ValueError",), "cannot reshape array of size 0"),
}


SUBCHECKS = [
    HypSub("sequence", _case, _check, _classify, budget={"quick": 8000, "thorough": 100000}),
]
