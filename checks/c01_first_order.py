"""
C01 - First-order solution satisfies the model equations and is the stable one.

Oracle: the harness's own evaluator of the generated structure (vlib.linmodels)
applied to simulated paths, with leads read from model-consistent
continuations; the harness's own companion-pencil eigenvalues for root counts.
"""

import math

import numpy as np
from hypothesis import strategies as st

from vlib import linmodels as lm, simdata as sd
from vlib.runner import HypSub, Collector, api

PROPERTY = "C01"

RULE = (
    "a structural linear model (1-4 variables, lags<=3, leads<=2, cross terms, constants, parameters, measurement "
    "block, additive or log-linear rendering) is drawn as a coefficient structure and rendered to source; the "
    "harness classifies it with its own companion-pencil eigenvalues; for determinate models a simulation set-up "
    "(span 1-12, initial conditions on every lag, dated unanticipated/anticipated/measurement shocks, deviation "
    "flag) is drawn. Non-trivial iff the model has >=1 lead and >=1 lag and >=1 non-zero shock."
)

ASSUMPTIONS = [
    "models with an eigenvalue modulus in [0.93, 1.07] are not judged (classification by tolerance is not sharp there); unit-root models are left to C05/C15",
    "residual tolerance 1e-8*(1+max|path|) in the units of the linear(ised) equation (logs for log-variables)",
    "growth sub-check: one exact random walk with drift; the steady (growth) path is taken from solve_steady/Databox.steady (judged by C05); cases where that fails or degenerates are counted, not judged",
    "warm-up simulations with other anticipated-shock horizons are run on the same model object before the judged simulation, and the judged simulation is repeated at the end and must be bit-identical",
    "time-consistency split is only asserted when no anticipated shock is dated at or after the split (a shorter first leg cannot see it)",
    "eigenvalues are compared as moduli of the finite non-zero ones (|lambda| in (2e-3, 5e2); defective zero/infinite roots perturb to eps**(+-1/k)); representation-dependent zero/infinite roots only enter the unstable count",
    "models that meet the root count but whose stable deflating subspace has an ill-conditioned predetermined block (cond > 1e6, Blanchard-Kahn rank condition) are not judged",
]

TAIL = 40
LONG = 400


def _ir():
    import irispie as ir
    return ir


@st.composite
def _case(draw):
    spec = draw(lm.spec_strategy(allow_wild=True))
    n = spec["n"]
    N = draw(st.integers(1, 12))
    val = st.one_of(st.sampled_from([1.0, -1.0, 0.5]), st.floats(-2, 2, allow_nan=False).map(lambda x: round(x, 4)))
    ushocks = draw(st.lists(st.tuples(st.integers(0, n - 1), st.integers(0, N - 1), val), min_size=draw(st.sampled_from([0, 1, 1])), max_size=3))
    ashocks = draw(st.lists(st.tuples(st.integers(0, n - 1), st.integers(0, N - 1), val), max_size=3))
    nm = len(spec["meas"])
    mshocks = draw(st.lists(st.tuples(st.integers(0, max(nm - 1, 0)), st.integers(0, N - 1), val), max_size=2)) if nm else []
    init = draw(st.lists(st.tuples(st.integers(0, n - 1), st.integers(1, 3),
                                   st.floats(-1, 1, allow_nan=False).map(lambda x: round(x, 4))), max_size=6))
    warm = draw(st.lists(st.tuples(st.integers(0, n - 1), st.integers(0, 11), val, st.integers(1, 12), st.booleans()), max_size=2))
    return {
        "warmups": [list(w) for w in warm],
        "spec": spec, "freq": draw(st.sampled_from(["Q", "Q", "M", "Y", "I"])), "N": N,
        "deviation": draw(st.booleans()),
        "init": [list(x) for x in init],
        "ushocks": [list(x) for x in ushocks], "ashocks": [list(x) for x in ashocks],
        "mshocks": [list(x) for x in mshocks],
        "split": draw(st.integers(1, 11)),
        "split_frames": draw(st.sampled_from([False, False, True])),
        # a Kalman filter run with anticipated shock values in the data, earlier on the same model object
        "kalman_warmup": draw(st.one_of(st.none(), st.none(), st.tuples(st.integers(0, n - 1), st.integers(0, 5), val, st.integers(2, 8)).map(list))),
    }


def _classify(case):
    spec = case["spec"]
    L, F = lm.shifts(spec)
    u, a = sd.effective_shocks(spec, case["ushocks"], case["ashocks"])
    labels = ["log_rendering" if spec["log"] else "additive_rendering",
              "deviation" if case["deviation"] else "levels"]
    if case.get("split_frames"):
        labels.append("force_split_frames")
    if case.get("kalman_warmup") and spec["meas"]:
        labels.append("kalman_filter_before")
    if a:
        labels.append("has_anticipated")
    if len({x[1] for x in u}) >= 2:
        labels.append("multi_unanticipated_dates")
    if max(L) >= 2:
        labels.append("maxlag_ge_2")
    if max(F) >= 2:
        labels.append("maxlead_ge_2")
    if spec["meas"]:
        labels.append("measurement_block")
    if spec["params"]:
        labels.append("parameters")
    nontrivial = sum(F) >= 1 and max(L) >= 1 and bool(u or a)
    return nontrivial, labels


def _finite_moduli(ev, lo=1e-3):
    return sorted(abs(x) for x in ev if np.isfinite(abs(x)) and lo < abs(x) < 1.0 / lo)


def _moduli_match(spec, mine_ev, their_ev):
    """(i) Every modulus in (0.1, 10) of either list has a partner in the other.  (ii) Every finite eigenvalue irispie reports with a
    modulus in (1e-3, 5e2) is an eigenvalue of the harness's own pencil: the smallest singular value of A*z + B
    vanishes.  Outside (0.1, 10) the harness's own list is not used: a defective zero (infinite) root of multiplicity
    k comes back as a ring of radius ~eps**(1/k) (its reciprocal), 6e-3 for k = 7, whose position depends on the
    representation; such a ring passes (ii) because the singular value at z is ~|z|**k."""
    def ring(ev, lo, hi):
        return sorted(abs(x) for x in ev if np.isfinite(abs(x)) and lo < abs(x) < hi)

    def one_way(a_ev, b_ev):
        b = ring(b_ev, 0.09, 11.0)                  # wider on the partner's side: no effect of the ring's edge
        for a in ring(a_ev, 0.1, 10.0):
            hit = next((i for i, x in enumerate(b) if abs(x - a) <= 1e-6 * max(1.0, a)), None)
            if hit is None:
                return False
            b.pop(hit)
        return True
    if not (one_way(mine_ev, their_ev) and one_way(their_ev, mine_ev)):
        return False
    A, B, _ = lm.pencil(spec)
    norm = max(1.0, float(np.linalg.norm(A, 2)), float(np.linalg.norm(B, 2)))
    for z in their_ev:
        z = complex(z)
        if not (np.isfinite(abs(z)) and 1e-3 < abs(z) < 5e2):
            continue
        smin = float(np.linalg.svd(A * z + B, compute_uv=False)[-1])
        if smin > 1e-7 * norm * max(1.0, abs(z)):
            return False
    return True


def _unstable_count(m):
    return sum(1 for s in m.get_eigenvalues_stability() if "UNSTABLE" in str(s))


def _maxabs(paths, spec):
    mx = 0.0
    for nm in spec["names"]:
        a = paths.arr(nm)
        a = a[np.isfinite(a)]
        if a.size:
            mx = max(mx, float(np.max(np.abs(np.log(a)))) if spec["log"] and np.all(a > 0) else float(np.max(np.abs(a))))
    return mx


def _replace_history(db, out, spec, start, upto, Lmax):
    """Copy variable values for t in [upto-Lmax, upto-1] from `out` into `db`."""
    for nm in spec["names"]:
        for t in range(upto - Lmax, upto):
            db[nm][start + t] = float(out[nm].get_data(start + t)[0, 0])


def _check(case):
    ir = _ir()
    col = Collector()
    spec = case["spec"]
    kind, ev = lm.classify(spec)
    if lm.steady(spec)[0] is None:
        return {"labels": ["singular_or_extreme_steady"], "nontrivial": False}
    if kind == "determinate":
        m = api("build_and_solve", lm.build_model, spec)
    else:
        try:
            m = lm.build_model(spec)
        except Exception:  # noqa: BLE001 - a model without a unique stable solution may be rejected
            return {"labels": [f"class_{kind}", "rejected_by_solve"], "nontrivial": False}
    nf = lm.num_forwards(spec)

    # ---- 1. root count and eigenvalues ------------------------------------
    if kind not in ("near_unit", "rank_deficient"):
        nun = api("get_eigenvalues_stability", _unstable_count, m)
        if kind == "determinate":
            col.check(nun == nf, "roots:unstable_count_determinate",
                      lambda: f"harness: determinate with {nf} leads; irispie reports {nun} unstable roots\n{lm.source(spec)}")
        else:
            col.check(nun != nf, "roots:unstable_count_nondeterminate",
                      lambda: f"harness: {kind} ({nf} leads); irispie reports {nun} unstable roots (= leads)\n{lm.source(spec)}")
        their_ev = api("get_eigenvalues", m.get_eigenvalues)
        col.check(_moduli_match(spec, ev, their_ev), "roots:eigenvalues",
                  lambda: f"own {_finite_moduli(ev)} vs irispie {_finite_moduli(their_ev)}\n{lm.source(spec)}")
    if kind != "determinate":
        col.done()
        return {"labels": [f"class_{kind}"], "nontrivial": False}

    # ---- set-up ------------------------------------------------------------
    start = sd.start_period(case["freq"])
    Lmax, Fmax = lm.max_lag_lead(spec)
    Lmax = max(Lmax, 1)
    N = case["N"]
    T = N + TAIL
    dev = case["deviation"]
    ush, ash = sd.effective_shocks(spec, case["ushocks"], case["ashocks"])
    xs, ys = lm.steady(spec)

    def make_db(deviation):
        db = sd.steady_db(m, spec, start, -Lmax, T + Fmax, deviation)
        sd.apply_init(db, spec, start, case["init"], deviation)
        sd.apply_shocks(db, spec, start, ush, ash, case["mshocks"])
        return db

    # ---- history on the same model object: earlier simulations with other anticipated horizons must not
    #      influence later ones (the solved model caches its forward expansion)
    shn_all = lm.shock_names(spec)
    for wi, wtau, wval, wN, wdev in case.get("warmups", []):
        if not shn_all[wi % spec["n"]]:
            continue
        wtau = min(wtau, wN - 1)
        dbw = sd.steady_db(m, spec, start, -Lmax, wN + Fmax, wdev)
        dbw["ant_" + shn_all[wi % spec["n"]]][start + wtau] = wval
        api("simulate_warmup", m.simulate, dbw, start >> (start + wN - 1), method="first_order", deviation=wdev)

    kw_ = case.get("kalman_warmup")
    if kw_ and spec["meas"] and shn_all[kw_[0] % spec["n"]]:
        wi, wtau, wval, wN = kw_
        dbk = ir.Databox()
        for k, nm in enumerate(lm.meas_names(spec)):
            base_ = float(math.exp(ys[k])) if spec["log"] else float(ys[k])
            dbk[nm] = ir.Series(start=start, values=tuple(base_ * (1.0 + 0.01 * ((t + k) % 3)) if spec["log"] else base_ + 0.1 * ((t + k) % 3 - 1) for t in range(wN)))
        dbk["ant_" + shn_all[wi % spec["n"]]] = ir.Series(start=start, values=tuple(wval if t == min(wtau, wN - 1) else 0.0 for t in range(wN)))
        try:
            m.kalman_filter(dbk, start >> (start + wN - 1), shocks_from_data=True)
        except Exception:  # noqa: BLE001 - the filter is judged by C03/C08 (singular cases raise); only its side effects matter here
            pass

    db = make_db(dev)
    span = start >> (start + T - 1)
    # force_split_frames=True (non-default): one frame per surprise instead of a single frame; same statement
    fsf = {"force_split_frames": True} if case.get("split_frames") else {}
    P = api("simulate", m.simulate, db, span, method="first_order", deviation=dev, **fsf)
    pP = sd.Paths(P, spec, start, -Lmax, T - 1)
    scale = 1.0 + _maxabs(pP, spec)
    tol = 1e-8 * scale
    for nm in spec["names"]:
        a = pP.arr(nm)
        if not col.check(bool(np.all(np.isfinite(a))), "simulate:non_finite", lambda: f"{nm} has non-finite values"):
            col.done()

    # ---- 2. equations hold with leads from the model-consistent continuation
    taus = sorted({x[1] for x in ush})
    bounds = sorted(set([0] + taus))
    last_C = pP
    for bi, tau in enumerate(bounds):
        nxt = bounds[bi + 1] if bi + 1 < len(bounds) else T
        if bounds == [0]:
            pC = pP
        else:
            dbt = db.copy()
            if tau > 0:
                _replace_history(dbt, P, spec, start, tau, Lmax)
            shn = lm.shock_names(spec)
            for i, t_, _v in ush:
                if t_ != tau:
                    dbt[shn[i]][start + t_] = 0.0
            C = api("simulate_continuation", m.simulate, dbt, (start + tau) >> (start + T - 1), method="first_order", deviation=dev)
            pC = sd.Paths(C, spec, start, -Lmax, T - 1)
            for nm in spec["names"]:
                a, b = pP.arr(nm)[tau + Lmax: nxt + Lmax], pC.arr(nm)[tau + Lmax: nxt + Lmax]
                d = float(np.max(np.abs((np.log(a) - np.log(b)) if spec["log"] else (a - b)))) if a.size else 0.0
                col.check(d <= 10 * tol, "continuation:path_differs",
                          lambda: f"{nm}: path and continuation from t={tau} differ by {d:.3e} on [{tau},{nxt - 1}]\n{lm.source(spec)}")
        get = sd.getter(pC, spec, unanticipated_only_at=tau)
        worst, where = 0.0, None
        for t in range(tau, T - Fmax):
            r = lm.residuals(spec, get, t, deviation=dev)
            for i, ri in enumerate(r):
                if not (abs(ri) <= worst):
                    worst, where = abs(ri), (i, t)
        col.check(worst <= tol, "equations:residual",
                  lambda: f"equation {where[0]} at t={where[1]} (continuation from {tau}) residual {worst:.3e} > {tol:.1e}; "
                          f"deviation={dev}\n{lm.source(spec)}")
        last_C = pC

    # ---- 6. measurement equations on the path -------------------------------
    if spec["meas"]:
        get = sd.getter(pP, spec)
        worst, where = 0.0, None
        for t in range(0, T):
            r = lm.residuals(spec, get, t, deviation=dev, which="measurement")
            for i, ri in enumerate(r):
                if not (abs(ri) <= worst):
                    worst, where = abs(ri), (i, t)
        col.check(worst <= tol, "measurement:residual",
                  lambda: f"measurement equation {where[0]} at t={where[1]} residual {worst:.3e}\n{lm.source(spec)}")

    # ---- 4. non-explosive ---------------------------------------------------
    dbl = sd.steady_db(m, spec, start, -Lmax, T + LONG + Fmax, dev)
    _replace_history(dbl, P, spec, start, T, Lmax)
    Lg = api("simulate_long", m.simulate, dbl, (start + T) >> (start + T + LONG - 1), method="first_order", deviation=dev)
    for j, nm in enumerate(spec["names"]):
        end = float(Lg[nm].get_data(start + T + LONG - 1)[0, 0])
        v = (math.log(end) if spec["log"] and end > 0 else end)
        target = 0.0 if dev else float(xs[j])
        if dev and spec["log"]:
            target = 0.0
        col.check(math.isfinite(v) and abs(v - target) <= 1e-6 * scale, "explosive:tail_not_at_steady",
                  lambda: f"{nm}: {LONG} zero-shock periods ahead value {v!r}, steady {target!r}\n{lm.source(spec)}")

    # ---- 5. levels = steady (+|*) deviations --------------------------------
    db2 = make_db(not dev)
    P2 = api("simulate_other_mode", m.simulate, db2, span, method="first_order", deviation=not dev, **fsf)
    p2 = sd.Paths(P2, spec, start, -Lmax, T - 1)
    lev, dv = (p2, pP) if dev else (pP, p2)
    allnames = [(nm, xs[j]) for j, nm in enumerate(spec["names"])] + [(nm, ys[k]) for k, nm in enumerate(lm.meas_names(spec))]
    for nm, ss in allnames:
        a, d = lev.arr(nm)[Lmax:], dv.arr(nm)[Lmax:]
        if spec["log"]:
            diff = np.abs(np.log(a) - (ss + np.log(d)))
        else:
            diff = np.abs(a - (ss + d))
        worst = float(np.max(diff)) if diff.size else 0.0
        col.check(worst <= 1e-8 * scale, "levels_vs_deviation",
                  lambda: f"{nm}: level path differs from steady combined with deviation path by {worst:.3e}\n{lm.source(spec)}")

    # ---- 7. the same call repeated at the end of the history gives the same path ---------
    P_again = api("simulate_again", m.simulate, make_db(dev), span, method="first_order", deviation=dev, **fsf)
    pA = sd.Paths(P_again, spec, start, -Lmax, T - 1)
    for nm in spec["names"] + lm.meas_names(spec):
        col.check(bool(np.array_equal(pA.arr(nm), pP.arr(nm), equal_nan=True)), "history:repeated_call_differs",
                  lambda: f"{nm}: the same simulation repeated on the same model object differs by {float(np.nanmax(np.abs(pA.arr(nm) - pP.arr(nm)))):.3e}")

    labels = []
    # ---- 8. a model without any lag needs no initial condition: an input databox that holds the shocks only ----
    if lm.max_lag_lead(spec)[0] == 0:
        dbb = ir.Databox()
        zeros_ = tuple(0.0 for _ in range(T + Fmax + 1))
        for s_ in [x for x in lm.shock_names(spec) if x]:
            dbb[s_] = ir.Series(start=start, values=zeros_)
            dbb["ant_" + s_] = ir.Series(start=start, values=zeros_)
        for w_ in [x for x in lm.mshock_names(spec) if x]:
            dbb[w_] = ir.Series(start=start, values=zeros_)
        sd.apply_shocks(dbb, spec, start, ush, ash, case["mshocks"])
        Pb = api("simulate_shocks_only_input", m.simulate, dbb, span, method="first_order", deviation=dev, **fsf)
        pB = sd.Paths(Pb, spec, start, 0, T - 1)
        for nm in spec["names"] + lm.meas_names(spec):
            a_, b_ = pB.arr(nm), pP.arr(nm)[Lmax:]
            d_ = float(np.max(np.abs(a_ - b_))) if np.all(np.isfinite(a_)) else float("inf")
            col.check(d_ <= 1e-9 * scale, "no_lag_model:shocks_only_input_differs",
                      lambda: f"{nm}: a model without lags simulated from an input databox that holds the shocks only differs by {d_:.3e} "
                              f"from the simulation whose input also holds (irrelevant) variable values\n{lm.source(spec)}")
        labels.append("no_lag_model_bare_input")
    # ---- 3. time consistency -------------------------------------------------
    s = case["split"]
    if 1 <= s <= N - 1 and all(a_[1] < s for a_ in ash):
        leg1 = api("simulate_leg1", m.simulate, db, start >> (start + s - 1), method="first_order", deviation=dev)
        db2 = db.copy()
        _replace_history(db2, leg1, spec, start, s, Lmax)
        leg2 = api("simulate_leg2", m.simulate, db2, (start + s) >> (start + T - 1), method="first_order", deviation=dev)
        p1 = sd.Paths(leg1, spec, start, -Lmax, s - 1)
        pl2 = sd.Paths(leg2, spec, start, s, T - 1)
        for nm in spec["names"] + lm.meas_names(spec):
            whole = pP.arr(nm)[Lmax:]
            parts = np.concatenate([p1.arr(nm)[Lmax:], pl2.arr(nm)])
            d = float(np.max(np.abs(whole - parts)))
            col.check(d <= 1e-9 * (1 + float(np.max(np.abs(whole)))), "time_consistency",
                      lambda: f"{nm}: simulate(0..{T - 1}) differs from simulate(0..{s - 1}) + simulate({s}..) by {d:.3e}\n{lm.source(spec)}")
        labels.append("split_checked")
    col.done()
    return {"labels": labels + ["class_determinate"], "nontrivial": True}


# ---------------------------------------------------------------------------
# Balanced-growth models: linearisation around a non-flat steady state
# ---------------------------------------------------------------------------

@st.composite
def _growth_case(draw):
    spec = draw(lm.growth_spec_strategy(max_n=3, meas=(0, 1), log=draw(st.booleans())))
    n = spec["n"]
    N = draw(st.integers(2, 10))
    val = st.sampled_from([0.5, -0.5, 0.2, 1.0, -0.1])
    return {"spec": spec, "N": N, "linear_flag": draw(st.booleans()),
            "ushock": [draw(st.integers(0, n - 1)), draw(val)],
            "ashocks": [list(x) for x in draw(st.lists(st.tuples(st.integers(0, n - 1), st.integers(0, N - 1), val), max_size=2))]}


def _classify_growth(case):
    spec = case["spec"]
    return True, ["log_rendering" if spec["log"] else "additive_rendering", "linear_flag" if case["linear_flag"] and not spec["log"] else "nonlinear_flag"]


def _check_growth(case):
    ir = _ir()
    col = Collector()
    spec = case["spec"]
    if not lm.unit_root_domain(spec, 1):
        return {"labels": ["model_not_in_domain"], "nontrivial": False}
    linear = case["linear_flag"] and not spec["log"]
    m = api("from_string", ir.Simultaneous.from_string, lm.source(spec), linear=linear, flat=False)
    if not linear:
        # starting guess: level 1 (0 for additive), and the drift of the random walk as the growth of every variable
        drift = spec["eqs"][spec["rw"]]["const"]
        g0 = (1.0, math.exp(drift)) if spec["log"] else (0.0, drift)
        m.assign(**{nm: g0 for nm in spec["names"] + lm.meas_names(spec)})
    try:
        m.solve_steady()
        m.solve()
    except Exception:  # noqa: BLE001 - the steady state of growth models is judged by C05
        return {"labels": ["steady_or_solve_failed"], "nontrivial": False}
    lv = m.get_steady_levels()
    if spec["log"] and any(not (1e-6 < float(lv[nm]) < 1e6) for nm in spec["names"]):
        return {"labels": ["degenerate_steady"], "nontrivial": False}
    ch = m.get_steady_changes()
    for nm in spec["names"]:
        g = float(ch[nm]) if ch[nm] is not None else (1.0 if spec["log"] else 0.0)
        g = abs(math.log(g)) if (spec["log"] and g > 0) else abs(g)
        if not (g <= 0.2):
            # a variable shrinking or growing by more than ~20% per period runs out of floating-point range within the
            # simulated span; the steady path itself is then only known to the solver's absolute tolerance
            return {"labels": ["extreme_growth_rate"], "nontrivial": False}
    start = ir.qq(2020, 1)
    N = case["N"]
    T = N + TAIL
    Lmax, Fmax = lm.max_lag_lead(spec)
    Lmax = max(Lmax, 1)
    names = spec["names"]
    span = start >> (start + T - 1)
    base = ir.Databox.steady(m, (start - Lmax) >> (start + T + Fmax), deviation=False)
    pS = sd.Paths(base, spec, start, -Lmax, T - 1)

    def tr(a):
        return np.log(a) if spec["log"] else a

    scale = 1.0 + max(float(np.max(np.abs(tr(pS.arr(nm))))) for nm in names)
    # the steady path itself must satisfy the equations (in logs for log-variables) well below the tolerances used here:
    # the steady solver stops at an absolute residual of the level equations, which for levels of 1e-6 leaves a
    # relative error of 1e-7 that a near-unit root multiplies further; the accuracy of solve_steady is C05's subject
    getS = sd.getter(pS, spec)
    worstS = max((abs(ri) for t in range(0, T - Fmax) for ri in lm.residuals(spec, getS, t)), default=0.0)
    if not (worstS <= 1e-9 * scale):
        return {"labels": ["steady_path_inexact"], "nontrivial": False}
    # (1) without shocks the level simulation stays on the steady (growth) path
    P0 = api("simulate_no_shocks", m.simulate, base.copy(), span, method="first_order")
    p0 = sd.Paths(P0, spec, start, -Lmax, T - 1)
    for nm in names + lm.meas_names(spec):
        d = float(np.max(np.abs(tr(p0.arr(nm)) - tr(pS.arr(nm)))))
        col.check(d <= 1e-6 * scale, "growth:leaves_steady_path", lambda: f"{nm}: zero-shock level simulation leaves the steady path by {d:.3e}\n{lm.source(spec)}")
    # (2) with shocks every equation holds on the perfect-foresight path
    shn = lm.shock_names(spec)
    db = base.copy()
    ui, uv = case["ushock"]
    if shn[ui]:
        db[shn[ui]][start] = uv
    for i, tau, v in case["ashocks"]:
        if shn[i]:
            db["ant_" + shn[i]][start + tau] = v
    P = api("simulate", m.simulate, db, span, method="first_order")
    pP = sd.Paths(P, spec, start, -Lmax, T - 1)
    get = sd.getter(pP, spec, unanticipated_only_at=0)
    worst, where = 0.0, None
    for t in range(0, T - Fmax):
        for i, ri in enumerate(lm.residuals(spec, get, t)):
            if not (abs(ri) <= worst):
                worst, where = abs(ri), (i, t)
    col.check(worst <= 1e-6 * scale, "growth:equations_residual",
              lambda: f"equation {where[0]} at t={where[1]}: residual {worst:.3e} on a level simulation around the growth path\n{lm.source(spec)}")
    # (3) levels = steady path combined with the deviation simulation of the same shocks
    dbd = ir.Databox.steady(m, (start - Lmax) >> (start + T + Fmax), deviation=True)
    if shn[ui]:
        dbd[shn[ui]][start] = uv
    for i, tau, v in case["ashocks"]:
        if shn[i]:
            dbd["ant_" + shn[i]][start + tau] = v
    D = api("simulate_deviation", m.simulate, dbd, span, method="first_order", deviation=True)
    pD = sd.Paths(D, spec, start, -Lmax, T - 1)
    for nm in names + lm.meas_names(spec):
        a, s_, d_ = pP.arr(nm)[Lmax:], pS.arr(nm)[Lmax:], pD.arr(nm)[Lmax:]
        diff = np.abs(np.log(a) - (np.log(s_) + np.log(d_))) if spec["log"] else np.abs(a - (s_ + d_))
        w = float(np.max(diff))
        col.check(w <= 1e-6 * scale, "growth:levels_vs_deviation", lambda: f"{nm}: level path differs from steady path combined with deviations by {w:.3e}\n{lm.source(spec)}")
    col.done()
    return {"labels": ["judged"], "nontrivial": True}


# ---------------------------------------------------------------------------
# Parameter variants: one simulation of a two-variant model, each variant judged by its own equations
# ---------------------------------------------------------------------------

@st.composite
def _variants_case(draw):
    spec = draw(lm.spec_strategy(max_n=3, allow_params=True))
    if not spec["params"]:
        # turn one transition coefficient into a parameter (plain-data edit of the drawn spec)
        slots = [(i, ti) for i, e in enumerate(spec["eqs"]) for ti, t in enumerate(e["terms"]) if len(t) == 3]
        if slots:
            i, ti = slots[draw(st.integers(0, len(slots) - 1))]
            spec["eqs"][i]["terms"][ti].append(0)
            spec["params"].append({"name": "p0", "value": spec["eqs"][i]["terms"][ti][2]})
    n = spec["n"]
    N = draw(st.integers(1, 8))
    val = st.sampled_from([1.0, -1.0, 0.5, -0.3, 0.2])
    return {"spec": spec, "N": N, "deviation": draw(st.booleans()),
            "pmul": draw(st.sampled_from([0.5, 0.8, 1.2, 0.9])),
            "const_shift": draw(st.sampled_from([0.0, 0.3, -0.2])),
            "ushocks": [list(x) for x in draw(st.lists(st.tuples(st.integers(0, n - 1), st.just(0), val), min_size=1, max_size=2))],
            "ashocks": [list(x) for x in draw(st.lists(st.tuples(st.integers(0, n - 1), st.integers(0, N - 1), val), max_size=2))]}


def _variant_specs(case):
    """(two-variant spec, [single-variant specs]); parameters scaled by pmul in the second variant."""
    import copy
    spec2 = copy.deepcopy(case["spec"])
    for p in spec2["params"]:
        p["value"] = [p["value"], round(p["value"] * case["pmul"], 6)]
    singles = []
    for v in range(2):
        sv = copy.deepcopy(case["spec"])
        for p, p2 in zip(sv["params"], spec2["params"]):
            p["value"] = p2["value"][v]
        singles.append(sv)
    return spec2, singles


def _classify_variants(case):
    spec = case["spec"]
    labels = ["log_rendering" if spec["log"] else "additive_rendering", "deviation" if case["deviation"] else "levels"]
    if spec["params"]:
        labels.append("parameters_differ_across_variants")
    return bool(spec["params"]), labels


def _check_variants(case):
    ir = _ir()
    col = Collector()
    if not case["spec"]["params"]:
        return {"labels": ["no_parameter"], "nontrivial": False}
    spec2, singles = _variant_specs(case)
    for sv in singles:
        if lm.classify(sv)[0] != "determinate" or lm.steady(sv)[0] is None:
            return {"labels": ["model_not_in_domain"], "nontrivial": False}
    m = api("build_and_solve_two_variants", lm.build_model, spec2, variant_count=2)
    start = ir.qq(2020, 1)
    spec = case["spec"]
    Lmax, Fmax = lm.max_lag_lead(spec)
    Lmax = max(Lmax, 1)
    N, dev = case["N"], case["deviation"]
    T = N + TAIL
    span = start >> (start + T - 1)
    ush, ash = sd.effective_shocks(spec, case["ushocks"], case["ashocks"])
    res = {}
    for d_ in (dev, not dev):
        db = sd.steady_db(m, spec, start, -Lmax, T + Fmax, d_)
        sd.apply_shocks(db, spec, start, ush, ash)
        res[d_] = api("simulate", m.simulate, db, span, method="first_order", deviation=d_)
    differ = False
    for v, sv in enumerate(singles):
        xs, ys = lm.steady(sv)
        p = sd.Paths(res[dev], sv, start, -Lmax, T - 1, variant=v)
        scale = 1.0 + _maxabs(p, sv)
        tol = 1e-8 * scale
        get = sd.getter(p, sv, unanticipated_only_at=0)
        worst, where = 0.0, None
        for t in range(0, T - Fmax):
            for i, ri in enumerate(lm.residuals(sv, get, t, deviation=dev)):
                if not (abs(ri) <= worst):
                    worst, where = abs(ri), (i, t)
        col.check(worst <= tol, "variants:equations_residual",
                  lambda: f"variant {v}: equation {where[0]} at t={where[1]} residual {worst:.3e} > {tol:.1e} (deviation={dev})\n{lm.source(sv)}")
        if sv["meas"]:
            getm = sd.getter(p, sv)
            wm = max((abs(ri) for t in range(0, T) for ri in lm.residuals(sv, getm, t, deviation=dev, which="measurement")), default=0.0)
            col.check(wm <= tol, "variants:measurement_residual", lambda: f"variant {v}: measurement residual {wm:.3e}\n{lm.source(sv)}")
        po = sd.Paths(res[not dev], sv, start, -Lmax, T - 1, variant=v)
        lev, dv = (po, p) if dev else (p, po)
        for nm, ss in [(nm, xs[j]) for j, nm in enumerate(sv["names"])] + [(nm, ys[k]) for k, nm in enumerate(lm.meas_names(sv))]:
            a, d = lev.arr(nm)[Lmax:], dv.arr(nm)[Lmax:]
            diff = np.abs(np.log(a) - (ss + np.log(d))) if sv["log"] else np.abs(a - (ss + d))
            w = float(np.max(diff)) if diff.size else 0.0
            col.check(w <= 1e-8 * scale, "variants:levels_vs_deviation",
                      lambda: f"variant {v}, {nm}: level path differs from that variant's steady state combined with its deviation path by {w:.3e}\n{lm.source(sv)}")
        if v == 1:
            x0, _ = lm.steady(singles[0])
            differ = bool(np.max(np.abs(np.asarray(xs) - np.asarray(x0))) > 1e-6)
    col.done()
    return {"labels": ["steady_states_differ"] if differ else ["steady_states_equal"], "nontrivial": True}


SUBCHECKS = [
    HypSub("first_order", _case, _check, _classify, budget={"quick": 1200, "thorough": 24000}),
    HypSub("growth", _growth_case, _check_growth, _classify_growth, budget={"quick": 400, "thorough": 8000}),
    HypSub("variants", _variants_case, _check_variants, _classify_variants, budget={"quick": 300, "thorough": 8000}),
]
