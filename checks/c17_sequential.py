"""
C17 - Sequential-model simulation makes every equation hold, also when exogenized.

The generator owns the program: a model is drawn as a structure (equations in
a valid order, left-hand transform or identity, right-hand expression TREE),
rendered to source text for irispie, and judged by the harness's own
evaluator of the tree on the OUTPUT databox:

    transform(lhs)[t] - rhs[t] - residual[t] == 0

for every simulated period and equation, where every cell is read from the
output databox if the execution order in use had computed it before the step
(or never simulates it), and from the INPUT databox if the order computes that
left-hand cell only later (the value the step actually saw).  The harness
derives this cell by cell from its own model of the two documented orders:
steps that saw only final values are the property proper (buckets equation:*),
steps that saw a cell overwritten later are judged "under their own
information" (buckets own_information:*).  A harness simulation of the same
information model is used only to keep cases inside the guarded numeric domain
and to scale the comparison of the two orders.

Tolerances: every harness evaluation carries a first-order running rounding
error bound e (unit roundoff u); a discrepancy is accepted iff
|d| <= 1e-10 * (e/u + sum of the magnitudes of the terms).
"""

import math
import warnings

from hypothesis import strategies as st

from vlib.runner import HypSub, Collector, api

PROPERTY = "C17"

RULE = (
    "a Sequential model is drawn as a structure: 1..6 equations in a valid order (sub-check shuffled: plus a drawn "
    "permutation in which the source is written), per equation a left-hand transform none/log/diff/diff_log/roc/pct, "
    "'=' or identity '===', and a right-hand expression tree over own lags, current/lagged (rarely lead) values of "
    "earlier left-hand variables, lags of later ones, rhs-only variables (identities sometimes with a decoy res_<name> "
    "input series), parameters, two-decimal constants, + - * / "
    "neg log exp sqrt abs maximum minimum and diff/diff_log/roc/pct pseudofunctions of a reference (positive-typed "
    "subtrees under log/sqrt/denominators); rendered to source text and judged by the harness evaluator of the tree. "
    "Inputs: 1-2 variants, span 1..8 periods on yy/qq/mm/ii calendars, initial conditions for every lag, non-zero "
    "residual paths (full, with holes, or absent), rhs-only paths, parameter values per variant; plans of 0..3 "
    "exogenize() calls (names list or ..., dates tuple, Span or ..., transform None/log/diff/diff_log/roc/pct with its "
    "<transform>_<name> series, when_data with partially available data, later calls overriding earlier ones); both "
    "execution orders are run on every case; optional target_db. Non-trivial iff (some left-hand transform other than "
    "none and some lagged right-hand reference) or the plan has at least one exogenized point; cases whose harness "
    "simulation leaves the guarded numeric domain are counted as domain_skip and are not non-trivial"
)

ASSUMPTIONS = [
    "one equation per left-hand variable; no zero-shift reference to the own left-hand variable on the right-hand side",
    "a residual that is missing from the input databox (whole series or single cells) is read as 0 (irispie's documented default residual value in slatable_for_simulate); what the output holds in such a cell is only judged through the equation",
    "exogenize() is called with the documented keywords only (transform=, when_data=); the undocumented 'flat' transform and the name_format=/shift= keywords are not generated; "
    "the alias spellings 'difflog', 'none' and 'level' that the transform lookup table holds next to 'diff_log' and None are taken to mean the same request",
    "an exogenized point without when_data always has a data value; when_data points have a value or a missing cell (or no series at all)",
    "simulate() options other than plan=, execution_order= and target_db= stay at their defaults (prepend_input, remove_initial, remove_terminal, shocks_from_data=True, parameters_from_data=False); the input databox may carry items named like parameters with other values, which the default parameters_from_data=False ignores",
    "cells after the end of the simulation span are not judged in the output (remove_terminal)",
    "an equation/period step that reads a left-hand cell which the chosen order computes only later is not required to hold on the output values alone; it must hold with that cell read from the input databox, which is what the documented order ('all equations for the first period, ...' / 'all periods for the first equation, ...') makes the step see (buckets own_information:*)",
    "a step whose inputs (as seen by the step) are non-finite or outside the domain of its right-hand side is not judged; the step that produced those inputs is",
    "the two execution orders are required to agree only when neither saw a cell that is computed later",
    "numeric domain guarded by the harness simulation: |values| <= 1e6, arguments of log/sqrt and denominators >= 1e-3; cases outside are skipped, not judged",
    "leads of left-hand variables are drawn only from earlier equations (fresh under equations_dates, stale under dates_equations)",
]

U = 2.0 ** -53
RTOL = 1e-10
BIG = 1e6
SMALL = 1e-3

TRANSFORMS = ("none", "log", "diff", "diff_log", "roc", "pct")
LAG_TRANSFORMS = ("diff", "diff_log", "roc", "pct")
POS_TRANSFORMS = ("log", "diff_log", "roc", "pct")
ORDERS = ("dates_equations", "equations_dates")
NAN = float("nan")
_WORST = [0.0]


def _ir():
    import irispie as ir
    return ir


# ---------------------------------------------------------------------------
# Expression trees: renderer and (value, error bound) evaluator
# ---------------------------------------------------------------------------
#   ["c", k]                constant k/100
#   ["p", name]             parameter
#   ["v", name, shift]      variable reference
#   ["chg", fn, name, s]    fn(name[s]) with fn in diff/diff_log/roc/pct (irispie pseudofunction)
#   [op, a, b]              op in + - * / max min
#   [fn, a]                 fn in neg log exp sqrt abs

class _Skip(Exception):
    """The harness simulation left the guarded numeric domain."""

    def __init__(self, reason):
        super().__init__(reason)
        self.reason = reason


def _ref_text(name, shift):
    if shift == 0:
        return name
    return f"{name}[{shift:+d}]"


def _render(node):
    tag = node[0]
    if tag == "c":
        k = node[1]
        return f"{k / 100:.2f}" if k >= 0 else f"(-{-k / 100:.2f})"
    if tag == "p":
        return node[1]
    if tag == "v":
        return _ref_text(node[1], node[2])
    if tag == "chg":
        return f"{node[1]}({_ref_text(node[2], node[3])})"
    if tag in ("+", "-", "*", "/"):
        return f"({_render(node[1])}{tag}{_render(node[2])})"
    if tag == "max":
        return f"maximum({_render(node[1])},{_render(node[2])})"
    if tag == "min":
        return f"minimum({_render(node[1])},{_render(node[2])})"
    if tag == "neg":
        return f"(-{_render(node[1])})"
    if tag in ("log", "exp", "sqrt", "abs"):
        return f"{tag}({_render(node[1])})"
    raise ValueError(f"unknown node {node!r}")


def _lhs_text(eq):
    return eq["lhs"] if eq["tr"] == "none" else f"{eq['tr']}({eq['lhs']})"


def _equation_text(eq):
    return f"{_lhs_text(eq)} {'===' if eq['ident'] else '='} {_render(eq['rhs'])}"


def _source(case, order):
    lines = []
    if case["params"]:
        lines += ["!parameters", "    " + ", ".join(sorted(case["params"]))]
    lines.append("!equations")
    for i in order:
        lines.append("    " + _equation_text(case["eqs"][i]) + ";")
    return "\n".join(lines) + "\n"


def _walk(node):
    yield node
    if node[0] in ("c", "p", "v", "chg"):
        return
    for child in node[1:]:
        yield from _walk(child)


def _references(node):
    """(name, shift) cells read by a tree, relative to the current period."""
    out = []
    for nd in _walk(node):
        if nd[0] == "v":
            out.append((nd[1], nd[2]))
        elif nd[0] == "chg":
            out.append((nd[2], nd[3]))
            out.append((nd[2], nd[3] - 1))
    return out


def _expand_chg(fn, a, b):
    if fn == "diff":
        return ["-", a, b]
    if fn == "diff_log":
        return ["-", ["log", a], ["log", b]]
    if fn == "roc":
        return ["/", a, b]
    if fn == "pct":
        return ["-", ["/", ["*", ["c", 10000], a], b], ["c", 10000]]
    raise ValueError(fn)


def _transform_tree(tr, name):
    cur, lag = ["v", name, 0], ["v", name, -1]
    if tr == "none":
        return cur
    if tr == "log":
        return ["log", cur]
    return _expand_chg(tr, cur, lag)


# pair arithmetic: (value, first-order rounding error bound) -----------------

def _bad(strict, reason):
    if strict:
        raise _Skip(reason)
    return (NAN, 0.0)


def _fin(v, e, strict):
    if v != v or e != e:
        return _bad(strict, "nan")
    if abs(v) > BIG or e > BIG:
        if strict:
            raise _Skip("magnitude")
        if math.isinf(v) or math.isinf(e):
            return (NAN, 0.0)
    return (v, e)


def _add(a, b, strict, sign=1.0):
    v = a[0] + sign * b[0]
    return _fin(v, a[1] + b[1] + U * abs(v), strict)


def _mul(a, b, strict):
    v = a[0] * b[0]
    return _fin(v, abs(a[0]) * b[1] + abs(b[0]) * a[1] + U * abs(v), strict)


def _div(a, b, strict):
    if b[0] != b[0] or a[0] != a[0]:
        return _bad(strict, "nan")
    if abs(b[0]) < (SMALL if strict else 1e-300):
        return _bad(strict, "small_denominator")
    v = a[0] / b[0]
    return _fin(v, a[1] / abs(b[0]) + abs(a[0]) * b[1] / (b[0] * b[0]) + U * abs(v), strict)


def _log(a, strict):
    if a[0] != a[0]:
        return _bad(strict, "nan")
    if a[0] < (SMALL if strict else 1e-300):
        return _bad(strict, "log_of_nonpositive")
    v = math.log(a[0])
    return _fin(v, a[1] / a[0] + 2 * U * max(abs(v), U), strict)


def _exp(a, strict):
    if a[0] != a[0]:
        return _bad(strict, "nan")
    if a[0] > 50:
        return _bad(strict, "magnitude")
    v = math.exp(a[0])
    return _fin(v, v * a[1] + 2 * U * v, strict)


def _sqrt(a, strict):
    if a[0] != a[0]:
        return _bad(strict, "nan")
    if a[0] < (SMALL if strict else 0.0):
        return _bad(strict, "sqrt_of_nonpositive")
    v = math.sqrt(a[0])
    return _fin(v, (a[1] / (2 * v) if v > 0 else a[1]) + U * v, strict)


def _ev(node, get, par, strict):
    tag = node[0]
    if tag == "c":
        return (node[1] / 100.0, 0.0)
    if tag == "p":
        return (par[node[1]], 0.0)
    if tag == "v":
        v = get(node[1], node[2])
        if v[0] != v[0]:
            return _bad(strict, "nan_read")
        return v
    if tag == "chg":
        return _ev(_expand_chg(node[1], ["v", node[2], node[3]], ["v", node[2], node[3] - 1]), get, par, strict)
    if tag in ("+", "-", "*", "/", "max", "min"):
        a = _ev(node[1], get, par, strict)
        b = _ev(node[2], get, par, strict)
        if tag == "+":
            return _add(a, b, strict)
        if tag == "-":
            return _add(a, b, strict, -1.0)
        if tag == "*":
            return _mul(a, b, strict)
        if tag == "/":
            return _div(a, b, strict)
        if a[0] != a[0] or b[0] != b[0]:
            return _bad(strict, "nan")
        v = max(a[0], b[0]) if tag == "max" else min(a[0], b[0])
        return (v, max(a[1], b[1]))
    a = _ev(node[1], get, par, strict)
    if tag == "neg":
        return (-a[0], a[1])
    if tag == "abs":
        return (abs(a[0]), a[1])
    if tag == "log":
        return _log(a, strict)
    if tag == "exp":
        return _exp(a, strict)
    if tag == "sqrt":
        return _sqrt(a, strict)
    raise ValueError(f"unknown node {node!r}")


def _level(tr, r, xlag, strict):
    """Left-hand level implied by transform(lhs) = r, given the own lag."""
    if tr == "none":
        return r
    if tr == "log":
        return _exp(r, strict)
    if tr == "diff":
        return _add(xlag, r, strict)
    if tr == "diff_log":
        return _mul(xlag, _exp(r, strict), strict)
    if tr == "roc":
        return _mul(xlag, r, strict)
    if tr == "pct":
        return _mul(xlag, _add((1.0, 0.0), _div(r, (100.0, 0.0), strict), strict), strict)
    raise ValueError(tr)


def _inversion_scale(tr, x, xlag):
    """Magnitude by which a one-ulp change of the stored level moves transform(lhs)."""
    if tr in ("none", "diff"):
        return abs(x)
    if tr in ("log", "diff_log"):
        return 1.0
    ratio = abs(x / xlag) if xlag else 0.0
    return ratio if tr == "roc" else 100.0 * ratio


# ---------------------------------------------------------------------------
# The case as the harness reads it
# ---------------------------------------------------------------------------

def _residual_name(eq):
    return None if eq["ident"] else f"res_{eq['lhs']}"


def _exo_name(name, tr):
    return name if tr is None else f"{tr}_{name}"


def _plan_map(case):
    """(lhs name, k) -> (transform, when_data); later exogenize() calls override earlier ones."""
    exogenizable = [e["lhs"] for e in case["eqs"] if not e["ident"]]
    out = {}
    for entry in case["plan"]:
        names = exogenizable if entry["names"] == "all" else entry["names"]
        periods = range(case["T"]) if entry["periods"] == "all" else entry["periods"]
        for nm in names:
            for k in periods:
                out[(nm, k)] = (entry["transform"], bool(entry["when_data"]))
    return out


def _cell(case, name, v, g):
    """Input data cell (variant v, grid index g) as float; NaN where missing or no such series."""
    cols = case["data"].get(name)
    if cols is None or g < 0 or g >= len(cols[0]):
        return NAN
    x = cols[min(v, len(cols) - 1)][g]
    return NAN if x is None else float(x)


def _steps(n, T, exec_order):
    if exec_order == "dates_equations":
        return [(pos, k) for k in range(T) for pos in range(n)]
    return [(pos, k) for pos in range(n) for k in range(T)]


def _implied(tr, value, xlag, strict):
    """Level implied by an exogenized (transformed) data value."""
    val = (value, 0.0)
    if tr is None:
        return val
    if tr == "log":
        return _exp(val, strict)
    return _level(tr, val, xlag, strict)


def _simulate_reference(case, v, order, exec_order):
    """The harness's information model of Sequential.simulate for variant v.

    order: equation indexes in the order the model holds them.
    Returns W: name -> list of (value, error bound) over the grid.  Raises _Skip
    when the simulation leaves the guarded numeric domain.
    """
    P, T = case["P"], case["T"]
    G = P + T + case["F"]
    eqs = [case["eqs"][i] for i in order]
    par = {nm: float(vals[min(v, len(vals) - 1)]) for nm, vals in case["params"].items()}
    names = set()
    for eq in eqs:
        names.add(eq["lhs"])
        names.update(nm for nm, _ in _references(eq["rhs"]))
    W = {nm: [(_cell(case, nm, v, g), 0.0) for g in range(G)] for nm in sorted(names)}
    for eq in eqs:
        rn = _residual_name(eq)
        if rn is not None:
            W[rn] = [((0.0 if math.isnan(c) else c), 0.0) for c in (_cell(case, rn, v, g) for g in range(G))]
    plan = _plan_map(case)
    for pos, k in _steps(len(eqs), T, exec_order):
        eq = eqs[pos]
        x, tr, rn = eq["lhs"], eq["tr"], _residual_name(eq)
        g = k + P

        def get(name, s, _k=k):
            gg = _k + s + P
            if gg < 0 or gg >= G:
                raise _Skip("outside_grid")
            return W[name][gg]      # whatever the working data hold at this step (input if not computed yet)

        xlag = W[x][g - 1] if g >= 1 else (NAN, 0.0)
        point = None if eq["ident"] else plan.get((x, k))
        implied = None
        if point is not None:
            ptr, when_data = point
            value = W[x][g][0] if ptr is None else _cell(case, _exo_name(x, ptr), v, g)
            if math.isnan(value):
                if not when_data:
                    raise _Skip("exogenized_without_data")
            else:
                implied = _implied(ptr, value, xlag, True)
        if implied is not None:
            W[x][g] = implied
            t_val = _ev(_transform_tree(tr, x), get, par, True)
            rhs = _ev(eq["rhs"], get, par, True)
            W[rn][g] = _add(t_val, rhs, True, -1.0)
        else:
            r = _ev(eq["rhs"], get, par, True)
            if rn is not None:
                r = _add(r, W[rn][g], True)
            if tr in LAG_TRANSFORMS and math.isnan(xlag[0]):
                raise _Skip("nan_read")
            W[x][g] = _level(tr, r, xlag, True)
            # the transform must be evaluable on the result (positive level for logs, non-zero lag for ratios)
            _ev(_transform_tree(tr, x), get, par, True)
    return W


# ---------------------------------------------------------------------------
# Running irispie
# ---------------------------------------------------------------------------

def _period(ir, freq, o):
    if freq == "yy":
        return ir.yy(2000) + o
    if freq == "qq":
        return ir.qq(2000, 1) + o
    if freq == "mm":
        return ir.mm(2000, 1) + o
    return ir.ii(0) + o


def _build_model(ir, case, order):
    src = _source(case, order)
    m = api("from_string", ir.Sequential.from_string, src)
    nv = case["nv"]
    if nv > 1:
        api("alter_num_variants", m.alter_num_variants, nv)
    if case["params"]:
        for v, mv in enumerate(m.iter_own_variants()):
            api("assign", mv.assign, **{nm: float(vals[min(v, len(vals) - 1)]) for nm, vals in case["params"].items()})
    return m


def _build_databox(ir, case, first):
    import numpy as np
    db = ir.Databox()
    for name in sorted(case["data"]):
        cols = case["data"][name]
        arr = np.array([[NAN if x is None else float(x) for x in col] for col in cols], dtype=float).T
        if np.isnan(arr).all():
            continue        # an all-missing series is "no series"
        db[name] = ir.Series(start=first, values=arr)
    for name, value in sorted((case.get("param_items") or {}).items()):
        db[name] = float(value)
    return db


def _build_plan(ir, case, m, span, start):
    if not case["plan"]:
        return None
    plan = api("plan:create", ir.SimulationPlan, m, span)
    for entry in case["plan"]:
        ks = entry["periods"]
        if ks == "all":
            dates = ...
        elif entry.get("as_span") and ks == list(range(ks[0], ks[-1] + 1)):
            dates = (start + ks[0]) >> (start + ks[-1])
        else:
            dates = tuple(start + k for k in ks)
        if entry["names"] == "all":
            names = ...
        elif len(entry["names"]) == 1:
            names = entry["names"][0]
        else:
            names = tuple(entry["names"])
        kwargs = {}
        if entry["transform"] is not None:
            kwargs["transform"] = entry["transform"]
        if entry.get("alias"):
            # the other spellings the lookup table of transforms accepts for the same request
            if entry["transform"] is None:
                kwargs["transform"] = "none" if len(entry["names"]) % 2 else "level"
            elif entry["transform"] == "diff_log":
                kwargs["transform"] = "difflog"
        if entry["when_data"]:
            kwargs["when_data"] = True
        api("plan:exogenize", plan.exogenize, dates, names, **kwargs)
    return plan


def _read_output(out, name, first, G, nv):
    """Output series as list over variants of lists over the grid (NaN where absent)."""
    import numpy as np
    if name not in out.keys():
        return None
    s = out[name]
    if not hasattr(s, "get_data"):
        return None
    data = np.asarray(s.get_data(first >> first + (G - 1)), dtype=float)
    if data.ndim != 2 or data.shape[0] != G:
        return None
    if data.shape[1] == 1 and nv > 1:
        data = np.repeat(data, nv, axis=1)
    if data.shape[1] < nv:
        return None
    return [[float(x) for x in data[:, v]] for v in range(nv)]


def _same(a, b):
    return (a == b) or (a != a and b != b)


def _close(a, b, tol):
    if a != a or b != b:
        return a != a and b != b
    return abs(a - b) <= tol


# ---------------------------------------------------------------------------
# Judging one model (equations held in `order`) under both execution orders
# ---------------------------------------------------------------------------

def _judge(case, col, m, order, tag, labels):
    ir = _ir()
    P, T, F, nv = case["P"], case["T"], case["F"], case["nv"]
    G = P + T + F
    eqs = [case["eqs"][i] for i in order]
    start = _period(ir, case["freq"], case["o"])
    first = start - P
    span = start >> start + (T - 1)
    plan_map = _plan_map(case)
    model_names = set()
    for eq in eqs:
        model_names.add(eq["lhs"])
        model_names.update(nm for nm, _ in _references(eq["rhs"]))
    lhs_names = [eq["lhs"] for eq in eqs]
    res_names = [_residual_name(eq) for eq in eqs if not eq["ident"]]
    rhs_only = sorted(model_names - set(lhs_names))

    refs = {}
    for exec_order in ORDERS:
        refs[exec_order] = [_simulate_reference(case, v, order, exec_order) for v in range(nv)]

    outputs = {}
    for exec_order in ORDERS:
        db = _build_databox(ir, case, first)
        plan = _build_plan(ir, case, m, span, start)
        kwargs = {"execution_order": exec_order}
        if plan is not None:
            kwargs["plan"] = plan
        if case["target"]:
            kwargs["target_db"] = db.copy()
        with warnings.catch_warnings():     # simulate() resets the global warning filters; keep that local
            warnings.simplefilter("ignore")
            out = api(f"simulate:{exec_order}", m.simulate, db, span, **kwargs)
        O = {}
        for name in lhs_names + res_names + rhs_only:
            O[name] = _read_output(out, name, first, G, nv)
            col.check(O[name] is not None, "output:series_missing_or_misshaped",
                      lambda: f"{tag} {exec_order}: output series {name!r} is missing or has an unexpected shape")
        if col.items:
            return
        for eq in eqs:
            if eq["ident"] and not (case["target"] and f"res_{eq['lhs']}" in case["data"]):
                col.check(f"res_{eq['lhs']}" not in out.keys(), "identity:has_residual",
                          lambda: f"{tag} {exec_order}: identity {_equation_text(eq)!r} got a residual series in the output")
        if case["target"]:
            for name in sorted(case["data"]):
                if name in model_names or name in res_names:
                    continue
                got = _read_output(out, name, first, G, 1)
                exp = [_cell(case, name, 0, g) for g in range(G)]
                if all(math.isnan(x) for x in exp):
                    continue
                ok = got is not None and all(_same(a, b) for a, b in zip(got[0], exp))
                col.check(ok, "untouched:other_names",
                          lambda: f"{tag} {exec_order}: series {name!r} of target_db is not returned unchanged: {got} vs {exp}")
        outputs[exec_order] = O
        all_fresh = True
        step_index = {st_: i for i, st_ in enumerate(_steps(len(eqs), T, exec_order))}
        lhs_pos = {eq["lhs"]: pos for pos, eq in enumerate(eqs)}
        for v in range(nv):
            par = {nm: float(vals[min(v, len(vals) - 1)]) for nm, vals in case["params"].items()}

            def exogenized(pos, k, _v=v):
                """(transform, when_data, data value) if the plan exogenizes the step and the data are there."""
                eq = eqs[pos]
                point = None if eq["ident"] else plan_map.get((eq["lhs"], k))
                if point is None:
                    return None
                value = _cell(case, _exo_name(eq["lhs"], point[0]), _v, k + P)
                return None if math.isnan(value) else (point[0], point[1], value)

            # ---- cells that are not simulated ---------------------------------
            for name in lhs_names + res_names + rhs_only:
                hi = P if (name in lhs_names or name in res_names) else P + T
                for g in range(hi):
                    a, b = O[name][v][g], _cell(case, name, v, g)
                    if not _same(a, b):
                        where = "presample" if g < P else "rhs_only"
                        col.fail(f"untouched:{where}", f"{tag} {exec_order} v{v}: {name}[k={g - P}] is {a!r}, input {b!r}")
                        break
            for pos, eq in enumerate(eqs):
                rn = _residual_name(eq)
                if rn is None:
                    continue
                for k in range(T):
                    if exogenized(pos, k) is not None:
                        continue
                    b = _cell(case, rn, v, k + P)
                    a = O[rn][v][k + P]
                    if not math.isnan(b) and a != b:
                        col.fail("untouched:residual", f"{tag} {exec_order} v{v}: {rn}[k={k}] not exogenized but changed "
                                                       f"from {b!r} to {a!r}")
                        break

            # ---- equations, exogenized values ------------------------------------
            for (pos, k), idx in sorted(step_index.items()):
                eq = eqs[pos]
                x, tr, rn = eq["lhs"], eq["tr"], _residual_name(eq)
                g = k + P
                seen = {"stale": False, "nonfinite": False}

                # Values as this step saw them: cells the order had already computed (and cells that are never
                # simulated) are what the output holds; a left-hand cell computed only later still held the input.
                # Beyond the span end the (removed) terminal cells are the input.
                def get(name, s, _v=v, _k=k, _idx=idx, _pos=pos, _seen=seen, _O=O):
                    kk = _k + s
                    gg = kk + P
                    if gg < 0 or gg >= G:
                        val = NAN
                    elif kk >= T:
                        val = _cell(case, name, _v, gg)
                    else:
                        q = lhs_pos.get(name)
                        if q is not None and kk >= 0 and step_index[(q, kk)] > _idx:
                            _seen["stale"] = True
                            val = _cell(case, name, _v, gg)
                        else:
                            val = _O[name][_v][gg]
                    if not math.isfinite(val) and not (name == eqs[_pos]["lhs"] and s == 0):
                        _seen["nonfinite"] = True
                    return (val, 0.0)

                x_out = O[x][v][g]
                xlag_out = O[x][v][g - 1]
                exo = exogenized(pos, k)
                kind = "identity" if eq["ident"] else ("exogenized" if exo else "simulated")
                rhs = _ev(eq["rhs"], get, par, False)
                if tr in LAG_TRANSFORMS or (exo and exo[0] in LAG_TRANSFORMS):
                    get(x, -1)
                if seen["stale"]:
                    all_fresh = False
                if seen["nonfinite"] or rhs[0] != rhs[0]:
                    # a non-finite input of this step, or inputs on which the right-hand side is undefined (log of a
                    # negative number ...): the fault, if any, lies with the step that produced them and is reported there
                    labels.append("step_with_unusable_inputs_not_judged")
                    continue
                if exo:
                    ptr, when_data, value = exo
                    imp = _implied(ptr, value, (xlag_out, 0.0), False)
                    if ptr is None:
                        ok = x_out == value
                    else:
                        tol = RTOL * (imp[1] / U + abs(imp[0]) + (abs(xlag_out) if ptr == "diff" else 0.0))
                        ok = _close(x_out, imp[0], tol)
                    col.check(ok, f"exogenized:value:{ptr or 'direct'}",
                              lambda: f"{tag} {exec_order} v{v}: {x}[k={k}] exogenized through {ptr or 'its level'}"
                                      f"{' when_data' if when_data else ''} with data value {value!r}: implied level "
                                      f"{imp[0]!r}, output {x_out!r}")
                t_val = _ev(_transform_tree(tr, x), get, par, False)
                res = 0.0 if rn is None else O[rn][v][g]
                d = t_val[0] - rhs[0] - res
                scale = (t_val[1] + rhs[1]) / U + abs(t_val[0]) + abs(rhs[0]) + abs(res) + _inversion_scale(tr, x_out, xlag_out)
                ok = (d == d) and abs(d) <= RTOL * scale
                if ok and scale > 0 and abs(d) / (RTOL * scale) > _WORST[0]:
                    _WORST[0] = abs(d) / (RTOL * scale)        # closest accepted call, for tuning the tolerance model
                if seen["stale"]:
                    bucket = f"own_information:{exec_order}:exogenized" if exo else f"own_information:{exec_order}:{kind}:{tr}"
                    note = " with the left-hand cells this order computes only later read from the input"
                else:
                    bucket = "equation:exogenized" if exo else f"equation:{kind}:{tr}"
                    note = ""
                col.check(ok, bucket,
                          lambda: f"{tag} {exec_order} v{v}: {_equation_text(eq)!r} at k={k} ({kind}){note}: transform(lhs)="
                                  f"{t_val[0]!r}, rhs={rhs[0]!r}, residual={res!r} (input residual "
                                  f"{_cell(case, rn, v, g) if rn else None!r}), discrepancy {d!r}, tolerance {RTOL * scale:.3g}")
        labels.append(f"{tag}:{exec_order}:{'all_fresh' if all_fresh else 'some_stale'}")
        outputs[exec_order + ":fresh"] = all_fresh

    # ---- the two orders agree when both computed every value before reading it
    if outputs.get(ORDERS[0] + ":fresh") and outputs.get(ORDERS[1] + ":fresh") and not col.items:
        O0, O1 = outputs[ORDERS[0]], outputs[ORDERS[1]]
        for name in lhs_names + res_names:
            for v in range(nv):
                W0 = refs[ORDERS[0]][v]
                for g in range(P, P + T):
                    ref_v, ref_e = W0[name][g]
                    tol = 2 * RTOL * (ref_e / U + abs(ref_v))
                    if not _close(O0[name][v][g], O1[name][v][g], tol):
                        col.fail("orders_differ", f"{tag} v{v}: {name}[k={g - P}] is {O0[name][v][g]!r} under dates_equations and "
                                                  f"{O1[name][v][g]!r} under equations_dates although both orders compute every "
                                                  f"value before it is read")
                        return


def _order_is_valid(case, order):
    """Every zero-shift left-hand reference points to an earlier equation."""
    pos = {case["eqs"][i]["lhs"]: p for p, i in enumerate(order)}
    for p, i in enumerate(order):
        for nm, s in _references(case["eqs"][i]["rhs"]):
            if s == 0 and nm in pos and pos[nm] >= p:
                return False
    return True


def _check(case):
    ir = _ir()
    col = Collector()
    labels = []
    n = len(case["eqs"])
    base_order = list(case["perm"]) if case.get("perm") is not None else list(range(n))
    try:
        m = _build_model(ir, case, base_order)
        _judge(case, col, m, base_order, "written_order", labels)
        if case.get("perm") is not None:
            valid = _order_is_valid(case, base_order)
            labels.append("written_order_valid" if valid else "written_order_invalid")
            got = api("is_sequential", lambda: bool(m.is_sequential))
            col.check(got == valid, "is_sequential", lambda: f"is_sequential is {got}, the written order is "
                                                             f"{'valid' if valid else 'not valid'}: {_source(case, base_order)}")
            eids = api("sequentialize", m.sequentialize)
            ok = isinstance(eids, tuple) and sorted(eids) == list(range(n))
            col.check(ok, "sequentialize:not_a_permutation", lambda: f"sequentialize() returned {eids!r}")
            if ok:
                new_order = [base_order[e] for e in eids]
                col.check(_order_is_valid(case, new_order), "sequentialize:invalid_order",
                          lambda: f"sequentialize() returned {eids!r} for {_source(case, base_order)}")
                if not col.items:
                    try:
                        _judge(case, col, m, new_order, "sequentialized", labels)
                    except _Skip as sk:
                        labels.append(f"sequentialized:domain_skip:{sk.reason}")
    except _Skip as sk:
        return {"labels": [f"domain_skip:{sk.reason}"], "nontrivial": False}
    col.done()
    return {"labels": list(dict.fromkeys(labels)), "nontrivial": True}


# ---------------------------------------------------------------------------
# Classification
# ---------------------------------------------------------------------------

def _classify(case):
    eqs = case["eqs"]
    labels = [f"n_eq_{len(eqs)}", f"nv_{case['nv']}", f"T_{'1' if case['T'] == 1 else '2-4' if case['T'] <= 4 else '5-8'}"]
    trs = sorted({e["tr"] for e in eqs})
    labels += [f"tr_{t}" for t in trs]
    if any(e["ident"] for e in eqs):
        labels.append("identity")
    if any(e["ident"] and e["tr"] != "none" for e in eqs):
        labels.append("identity_transformed")
    if any(e["ident"] and f"res_{e['lhs']}" in case["data"] for e in eqs):
        labels.append("identity_with_decoy_residual_series")
    refs = [r for e in eqs for r in _references(e["rhs"])]
    has_lag = any(s < 0 for _, s in refs)
    lhs = {e["lhs"] for e in eqs}
    if any(s > 0 and nm in lhs for nm, s in refs):
        labels.append("lhs_lead")
    if any(nd[0] == "chg" for e in eqs for nd in _walk(e["rhs"])):
        labels.append("rhs_pseudofunction")
    plan = _plan_map(case)
    kinds = sorted({f"exo_{tr or 'direct'}" for tr, _ in plan.values()})
    labels += kinds
    if any(wd for _, wd in plan.values()):
        labels.append("exo_when_data")
    if any(wd and math.isnan(_cell(case, _exo_name(nm, tr), v, k + case["P"]))
           for (nm, k), (tr, wd) in plan.items() for v in range(case["nv"])):
        labels.append("exo_when_data_unavailable")
    if not plan:
        labels.append("no_plan")
    if case["target"]:
        labels.append("target_db")
    if case.get("perm") is not None and list(case["perm"]) != sorted(case["perm"]):
        labels.append("permuted")
    nontrivial = (any(t != "none" for t in trs) and has_lag) or bool(plan)
    return nontrivial, labels


# ---------------------------------------------------------------------------
# Strategies
# ---------------------------------------------------------------------------

_EXO_TRANSFORMS = (None, None, "log", "diff", "diff_log", "roc", "pct")
_EXO_RANGE = {"log": (-70, 70), "diff": (-100, 100), "diff_log": (-20, 20), "roc": (80, 125), "pct": (-1000, 1000)}


def _value_range(kind):
    return (50, 200) if kind == "pos" else (-200, 200)


class _Ctx:
    def __init__(self, refs, params):
        self.refs = refs            # list of (name, kind, allowed shifts)
        self.params = params        # list of (name, kind)
        self.pos_refs = [r for r in refs if r[1] == "pos"]
        self.pos_params = [p for p in params if p[1] == "pos"]


def _draw_ref(draw, refs):
    name, _, shifts = draw(st.sampled_from(refs))
    return name, draw(st.sampled_from(shifts))


def _draw_leaf(draw, ctx, kind):
    refs = ctx.pos_refs if kind == "pos" else ctx.refs
    params = ctx.pos_params if kind == "pos" else ctx.params
    options = ["c"]
    if refs:
        options += ["v", "v", "v", "v"]
    if params:
        options += ["p", "p"]
    if ctx.pos_refs:
        options += ["chg"]
    what = draw(st.sampled_from(options))
    if what == "v":
        name, s = _draw_ref(draw, refs)
        return ["v", name, s]
    if what == "p":
        return ["p", draw(st.sampled_from(params))[0]]
    if what == "chg":
        if kind == "pos":
            name, s = _draw_ref(draw, ctx.pos_refs)
            return ["chg", "roc", name, s]
        fn = draw(st.sampled_from(LAG_TRANSFORMS))
        name, s = _draw_ref(draw, ctx.refs if fn == "diff" else ctx.pos_refs)
        return ["chg", fn, name, s]
    if kind == "pos":
        return ["c", draw(st.integers(10, 200))]
    k = draw(st.integers(-200, 199))
    return ["c", k if k < 0 else k + 1]


_REAL_OPS = ("+", "+", "+", "-", "-", "*", "*", "*", "/", "neg", "log", "abs", "max", "min", "pos")
_POS_OPS = ("+", "+", "*", "*", "/", "exp", "sqrt", "max")


def _draw_tree(draw, ctx, kind, depth):
    if depth <= 0 or draw(st.integers(0, 3)) == 0:
        return _draw_leaf(draw, ctx, kind)
    d = depth - 1
    if kind == "pos":
        op = draw(st.sampled_from(_POS_OPS))
        if op in ("+", "*", "/"):
            return [op, _draw_tree(draw, ctx, "pos", d), _draw_tree(draw, ctx, "pos", d)]
        if op == "exp":
            return ["exp", _draw_tree(draw, ctx, "real", d)]
        if op == "sqrt":
            return ["sqrt", _draw_tree(draw, ctx, "pos", d)]
        return ["max", _draw_tree(draw, ctx, "pos", d), _draw_tree(draw, ctx, "real", d)]
    op = draw(st.sampled_from(_REAL_OPS))
    if op in ("+", "-", "*", "max", "min"):
        return [op, _draw_tree(draw, ctx, "real", d), _draw_tree(draw, ctx, "real", d)]
    if op == "/":
        return ["/", _draw_tree(draw, ctx, "real", d), _draw_tree(draw, ctx, "pos", d)]
    if op in ("neg", "abs"):
        return [op, _draw_tree(draw, ctx, "real", d)]
    if op == "log":
        return ["log", _draw_tree(draw, ctx, "pos", d)]
    return _draw_tree(draw, ctx, "pos", d)


def _draw_column(draw, lo, hi, G):
    return [x / 100.0 for x in draw(st.lists(st.integers(lo, hi), min_size=G, max_size=G))]


@st.composite
def _case(draw, shuffled=False):
    # ---- configuration first (small choices early in the choice sequence) ----------
    n = draw(st.sampled_from((2, 2, 3, 3, 4, 5, 6) if shuffled else (1, 1, 2, 2, 3, 3, 4, 5, 6)))
    T = draw(st.integers(1, 8))
    nv = 2 if draw(st.integers(0, 2)) == 2 else 1
    allow_leads = draw(st.integers(0, 3)) == 3
    freq = draw(st.sampled_from(("qq", "yy", "mm", "ii")))
    o = draw(st.integers(0, 40))
    target = draw(st.integers(0, 3)) == 3
    perm = list(draw(st.permutations(list(range(n))))) if shuffled else None
    trs = [draw(st.sampled_from(TRANSFORMS)) for _ in range(n)]
    idents = [draw(st.integers(0, 5)) == 5 for _ in range(n)]
    lhs = [f"x{i}" for i in range(n)]
    exogenizable = [lhs[i] for i in range(n) if not idents[i]]
    plan = []
    if exogenizable:
        for _ in range((0, 1, 1, 1, 2, 2, 3)[draw(st.integers(0, 6))]):
            if draw(st.integers(0, 4)) == 4:
                names = "all"
            else:
                names = sorted(set(draw(st.lists(st.sampled_from(exogenizable), min_size=1, max_size=2))))
            if draw(st.integers(0, 3)) == 3:
                periods = "all"
            else:
                periods = sorted(set(draw(st.lists(st.integers(0, T - 1), min_size=1, max_size=3))))
            plan.append({"names": names, "periods": periods, "as_span": draw(st.booleans()),
                         "transform": draw(st.sampled_from(_EXO_TRANSFORMS)), "when_data": draw(st.booleans()),
                         "alias": draw(st.integers(0, 2)) == 0})

    # ---- equations -------------------------------------------------------------------
    kinds = {lhs[i]: ("pos" if trs[i] in POS_TRANSFORMS else "real") for i in range(n)}
    zs = [f"z{i}" for i in range(draw(st.integers(0, 2)))]
    for z in zs:
        kinds[z] = draw(st.sampled_from(("pos", "real")))
    params = [(f"p{i}", draw(st.sampled_from(("pos", "real")))) for i in range(draw(st.integers(0, 3)))]
    eqs = []
    for i in range(n):
        refs = [(lhs[i], kinds[lhs[i]], (-1, -1, -2, -3))]
        for j in range(n):
            if j < i:
                refs.append((lhs[j], kinds[lhs[j]], (0, 0, 0, -1, -2) + ((1, 2) if allow_leads else ())))
            elif j > i:
                refs.append((lhs[j], kinds[lhs[j]], (-1, -1, -2)))
        for z in zs:
            refs.append((z, kinds[z], (0, 0, -1, -2) + ((1,) if allow_leads else ())))
        ctx = _Ctx(refs, params)
        tree = _draw_tree(draw, ctx, "real", draw(st.integers(0, 3)))
        if trs[i] in ("diff_log", "roc", "log") and draw(st.integers(0, 3)) != 3:
            tree = ["*", ["c", 10], tree]
            if trs[i] == "roc":
                tree = ["+", ["c", 100], tree]
        eqs.append({"lhs": lhs[i], "tr": trs[i], "ident": idents[i], "rhs": tree})

    all_refs = [r for e in eqs for r in _references(e["rhs"])]
    used = {nm for nm, _ in all_refs}
    P = max([1] + [-s for _, s in all_refs]) + 1
    F = max([0] + [s for _, s in all_refs])
    G = P + T + F

    def ncols():
        return nv if (nv > 1 and draw(st.booleans())) else 1

    # ---- input data ------------------------------------------------------------------
    data = {}
    for name in lhs + [z for z in zs if z in used]:
        lo, hi = _value_range(kinds[name])
        data[name] = [_draw_column(draw, lo, hi, G) for _ in range(ncols())]
    for i in range(n):
        if idents[i] and draw(st.integers(0, 2)) != 2:
            continue        # (an identity gets a decoy series named like a residual in one case out of three)
        mode = draw(st.sampled_from(("full", "full", "full", "full", "holes", "absent")))
        if mode == "absent":
            continue
        cols = []
        for _ in range(ncols()):
            c = [(x if x < 0 else x + 1) / 100.0 for x in draw(st.lists(st.integers(-30, 29), min_size=G, max_size=G))]
            if mode == "holes":
                holes = draw(st.lists(st.booleans(), min_size=G, max_size=G))
                c = [None if h else x for x, h in zip(c, holes)]
            cols.append(c)
        data[f"res_{lhs[i]}"] = cols
    data["q_extra"] = [_draw_column(draw, -200, 200, G)]
    param_values = {}
    for nm, kd in params:
        if any(nd[0] == "p" and nd[1] == nm for e in eqs for nd in _walk(e["rhs"])):
            lo, hi = (10, 150) if kd == "pos" else (-150, 150)
            param_values[nm] = [x / 100.0 for x in draw(st.lists(st.integers(lo, hi), min_size=nv, max_size=nv))]

    case = {"freq": freq, "o": o, "T": T, "nv": nv, "eqs": eqs, "perm": perm, "params": param_values,
            "P": P, "F": F, "data": data, "plan": plan, "target": target}

    # ---- data for the exogenized points ----------------------------------------------
    points = _plan_map(case)
    full = {}       # exo series name -> (fill the unplanned span cells too, lhs name, transform)
    for (nm, k), (tr, wd) in sorted(points.items(), key=lambda kv: (kv[0][0], kv[0][1])):
        g = k + P
        if tr is None:
            if wd:
                for col_ in data[nm]:
                    if draw(st.booleans()):
                        col_[g] = None
            continue
        en = _exo_name(nm, tr)
        if en not in data:
            data[en] = [[None] * G for _ in range(ncols())]
            full[en] = (draw(st.integers(0, 2)) == 2, nm, tr)
        lo, hi = _EXO_RANGE[tr]
        for col_ in data[en]:
            if wd and draw(st.booleans()):
                continue
            col_[g] = draw(st.integers(lo, hi)) / 100.0
    for en, (is_full, nm, tr) in sorted(full.items()):
        if not is_full:
            continue
        lo, hi = _EXO_RANGE[tr]
        for col_ in data[en]:
            for k in range(T):
                if (nm, k) not in points or points[(nm, k)][0] != tr:
                    col_[k + P] = draw(st.integers(lo, hi)) / 100.0
    # items of the input databox named like model parameters, with other values (calibration scalars kept in the box,
    # or the output of an earlier parameters_from_data run): ignored under the default parameters_from_data=False
    case["param_items"] = {}
    for nm, kd in params:
        if draw(st.integers(0, 2)) == 0:
            lo, hi = _value_range(kd)
            case["param_items"][nm] = draw(st.integers(lo, hi)) / 100.0 + 0.005
    return case


def _ordered_case():
    return _case(shuffled=False)


def _shuffled_case():
    return _case(shuffled=True)


# ---------------------------------------------------------------------------
# Known-finding matchers
# ---------------------------------------------------------------------------

def _exogenized_residual(subcheck, case, bucket, message):
    """Residual written at an exogenized point (equation on the output, or the same step under stale information)."""
    return bucket.startswith("equation:exogenized") or (bucket.startswith("own_information:") and bucket.endswith(":exogenized"))


def _change_transform_without_lag(subcheck, case, bucket, message):
    """simulate() raises for a diff/diff_log/roc/pct exogenized point in the first period of a model without lags."""
    if not (bucket.startswith("simulate:") and ":raises:IrisPieCritical" in bucket):
        return False
    refs = [s for e in case["eqs"] for _, s in _references(e["rhs"])]
    no_lag = all(s >= 0 for s in refs) and all(e["tr"] not in LAG_TRANSFORMS for e in case["eqs"])
    return no_lag and any(k == 0 and tr in LAG_TRANSFORMS for (_, k), (tr, _) in _plan_map(case).items())


FINDING_MATCHERS = {
    "exogenized_residual_is_increment": _exogenized_residual,
    "exogenized_change_transform_without_model_lag": _change_transform_without_lag,
}


SUBCHECKS = [
    HypSub("ordered", _ordered_case, _check, _classify, budget={"quick": 5000, "thorough": 100000}),
    HypSub("shuffled", _shuffled_case, _check, _classify, budget={"quick": 2000, "thorough": 32000}),
]
