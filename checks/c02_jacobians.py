"""
C02 - Jacobians from algorithmic differentiation equal the true derivatives.

Oracles: (a) a forward-mode (dual number) differentiator over the harness's own
expression trees (vlib.xtree) against aldi's eval_to_arrays at arbitrary data
points and against the matrices of systemize(); (b) Richardson-extrapolated
central differences of the steady-state and stacked-time residual functions
against their own analytic Jacobians, captured inside the harness process.
"""

import math

import numpy as np
from hypothesis import strategies as st

from vlib import xtree as xt, linmodels as lm, simdata as sd
from vlib.runner import HypSub, Collector, Violation, api

PROPERTY = "C02"

RULE = (
    "aldi_trees: 1-3 equations lhs=rhs with random expression trees (depth<=4) over + - * / ^, unary minus, "
    "literals, parameters, variables at shifts -3..+2, shocks, log/exp/sqrt/logistic/maximum and two user context "
    "functions (plus, in a 'risky' class, abs/normal_cdf/normal_pdf/minimum/c^x which may be rejected), drawn "
    "log-status, a drawn evaluation point per (variable, shift) and drawn steady levels; non-trivial iff some tree "
    "has depth>=2 with a non-arithmetic function or a variable-base power and the model has a log-variable or a "
    "shifted variable. steady_jacobian / stacked_jacobian: structural models (additive, log-linear, anchored "
    "nonlinear) whose solver evaluators are captured and compared with extrapolated central differences at drawn "
    "points; non-trivial iff the model has a lead or lag (stacked: and span>=2)."
)

ASSUMPTIONS = [
    "points closer than 1e-3 (relative) to a kink of maximum/minimum/abs are not tested; points outside the domain (log/sqrt/power of non-positive, overflow) are discarded and counted",
    "a model that uses abs, normal_cdf, normal_pdf, minimum, a constant base raised to a variable power, or maximum/minimum with a constant first and a variable second operand may be rejected with an exception (counted); any finite wrong derivative is a violation",
    "tolerance 1e-9 relative for analytic rules, 1e-5 where a user context function is involved (documented finite differencing with relative step 1e-6)",
    "steady/stacked Jacobians are compared with Richardson-extrapolated central differences of the same evaluator's residual function (tolerance 1e-6 relative); the residual functions themselves are judged by C05/C06",
    "internal evaluators are reached through harness-side wrappers of solver entry points, no repository hook",
]

RISKY = {"abs", "normal_cdf", "normal_pdf", "minimum", "cpow"}
SHIFTS = list(range(-3, 3))


# ---------------------------------------------------------------------------
# (a) expression trees against aldi and systemize
# ---------------------------------------------------------------------------

_VAL = st.one_of(st.integers(3, 32).map(lambda k: k / 8.0), st.floats(0.3, 4.0, allow_nan=False).map(lambda x: round(x, 4)))
_SHK = st.sampled_from([0.0, 0.1, -0.2, 0.3, -0.1])


@st.composite
def _tree_case(draw):
    nv = draw(st.integers(1, 3))
    npars = draw(st.integers(0, 2))
    risky = draw(st.integers(0, 5)) == 0
    ctx = draw(st.booleans())
    eqs = []
    for i in range(nv):
        d = draw(st.integers(1, 4))
        rhs = draw(xt.tree(nv, npars, nv, d, False, risky=risky, ctx=ctx))
        lhs = None
        if draw(st.integers(0, 3)) == 0:
            # the equation's own variable stays on the left at shift 0 (no degenerate lead-only variables)
            lhs = [draw(st.sampled_from(["add", "mul"])), ["var", i, 0],
                   draw(xt.tree(nv, npars, nv, 1, True, risky=False, ctx=False, shocks_ok=False))]
        eqs.append({"lhs": lhs, "rhs": rhs})
    meas = None
    if draw(st.booleans()):
        meas = {"rhs": draw(xt.tree(nv, npars, 0, draw(st.integers(1, 3)), False, min_shift=-2, max_shift=0, risky=False, ctx=ctx, shocks_ok=False)),
                "log": draw(st.booleans()), "y": draw(_VAL), "w": draw(_SHK)}
    return {
        "nv": nv, "logly": [draw(st.booleans()) for _ in range(nv)], "pars": [draw(_VAL) for _ in range(npars)],
        "eqs": eqs, "meas": meas, "risky": risky,
        "vals": [[draw(_VAL) for _ in SHIFTS] for _ in range(nv)],
        "shk": [draw(_SHK) for _ in range(nv)], "ant": [draw(_SHK) for _ in range(nv)],
        "levels": [draw(_VAL) for _ in range(nv)],
    }


def _all_trees(case):
    out = []
    for e in case["eqs"]:
        out.append(e["rhs"])
        if e["lhs"] is not None:
            out.append(e["lhs"])
    if case["meas"]:
        out.append(case["meas"]["rhs"])
    return out


def _classify_tree(case):
    fns, toks, dmax = set(), set(), 0
    for t in _all_trees(case):
        fns |= xt.functions_used(t)
        toks |= xt.tokens_used(t)
        dmax = max(dmax, xt.depth(t))
    labels = sorted("fn_" + f for f in fns)
    shifted = any(k != 0 for (_, _, k) in toks)
    anylog = any(case["logly"])
    nonarith = bool(fns - {"powc"})
    if case["risky"]:
        labels.append("risky_class")
    if shifted:
        labels.append("shifted_variable")
    if anylog:
        labels.append("log_variable")
    if case["meas"]:
        labels.append("measurement_equation")
    return dmax >= 3 and nonarith and (anylog or shifted), labels


def _source(case):
    nv = case["nv"]
    vn = [f"v{j}" for j in range(nv)]
    sn = [f"s{j}" for j in range(nv)]
    pn = [f"p{j}" for j in range(len(case["pars"]))]
    lines = ["!transition-variables", "    " + ", ".join(vn), "!transition-shocks", "    " + ", ".join(sn)]
    if pn:
        lines += ["!parameters", "    " + ", ".join(pn)]
    logs = [vn[j] for j in range(nv) if case["logly"][j]]
    if case["meas"]:
        lines += ["!measurement-variables", "    m0", "!measurement-shocks", "    w0"]
        if case["meas"]["log"]:
            logs.append("m0")
    if logs:
        lines += ["!log-variables", "    " + ", ".join(logs)]
    lines.append("!transition-equations")
    for i, e in enumerate(case["eqs"]):
        lhs = vn[i] if e["lhs"] is None else xt.render(e["lhs"], vn, pn, sn)
        lines.append(f"    {lhs} = {xt.render(e['rhs'], vn, pn, sn)};")
    if case["meas"]:
        lines += ["!measurement-equations", f"    m0 = {xt.render(case['meas']['rhs'], vn, pn, sn)} + w0;"]
    return "\n".join(lines) + "\n", vn, sn, pn


def _own_derivatives(case, val_var, val_shk):
    """Per equation: (residual value rhs-lhs, {token: partial}); raises xt.Inadmissible."""
    val_par = lambda i: case["pars"][i]  # noqa: E731
    out = []
    for i, e in enumerate(case["eqs"]):
        r, dr = xt.dual(e["rhs"], val_var, val_par, val_shk)
        if e["lhs"] is None:
            l, dl = val_var(i, 0), {("v", i, 0): 1.0}
        else:
            l, dl = xt.dual(e["lhs"], val_var, val_par, val_shk)
        d = dict(dr)
        for k, v in dl.items():
            d[k] = d.get(k, 0.0) - v
        if not math.isfinite(r - l) or abs(r - l) > 1e8 or any((not math.isfinite(v)) or abs(v) > 1e10 for v in d.values()):
            raise xt.Inadmissible("magnitude")
        out.append((r - l, d))
    return out


def _close(a, b, rtol, scale):
    return math.isfinite(a) and abs(a - b) <= rtol * max(scale, abs(b), 1e-6)


def _check_tree(case):
    import irispie as ir
    col = Collector()
    src, vn, sn, pn = _source(case)
    nv = case["nv"]
    fns = set()
    for t in _all_trees(case):
        fns |= xt.functions_used(t)
    may_reject = bool(fns & RISKY) or any(xt.fragile(t) for t in _all_trees(case))
    has_ctx = any(f.startswith("ctx:") for f in fns)
    rtol = 1e-5 if has_ctx else 1e-9

    # ---- own derivatives at the drawn point (before touching irispie: admissibility) ----
    def val_var(j, k):
        return case["vals"][j][k + 3]

    def val_shk(i):
        return case["shk"][i] + case["ant"][i]
    try:
        own = _own_derivatives(case, val_var, val_shk)
        m_own = None
        if case["meas"]:
            mv, md = xt.dual(case["meas"]["rhs"], val_var, lambda i: case["pars"][i], val_shk)
            m_own = (mv + case["meas"]["w"] - case["meas"]["y"], md)
    except xt.Inadmissible:
        return {"labels": ["inadmissible_point"], "nontrivial": False}

    try:
        m = ir.Simultaneous.from_string(src, linear=False, context=dict(xt.CONTEXT))
        desc = m._invariant.dynamic_descriptor
        sv = desc.system_vectors
        n2q = m.create_name_to_qid()
        nq = max(n2q.values()) + 1
        data = np.full((nq, len(SHIFTS)), np.nan)
        for j in range(nv):
            data[n2q[vn[j]], :] = case["vals"][j]
            data[n2q[sn[j]], :] = case["shk"][j]
            data[n2q["ant_" + sn[j]], :] = case["ant"][j]
        for i, p in enumerate(pn):
            data[n2q[p], :] = case["pars"][i]
        if case["meas"]:
            data[n2q["m0"], :] = case["meas"]["y"]
            data[n2q["w0"], :] = case["meas"]["w"]
        diff, value = desc.aldi_context.eval_to_arrays(data, 3)
    except Exception as exc:  # noqa: BLE001
        if may_reject:
            return {"labels": ["rejected:" + ("+".join(sorted(fns & RISKY)) or "constant_first_operand")], "nontrivial": False}
        raise Violation(f"unexpected_rejection:{type(exc).__name__}", f"{type(exc).__name__}: {exc}\n{src}")

    q2n = {q: n for n, q in n2q.items()}
    eids = list(sv.transition_eids) + list(sv.measurement_eids)
    col.check(len(eids) == nv + (1 if case["meas"] else 0), "aldi:equation_count", f"{len(eids)} equations in the system\n{src}")
    if col.items:
        col.done()
    logly = {vn[j]: case["logly"][j] for j in range(nv)}
    if case["meas"]:
        logly["m0"] = case["meas"]["log"]

    def expected_for(eq_index, tok_name, shift, at_var, at_meas):
        """d residual / d token (times the value for log-variables) from the harness's derivatives."""
        if eq_index < nv:
            _, d = own_now[eq_index]
        else:
            d = dict(m_now[1])
        if tok_name in vn:
            j = vn.index(tok_name)
            p = d.get(("v", j, shift), 0.0)
            return p * (at_var(j, shift) if logly[tok_name] else 1.0)
        if tok_name in sn:
            return d.get(("s", sn.index(tok_name), 0), 0.0) if shift == 0 else 0.0
        if tok_name.startswith("ant_") and tok_name[4:] in sn:
            return d.get(("s", sn.index(tok_name[4:]), 0), 0.0) if (shift == 0 and eq_index < nv) else 0.0
        if tok_name == "m0":
            return (-1.0 * (at_meas if logly["m0"] else 1.0)) if (eq_index == nv and shift == 0) else 0.0
        if tok_name == "w0":
            return 1.0 if (eq_index == nv and shift == 0) else 0.0
        return 0.0

    # ---- 1. eval_to_arrays at the drawn (non-steady) point ----------------------------------
    own_now, m_now = own, m_own
    row = 0
    scale_all = 1.0
    for ei, eid in enumerate(eids):
        val_exp = own[ei][0] if ei < nv else m_own[0]
        got_val = float(value[ei, 0])
        col.check(_close(got_val, val_exp, rtol, 1.0), "aldi:residual_value",
                  lambda: f"equation {ei}: value {got_val!r} expected rhs-lhs {val_exp!r}\n{src}")
        wrts = sv.eid_to_wrt_tokens[eid]
        exps = [expected_for(ei, q2n[t.qid], t.shift, val_var, case["meas"]["y"] if case["meas"] else 0.0) for t in wrts]
        scale = max([abs(x) for x in exps] + [1e-3])
        for k, t in enumerate(wrts):
            g = float(diff[row + k, 0])
            col.check(_close(g, exps[k], rtol, scale), "aldi:derivative",
                      lambda: f"equation {ei}, d/d{'log ' if logly.get(q2n[t.qid]) else ''}{q2n[t.qid]}{{{t.shift}}}: got {g!r} expected {exps[k]!r}\n{src}")
        row += len(wrts)
    col.check(row == diff.shape[0], "aldi:row_count", f"{diff.shape[0]} derivative rows, expected {row}")
    if col.items:
        col.done()

    # ---- 2. systemize() at assigned (flat) steady levels: positions and values ------------
    lv = case["levels"]
    try:
        flat_var = lambda j, k: lv[j]  # noqa: E731
        own_now = _own_derivatives(case, flat_var, lambda i: 0.0)
        m_now = None
        ysteady = 1.0
        if case["meas"]:
            mv, md = xt.dual(case["meas"]["rhs"], flat_var, lambda i: case["pars"][i], lambda i: 0.0)
            ysteady = mv
            if case["meas"]["log"] and mv <= 1e-6:
                raise xt.Inadmissible("log measurement variable with non-positive steady state")
            m_now = (0.0, md)
    except xt.Inadmissible:
        col.done()
        return {"labels": ["steady_point_inadmissible"], "nontrivial": True}
    assign = {vn[j]: lv[j] for j in range(nv)}
    assign.update({pn[i]: case["pars"][i] for i in range(len(pn))})
    if case["meas"]:
        assign["m0"] = ysteady
    api("assign", lambda: m.assign(**assign))
    S = api("systemize", m.systemize)
    tv = list(sv.transition_variables)
    neq = nv

    def cmp_matrix(name, M, exp):
        M = np.asarray(M, dtype=float)
        if M.shape != exp.shape:
            col.fail(f"systemize:{name}:shape", f"{M.shape} expected {exp.shape}")
            return
        sc = max(float(np.max(np.abs(exp), initial=0.0)), 1e-3)
        bad = ~(np.abs(M - exp) <= rtol * sc) | ~np.isfinite(M)
        if bad.any():
            r, c = np.argwhere(bad)[0]
            col.fail(f"systemize:{name}", f"{name}[{r},{c}] = {M[r, c]!r} expected {exp[r, c]!r}\n{src}")

    A = np.zeros((neq, len(tv)))
    B = np.zeros((neq, len(tv)))
    tvset = {(t.qid, t.shift) for t in tv}
    # every occurrence with a non-zero derivative has a column: (j, k) in the vector (A, G), or as the lag of a
    # column (j, k+1) whose own lag is not in the vector (B)
    for r in range(neq + (1 if case["meas"] else 0)):
        d_ = own_now[r][1] if r < neq else dict(m_now[1])
        for key, val in d_.items():
            if key[0] != "v" or not val:
                continue
            _, j, k = key
            q = n2q[vn[j]]
            placed = (q, k) in tvset or (r < neq and (q, k + 1) in tvset)
            col.check(placed, "systemize:occurrence_without_column",
                      lambda: f"{'measurement' if r >= neq else 'transition'} equation {r}: occurrence {vn[j]}{{{k}}} has derivative {val!r} "
                              f"but no column in the transition vector {[(q2n[t.qid], t.shift) for t in tv]}\n{src}")
    for r in range(neq):
        for c, t in enumerate(tv):
            A[r, c] = expected_for(r, q2n[t.qid], t.shift, flat_var, ysteady)
            if (t.qid, t.shift - 1) not in tvset:
                B[r, c] = expected_for(r, q2n[t.qid], t.shift - 1, flat_var, ysteady)
    cmp_matrix("A", np.asarray(S.A)[:neq], A)
    cmp_matrix("B", np.asarray(S.B)[:neq], B)
    D = np.zeros((neq, len(sv.transition_shocks)))
    for r in range(neq):
        for c, t in enumerate(sv.transition_shocks):
            D[r, c] = expected_for(r, q2n[t.qid], 0, flat_var, ysteady)
    cmp_matrix("D", np.asarray(S.D)[:neq], D)
    if case["meas"]:
        F = np.array([[expected_for(nv, q2n[t.qid], 0, flat_var, ysteady) for t in sv.measurement_variables]])
        G = np.array([[expected_for(nv, q2n[t.qid], t.shift, flat_var, ysteady) for t in tv]])
        J = np.array([[expected_for(nv, q2n[t.qid], 0, flat_var, ysteady) for t in sv.measurement_shocks]])
        cmp_matrix("F", S.F, F)
        cmp_matrix("G", S.G, G)
        cmp_matrix("J", S.J, J)
    col.done()
    # ---- 3. the same point as the second of two parameter variants -----------------------------
    # (the first variant sits at another point; the matrices of the second must be those just judged)
    labels_v = []
    try:
        m2 = ir.Simultaneous.from_string(src, linear=False, context=dict(xt.CONTEXT))
        m2.alter_num_variants(2)
        other = {k: ((0.8 * v + 0.15) if k in vn or k == "m0" else (v + 0.25)) for k, v in assign.items()}
        m2.assign(**{k: [other[k], v] for k, v in assign.items()})
        S2 = m2.systemize()
    except Exception:  # noqa: BLE001 - the other point may be inadmissible for a drawn function: nothing to compare
        labels_v.append("two_variant_systemize_not_available")
    else:
        if col.check(isinstance(S2, (list, tuple)) and len(S2) == 2, "systemize:variants:count", lambda: f"systemize() of a two-variant model returned {type(S2).__name__}"):
            for name in ("A", "B", "C", "D", "F", "G", "H", "J"):
                a_, b_ = np.asarray(getattr(S2[1], name), dtype=float), np.asarray(getattr(S, name), dtype=float)
                ok_ = a_.shape == b_.shape and bool(np.allclose(a_, b_, rtol=1e-12, atol=1e-14, equal_nan=True))
                col.check(ok_, "systemize:variants:second_variant_differs",
                          lambda: f"{name} of the second variant differs from the single-variant model at the same point "
                                  f"(max {float(np.nanmax(np.abs(a_ - b_))) if a_.shape == b_.shape and a_.size else 'shape'})\n{src}")
            labels_v.append("two_variant_systemize_compared")
        col.done()
    return {"labels": ["judged"] + labels_v + (["context_function"] if has_ctx else []), "nontrivial": True}


# ---------------------------------------------------------------------------
# (b) captured steady / stacked-time evaluators against central differences
# ---------------------------------------------------------------------------

def _richardson(f, x, k, h):
    def d(step):
        xp, xm = x.copy(), x.copy()
        xp[k] += step
        xm[k] -= step
        return (np.asarray(f(xp), dtype=float) - np.asarray(f(xm), dtype=float)) / (2 * step)
    return (4 * d(h / 2) - d(h)) / 3


def _fd_check(col, bucket, eval_func, eval_jacob, x0, offsets, args=(), where=""):
    x = np.asarray(x0, dtype=float).copy()
    n = x.size
    if n == 0:
        return 0
    x_other = x.copy()                          # the solver's own starting point: admissible, and another point
    x = x + np.resize(np.asarray(offsets, dtype=float), n)

    def jac():
        J_ = eval_jacob(x.copy(), *args)
        return J_.toarray() if hasattr(J_, "toarray") else np.asarray(J_, dtype=float)

    # the Jacobian at x is asked for (i) before anything else was evaluated, (ii) right after the function at x,
    # (iii) after the function was last evaluated at another point: the evaluation point is the argument, not a state
    J_fresh = jac()
    f0 = np.asarray(eval_func(x.copy(), *args), dtype=float)
    if not np.all(np.isfinite(f0)):
        return 0
    J_after = jac()
    if J_after.shape != (f0.size, n):
        col.fail(bucket + ":shape", f"Jacobian shape {J_after.shape} for {f0.size} equations and {n} unknowns {where}")
        return 0
    fd = np.column_stack([_richardson(lambda z: eval_func(z, *args), x, k, 1e-4 * max(1.0, abs(x[k]))) for k in range(n)])
    if not np.all(np.isfinite(fd)):
        return 0
    eval_func(x_other.copy(), *args)
    J_stale = jac()
    sc = max(float(np.max(np.abs(fd), initial=0.0)), 1e-3)
    for tag, J in (("", J_after), (":first_call", J_fresh), (":after_other_point", J_stale)):
        if J.shape != fd.shape:
            col.fail(bucket + tag + ":shape", f"Jacobian shape {J.shape} expected {fd.shape} {where}")
            continue
        err = np.abs(J - fd)
        if not (np.all(np.isfinite(J)) and float(err.max(initial=0.0)) <= 1e-6 * sc):
            r, c = np.unravel_index(int(np.argmax(np.where(np.isfinite(err), err, np.inf))), err.shape)
            col.fail(bucket + tag, f"Jacobian[{r},{c}] = {J[r, c]!r}, central difference {fd[r, c]!r} {where}")
    return 1


@st.composite
def _solver_case(draw):
    fam = draw(st.sampled_from(["additive", "log", "nl", "nl"]))
    if fam == "nl":
        spec = draw(lm.nl_spec_strategy(max_n=3, meas=(0, 1)))
    else:
        spec = draw(lm.spec_strategy(max_n=3, meas=(0, 1), allow_log=(fam == "log")))
        spec["log"] = fam == "log"
    off = st.floats(-0.2, 0.2, allow_nan=False).map(lambda x: round(x, 3))
    return {"spec": spec, "family": fam, "offsets": draw(st.lists(off, min_size=4, max_size=12)),
            "flat": draw(st.booleans()), "N": draw(st.integers(1, 5)),
            "terminal": draw(st.sampled_from(["first_order", "data"])),
            "shock": draw(st.sampled_from([0.0, 0.3, -0.5])),
            # stacked time only: a plan that exogenizes a variable (at the last period or another one) and endogenizes
            # its own shock - the unknowns and the terminal-condition map of the Jacobian change with it
            "plan_swap": draw(st.one_of(st.none(), st.tuples(st.integers(0, 2), st.sampled_from(["last", "last", 0, 1]),
                                                             st.sampled_from(["unanticipated", "anticipated"])).map(list)))}


def _classify_solver(case):
    spec = case["spec"]
    L, F = lm.shifts(spec)
    labels = [f"family_{case['family']}", "flat" if case["flat"] else "nonflat", f"terminal_{case['terminal']}"]
    if sum(F):
        labels.append("has_lead")
    return (max(L) >= 1 or sum(F) >= 1), labels


def _domain(spec):
    if lm.steady(spec)[0] is None:
        return False
    kind, _ = lm.classify(spec)
    return kind == "determinate"


def _check_steady_jacobian(case):
    import irispie as ir
    from irispie.steadiers import solver_dispatcher as disp
    col = Collector()
    spec = case["spec"]
    if not _domain(spec):
        return {"labels": ["model_not_in_domain"], "nontrivial": False}
    m = api("build", lm.build_model, spec, solve=False, flat=case["flat"])
    if spec["log"] or lm.nl_terms(spec):
        pass
    else:
        # linear=True models use the linear steady solver (no Jacobian): rebuild as nonlinear to reach the evaluator
        m = ir.Simultaneous.from_string(lm.source(spec), linear=False, flat=case["flat"])
        xs, ys = lm.steady(spec)
        m.assign(**{nm: float(xs[j]) for j, nm in enumerate(spec["names"])})
        m.assign(**{nm: float(ys[k]) for k, nm in enumerate(lm.meas_names(spec))})
        m.assign(**lm.param_values(spec))
    seen = []
    orig = disp.neqs_levenberg

    def shim(steady_evaluator, maybelog_init_guess, solver_settings):
        seen.append(_fd_check(col, "steady_jacobian", steady_evaluator.eval_func, steady_evaluator.eval_jacob,
                              maybelog_init_guess, case["offsets"], where=f"\n{lm.source(spec)}"))
        return orig(steady_evaluator, maybelog_init_guess, solver_settings)

    disp.neqs_levenberg = shim
    try:
        try:
            m.solve_steady(flat=case["flat"]) if False else m.steady()
        except Exception:  # noqa: BLE001 - convergence is judged by C05
            pass
    finally:
        disp.neqs_levenberg = orig
    col.done()
    return {"labels": ["evaluators_checked" if sum(seen) else "no_evaluator_reached"], "nontrivial": sum(seen) > 0}


def _check_stacked_jacobian(case):
    import irispie as ir
    from irispie.stacked_time import simulators as stk
    col = Collector()
    spec = case["spec"]
    if not _domain(spec):
        return {"labels": ["model_not_in_domain"], "nontrivial": False}
    m = api("build_and_solve", lm.build_model, spec)
    start = ir.qq(2020, 1)
    N = case["N"]
    Lmax, Fmax = lm.max_lag_lead(spec)
    Lmax = max(Lmax, 1)
    db = sd.steady_db(m, spec, start, -Lmax, N + Fmax + 2, False)
    shn = [s for s in lm.shock_names(spec) if s]
    if shn and case["shock"]:
        db[shn[0]][start] = case["shock"]
    seen = []
    nq = stk._nq
    orig = nq.damped_newton

    def shim(eval_func, eval_jacob, init_guess, iter_printer=None, args=(), **settings):
        seen.append(_fd_check(col, "stacked_jacobian", eval_func, eval_jacob, init_guess, case["offsets"], args=args,
                              where=f"(N={N}, terminal={case['terminal']})\n{lm.source(spec)}"))
        return orig(eval_func=eval_func, eval_jacob=eval_jacob, init_guess=init_guess, iter_printer=iter_printer, args=args, **settings)

    skw = {}
    labels_p = []
    ps = case.get("plan_swap")
    if ps:
        j = ps[0] % spec["n"]
        sh_ = lm.shock_names(spec)[j]
        if sh_:
            t_ = (N - 1) if ps[1] == "last" else int(ps[1]) % N
            plan = ir.SimulationPlan(m, start >> (start + N - 1))
            nm_ = spec["names"][j]
            if ps[2] == "unanticipated":
                api("plan:swap_unanticipated", plan.swap_unanticipated, start + t_, (nm_, sh_))
            else:
                api("plan:swap_anticipated", plan.swap_anticipated, start + t_, (nm_, "ant_" + sh_))
            skw["plan"] = plan
            labels_p.append("plan_exogenizes_last_period" if t_ == N - 1 else "plan_exogenizes_earlier_period")
    nq.damped_newton = shim
    try:
        try:
            m.simulate(db, start >> (start + N - 1), method="stacked_time", terminal=case["terminal"], **skw)
        except Exception:  # noqa: BLE001 - convergence is judged by C06
            pass
    finally:
        nq.damped_newton = orig
    col.done()
    return {"labels": ["evaluators_checked" if sum(seen) else "no_evaluator_reached"] + labels_p, "nontrivial": sum(seen) > 0 and N >= 2}


SUBCHECKS = [
    HypSub("aldi_trees", _tree_case, _check_tree, _classify_tree, budget={"quick": 1500, "thorough": 40000}),
    HypSub("steady_jacobian", _solver_case, _check_steady_jacobian, _classify_solver, budget={"quick": 300, "thorough": 16000}),
    HypSub("stacked_jacobian", _solver_case, _check_stacked_jacobian, _classify_solver, budget={"quick": 300, "thorough": 16000}),
]
