"""
C18 - Reduced-form VAR estimates are the least-squares solution and reproduce the data.

Oracle: the harness stacks its own regressors [y(t-1); ...; y(t-p); x(t); 1] from the
case data, keeps exactly the complete rows, solves with numpy.linalg.lstsq (QR/SVD, not
the normal equations the library uses) and compares coefficients, intercept, residuals,
residual covariance; the reported mean / eigenvalues / autocovariances are compared with
the harness's own companion form (own Kronecker-form discrete Lyapunov solve) built from
the *returned* system matrices; `simulate` over the estimation span fed with the returned
residuals must give back the data.

Conventions taken from the code under test (there are no docstrings in red_vars):
  * coefficient layout  A = [A_1 ... A_p] (n x n*p, lag 1 first), B (n x nx, exogenous
    in the order of `exogenous_names`, contemporaneous), c (n,) or None;
  * `estimate(db, span)`: `span` holds the left-hand-side periods, the `order` periods
    before it are the initial condition; residual series are named `res_<name>`;
  * prior dummy observations are appended as extra columns to the fitted data
    (red_vars/_estimators.py), Minnesota / Mean dummies as in red_vars/prior_obs.py.
"""

import math

from hypothesis import strategies as st

from vlib import pgen
from vlib.runner import HypSub, Collector, Violation, api

PROPERTY = "C18"

RULE = (
    "data sets simulated by the harness from a drawn stable VAR (1-3 endogenous, order 1-3, 0-2 exogenous, intercept "
    "on/off, noise scale 0.1-2 or 0 = noise-free class, 20-60 fitted periods plus initial condition, optional padding "
    "outside the estimation span, up to 4 missing cells anywhere incl. the initial condition, 1-2 variants, "
    "dof_correction on/off; in half of the cases the object was estimated on other data and queried before (optionally "
    "copied) and is then estimated again; separate classes with Minnesota/Mean prior dummy observations and with simulate() over the "
    "estimation span). Compared with numpy.linalg.lstsq on the harness's own stacked regressors over exactly the "
    "complete rows and with the harness's own companion form. Non-trivial iff order >= 2 or an exogenous regressor or "
    "a missing cell (and the case was not skipped for too few rows / conditioning)"
)

ASSUMPTIONS = [
    "the degrees-of-freedom correction is not defined by the property or any docstring: both T - K (all regressors per "
    "equation, the textbook reading) and T - (exogenous + intercept) (what the implementation subtracts) are accepted",
    "with prior dummy observations the residual covariance is still the second moment of the residuals of the fitted "
    "data periods (dummy observations carry no stored residual) divided by the number of fitted periods (minus dof)",
    "the scale of Minnesota dummy observations is not documented: both the per-variable standard deviation the estimator "
    "computes for the prior objects and the unit scale the prior objects actually use are accepted; Mean dummy "
    "observations are not scaled",
    "autocovariance of order i is E[y(t) y(t-i)'] = (T^i Omega)[:n,:n], the orientation used throughout irispie",
    "the reported mean is that of the companion form (T, K) alone, i.e. exogenous regressors at zero",
    "cases whose regressor matrix has 2-norm condition number > 1e3 (harness-side) or fewer than K+3 complete rows are "
    "not judged; moments are not judged when the returned VAR has spectral radius > 0.97 (mean: when I-T is ill-conditioned)",
    "missing = NaN; infinities are not generated; omit_missing is left at its default (True); interpret_span default",
    "residuals on periods that were not fitted are not judged (they may be partly finite)",
]

YNAMES = ("gdp", "cpi", "rate")       # deliberately not in alphabetical order
XNAMES = ("oil", "dum")
COND_LIMIT = 1e3
RTOL_COEF = 1e-7


def _np():
    import numpy as np
    return np


def _ir():
    import irispie as ir
    return ir


# ---------------------------------------------------------------------------
# case generation (plain data)
# ---------------------------------------------------------------------------

def _hundredths(lo, hi):
    return st.integers(lo, hi).map(lambda k: k / 100)


@st.composite
def _base_case(draw, kind):
    n = draw(st.integers(1, 3))
    p = draw(st.integers(1, 3))
    if kind == "noise_free":
        nx = draw(st.integers(1, 2))
    else:
        nx = draw(st.integers(0, 2))
    intercept = draw(st.booleans())
    T = draw(st.integers(20, 60))
    f = draw(st.sampled_from([4, 12, 1, 0]))
    if f == 0:
        start = {"f": 0, "n": draw(st.integers(-30, 200))}
    else:
        start = {"f": f, "y": draw(st.integers(1960, 2040)), "s": draw(st.integers(1, f))}
    nv = draw(st.sampled_from([1, 1, 2]))
    case = {
        "kind": kind,
        "n": n, "p": p, "nx": nx, "intercept": intercept, "T": T,
        "start": start,
        "pad": [draw(st.integers(0, 3)), draw(st.integers(0, 3))],
        "A_raw": [[[draw(_hundredths(-100, 100)) for _ in range(n)] for _ in range(n)] for _ in range(p)],
        "radius": draw(_hundredths(20, 92)),
        "c": [draw(_hundredths(-200, 200)) if intercept else 0.0 for _ in range(n)],
        "seed": draw(st.integers(0, 2**20)),
        "nv": nv,
        "nv_via": draw(st.sampled_from(["constructor", "estimate"])) if nv > 1 else "constructor",
        "dof": draw(st.booleans()),
        "xnames_arg": draw(st.sampled_from(["tuple", "list"])) if nx else draw(st.sampled_from(["none", "omit", "empty"])),
        "up_to_order": draw(st.integers(0, 3)),
        # estimate(..., target_db=box): the box already holds residual series of an earlier estimation (and a bystander)
        "target_db": draw(st.sampled_from([False, False, True])),
    }
    if kind == "noise_free":
        # every exogenous variable must move every equation a little, otherwise nothing excites the system
        case["B"] = [[draw(st.sampled_from([-1, 1])) * draw(_hundredths(20, 100)) for _ in range(nx)] for _ in range(n)]
        case["noise"] = 0.0
        case["generating_intercept"] = True
    else:
        case["B"] = [[draw(_hundredths(-100, 100)) for _ in range(nx)] for _ in range(n)]
        case["noise"] = draw(st.sampled_from([0.1, 0.5, 1.0, 2.0]))
        # the data may come from a VAR with an intercept although the model has none (and vice versa)
        case["generating_intercept"] = draw(st.booleans())
        if case["generating_intercept"] and not intercept:
            case["c"] = [draw(_hundredths(-200, 200)) for _ in range(n)]
    if kind in ("ols", "priors"):
        L = p + T
        k = draw(st.sampled_from([0, 0, 1, 2, 4])) if kind == "ols" else draw(st.sampled_from([0, 0, 0, 1, 2]))
        case["nan_cells"] = sorted(
            [draw(st.integers(0, nv - 1)), draw(st.integers(0, n + nx - 1)), draw(st.integers(0, L - 1))]
            for _ in range(k)
        )
    else:
        case["nan_cells"] = []
    # the same object has been estimated on other data before, and asked for its eigenvalues and moments in between
    case["reestimate"] = draw(st.sampled_from([0, 0, 1, 2]))
    return case


def _ols_case():
    return _base_case("ols")


def _noise_free_case():
    return _base_case("noise_free")


def _simulate_case():
    return _base_case("simulate")


@st.composite
def _prior_spec(draw, n):
    kind = draw(st.sampled_from(["minnesota", "mean"]))
    spec = {"kind": kind}
    w = draw(st.sampled_from([0.3, 1.0, 3.0, 10.0]))
    if draw(st.booleans()):
        spec["mu"] = w
    else:
        spec["mu2"] = w * w
    if kind == "minnesota":
        spec["rho"] = draw(st.one_of(
            st.sampled_from([0.0, 1.0, 0.5]),
            st.lists(st.sampled_from([0.0, 1.0, 0.5, 0.9]), min_size=n, max_size=n),
        ))
        spec["kappa"] = draw(st.sampled_from([0, 1, 2]))
    else:
        spec["mean"] = draw(st.one_of(
            _hundredths(-300, 300),
            st.lists(_hundredths(-300, 300), min_size=n, max_size=n),
        ))
    return spec


@st.composite
def _prior_case(draw):
    case = draw(_base_case("priors"))
    k = draw(st.sampled_from([1, 1, 2]))
    case["priors"] = [draw(_prior_spec(case["n"])) for _ in range(k)]
    case["priors_arg"] = draw(st.sampled_from(["tuple", "list"])) if k > 1 else draw(st.sampled_from(["single", "tuple"]))
    # scale of the data per endogenous variable, so that the per-variable scaling of the Minnesota dummies matters
    case["yscale"] = [draw(st.sampled_from([1.0, 0.2, 5.0])) for _ in range(case["n"])]
    return case


def _classify(case):
    labels = [
        f"n{case['n']}", f"order{case['p']}", f"nx{case['nx']}",
        "intercept" if case["intercept"] else "no_intercept",
        "dof" if case["dof"] else "no_dof",
        f"nv{case['nv']}" + ("" if case["nv"] == 1 else "_" + case["nv_via"]),
        f"nan_cells{len(case['nan_cells'])}",
        f"noise{case['noise']}",
    ]
    if case["kind"] == "priors":
        kinds = sorted(p["kind"] for p in case["priors"])
        labels.append("prior_" + "+".join(kinds))
    if case.get("reestimate"):
        labels.append("reestimated_object" + ("_copy" if case["reestimate"] == 2 else ""))
    nontrivial = case["p"] >= 2 or case["nx"] >= 1 or len(case["nan_cells"]) > 0
    return nontrivial, labels


# ---------------------------------------------------------------------------
# harness-side data and reference computations
# ---------------------------------------------------------------------------

def _companion(A, n, p):
    np = _np()
    m = n * p
    Tm = np.zeros((m, m))
    Tm[:n, :] = A
    for i in range(n * (p - 1)):
        Tm[n + i, i] = 1.0
    return Tm


def _generating_var(case):
    """Stable generating VAR from the raw drawn coefficients: A_i <- A_i * s**i scales all eigenvalues by s."""
    np = _np()
    n, p = case["n"], case["p"]
    A_raw = [np.array(a, dtype=float).reshape(n, n) for a in case["A_raw"]]
    comp = _companion(np.hstack(A_raw), n, p)
    rho = float(np.max(np.abs(np.linalg.eigvals(comp))))
    s = case["radius"] / rho if rho > case["radius"] else 1.0
    A = [A_raw[i] * s ** (i + 1) for i in range(p)]
    B = np.array(case["B"], dtype=float).reshape(n, case["nx"])
    c = np.array(case["c"], dtype=float) if case["generating_intercept"] else np.zeros(n)
    return A, B, c


def _make_data(case):
    """Returns y (nv, n, L), x (nv, nx, L) over the estimation window (initial condition + span), with NaN cells."""
    np = _np()
    n, p, nx, T, nv = case["n"], case["p"], case["nx"], case["T"], case["nv"]
    A, B, c = _generating_var(case)
    L = p + T
    ys, xs = [], []
    for v in range(nv):
        rng = np.random.default_rng([case["seed"], v])
        y = np.zeros((n, L))
        y[:, :p] = rng.standard_normal((n, p)) + c.reshape(-1, 1)
        x = rng.standard_normal((nx, L)) + 0.5
        e = rng.standard_normal((n, L)) * case["noise"]
        for t in range(p, L):
            acc = c + e[:, t]
            if nx:
                acc = acc + B @ x[:, t]
            for i in range(p):
                acc = acc + A[i] @ y[:, t - 1 - i]
            y[:, t] = acc
        if case.get("yscale"):
            y = y * np.array(case["yscale"], dtype=float).reshape(-1, 1)
        ys.append(y)
        xs.append(x)
    y = np.array(ys)
    x = np.array(xs).reshape(nv, nx, L)
    for v, j, t in case["nan_cells"]:
        if j < n:
            y[v, j, t] = np.nan
        else:
            x[v, j - n, t] = np.nan
    return y, x


def _padding(case, v, nrows, width, side):
    np = _np()
    rng = np.random.default_rng([case["seed"], v, 7 + side])
    return rng.standard_normal((nrows, width)) * 3.0 + 1.0


def _build_db(ir, case, y, x):
    """Databox over pad_before + initial condition + span + pad_after; returns (db, first_period_of_window)."""
    np = _np()
    n, nx, nv = case["n"], case["nx"], case["nv"]
    before, after = case["pad"]
    first_db = pgen.mk(case["start"])
    db = ir.Databox()
    for j in range(n + nx):
        cols = []
        for v in range(nv):
            core = y[v, j, :] if j < n else x[v, j - n, :]
            left = _padding(case, v, n + nx, before, 0)[j]
            right = _padding(case, v, n + nx, after, 1)[j]
            cols.append(np.concatenate([left, core, right]))
        values = np.array(cols).T            # periods x variants
        name = YNAMES[j] if j < n else XNAMES[j - n]
        db[name] = ir.Series(start=first_db, values=values if nv > 1 else values[:, 0])
    return db, first_db + before


def _regressors(case, yv, xv):
    """Own stacked regressors for one variant: X (K x T), Y (n x T), complete-row mask (T,)."""
    np = _np()
    n, p, nx, T = case["n"], case["p"], case["nx"], case["T"]
    L = p + T
    rows = [yv[:, p - i:L - i] for i in range(1, p + 1)]
    rows.append(xv[:, p:])
    if case["intercept"]:
        rows.append(np.ones((1, T)))
    X = np.vstack(rows)
    Y = yv[:, p:]
    w = np.all(np.isfinite(X), axis=0) & np.all(np.isfinite(Y), axis=0)
    return X, Y, w


def _num_regressors(case):
    return case["n"] * case["p"] + case["nx"] + int(case["intercept"])


def _read_series(series, first, L, nv):
    """Values of an irispie series on L periods from `first` as (L, nv); returns (array, error message)."""
    np = _np()
    out = np.full((L, nv), np.nan)
    try:
        start = series.start
        data = np.asarray(series.get_data(), dtype=float)
    except Exception as exc:  # noqa: BLE001
        return out, f"not a readable series: {type(exc).__name__}: {exc}"
    if start is None or data.size == 0:
        return out, ""
    if data.ndim == 1:
        data = data.reshape(-1, 1)
    if data.ndim != 2 or data.shape[1] not in (1, nv):
        return out, f"series data of shape {data.shape}, expected {nv} variant column(s)"
    off = start - first
    for i in range(data.shape[0]):
        j = off + i
        if 0 <= j < L:
            out[j, :] = data[i, :]
    return out, ""


def _as_list(obj, nv, what, col):
    """Per-variant results: a bare object for a singleton model, a list of length nv otherwise."""
    if nv == 1:
        if isinstance(obj, list) and len(obj) == 1:
            return obj
        return [obj]
    ok = isinstance(obj, (list, tuple)) and len(obj) == nv
    col.check(ok, f"{what}:per_variant_list", lambda: f"{what}: expected a list of {nv} per-variant results, got {type(obj).__name__}")
    if not ok:
        col.done()
    return list(obj)


def _maxabs(a):
    np = _np()
    a = np.asarray(a, dtype=float)
    return float(np.max(np.abs(a))) if a.size else 0.0


def _close(got, ref, rtol, scale, atol=0.0):
    np = _np()
    got = np.asarray(got, dtype=float)
    ref = np.asarray(ref, dtype=float)
    if got.shape != ref.shape:
        return False
    if got.size == 0:
        return True
    d = np.abs(got - ref)
    if not np.all(np.isfinite(d)):
        return False
    return bool(np.max(d) <= atol + rtol * scale)


def _fmt(a):
    np = _np()
    return np.array2string(np.asarray(a), precision=10, max_line_width=200, threshold=60)


# ---------------------------------------------------------------------------
# prior dummy observations (harness's own construction)
# ---------------------------------------------------------------------------

def _mu(spec):
    return spec["mu"] if "mu" in spec else math.sqrt(spec["mu2"])


def _vec(value, n):
    np = _np()
    if isinstance(value, list):
        return np.array(value, dtype=float)
    return np.full(n, float(value))


def _dummy_observations(case, spec, y_std):
    """(lhs n x m, rhs K x m) dummy observations of one prior; y_std is the per-variable scale."""
    np = _np()
    n, p, nx = case["n"], case["p"], case["nx"]
    k = int(case["intercept"])
    mu = _mu(spec)
    if spec["kind"] == "minnesota":
        m = n * p
        rho = _vec(spec["rho"], n)
        sigma = mu * y_std
        lhs = np.zeros((n, m))
        lhs[:, :n] = np.diag(sigma * rho)          # own first lag shrunk towards rho, all other lags towards 0
        lag_diag = np.concatenate([sigma * float(i + 1) ** spec["kappa"] for i in range(p)])
        rhs = np.vstack([np.diag(lag_diag), np.zeros((nx, m)), np.zeros((k, m))])
        return lhs, rhs
    # mean prior: one observation at which every lag equals the prior mean and the intercept regressor is on
    m = k
    mean = _vec(spec["mean"], n)
    lhs = np.tile((mu * mean).reshape(-1, 1), (1, m))
    rhs = np.vstack([np.tile(lhs, (p, 1)), np.zeros((nx, m)), np.full((k, m), mu)])
    return lhs, rhs


def _make_prior_objects(ir, case):
    np = _np()
    objs = []
    for spec in case["priors"]:
        kw = {"mu": spec["mu"]} if "mu" in spec else {"mu2": spec["mu2"]}
        if spec["kind"] == "minnesota":
            rho = spec["rho"]
            objs.append(ir.MinnesotaPriorObs(rho=np.array(rho, dtype=float) if isinstance(rho, list) else rho,
                                             kappa=spec["kappa"], **kw))
        else:
            mean = spec["mean"]
            objs.append(ir.MeanPriorObs(mean=np.array(mean, dtype=float) if isinstance(mean, list) else mean, **kw))
    how = case["priors_arg"]
    if how == "single":
        return objs[0]
    return tuple(objs) if how == "tuple" else list(objs)


# ---------------------------------------------------------------------------
# estimation and its judgement
# ---------------------------------------------------------------------------

def _estimate(ir, case, db, first_win, warm_db=None):
    n, p, nx, T, nv = case["n"], case["p"], case["nx"], case["T"], case["nv"]
    ynames = list(YNAMES[:n])
    xnames = list(XNAMES[:nx])
    ckw = {"order": p, "intercept": case["intercept"]}
    how = case["xnames_arg"]
    if how == "tuple":
        ckw["exogenous_names"] = tuple(xnames)
    elif how == "list":
        ckw["exogenous_names"] = xnames
    elif how == "none":
        ckw["exogenous_names"] = None
    elif how == "empty":
        ckw["exogenous_names"] = ()
    if nv > 1 and case["nv_via"] == "constructor":
        ckw["num_variants"] = nv
    model = api("RedVAR", ir.RedVAR, ynames, **ckw)
    span = ir.Span(first_win + p, first_win + p + T - 1)
    ekw = {"dof_correction": case["dof"]}
    if nv > 1 and case["nv_via"] == "estimate":
        ekw["num_variants"] = nv
    if case["kind"] == "priors":
        ekw["prior_obs"] = _make_prior_objects(ir, case)
    if case.get("target_db"):
        np_ = _np()
        tdb = ir.Databox()
        for j in range(n):
            tdb["res_" + YNAMES[j]] = ir.Series(start=first_win, values=np_.full((p + T, nv), 123.0 + j))
        tdb["bystander_"] = 7
        ekw["target_db"] = tdb
    if warm_db is not None:
        # an earlier estimation of the same object on other data, with every getter that may cache something;
        # nothing of this warm-up is judged and its failures are ignored
        try:
            model.estimate(warm_db, span, **{k: v for k, v in ekw.items() if k != "target_db"})
            for fn in (model.get_eigenvalues, model.get_mean, lambda: model.get_acov(up_to_order=1),
                       model.get_system_matrices, lambda: model.simulate(warm_db, span)):
                try:
                    fn()
                except Exception:  # noqa: BLE001
                    pass
            if case.get("reestimate") == 2:
                model = model.copy()
        except Exception:  # noqa: BLE001
            model = api("RedVAR", ir.RedVAR, ynames, **ckw)
    try:
        out = model.estimate(db, span, **ekw)
    except Exception as exc:  # noqa: BLE001
        # a least-squares problem with fewer complete rows than regressors (missing data) has no unique solution:
        # rejecting it is not a violation; any other exception is
        np = _np()
        K = _num_regressors(case)
        y, x = _make_data(case)
        if case["kind"] != "priors" and any(int(_regressors(case, y[v], x[v])[2].sum()) < K for v in range(nv)):
            raise _Underdetermined(f"{type(exc).__name__}: {exc}") from None
        raise Violation(f"estimate:raises:{type(exc).__name__}", f"{type(exc).__name__}: {exc}"[:1200]) from None
    return model, out, span


class _Underdetermined(Exception):
    pass


def _judge_variant(case, col, v, yv, xv, system, res, fitted_periods, first_win, tagp):
    """Least-squares assertions for one variant.  Returns (judged, A, c, cov) of the *returned* system."""
    np = _np()
    n, p, nx, T = case["n"], case["p"], case["nx"], case["T"]
    K = _num_regressors(case)
    X, Y, w = _regressors(case, yv, xv)
    Tf = int(w.sum())
    # ---- shapes of what came back (harness robustness: shapes before values)
    A, B, c, cov = (getattr(system, nm, None) for nm in ("A", "B", "c", "cov_residuals"))
    ok = col.check(isinstance(A, np.ndarray) and A.shape == (n, n * p), "system:A_shape",
                   lambda: f"variant {v}: A is {type(A).__name__} of shape {getattr(A, 'shape', None)}, expected {(n, n * p)}")
    ok &= col.check(isinstance(B, np.ndarray) and B.shape == (n, nx), "system:B_shape",
                    lambda: f"variant {v}: B is {type(B).__name__} of shape {getattr(B, 'shape', None)}, expected {(n, nx)}")
    if case["intercept"]:
        ok &= col.check(isinstance(c, np.ndarray) and c.shape == (n,), "system:c_shape",
                        lambda: f"variant {v}: c is {type(c).__name__} of shape {getattr(c, 'shape', None)}, expected {(n,)}")
    else:
        ok &= col.check(c is None or (isinstance(c, np.ndarray) and c.shape == (n,) and not np.any(c)), "system:c_without_intercept",
                        lambda: f"variant {v}: model without intercept reports c={c!r}")
    ok &= col.check(isinstance(cov, np.ndarray) and cov.shape == (n, n), "system:cov_shape",
                    lambda: f"variant {v}: cov_residuals has shape {getattr(cov, 'shape', None)}, expected {(n, n)}")
    if not ok:
        return False, None, None, None
    beta_got = np.hstack([A, B] + ([c.reshape(-1, 1)] if case["intercept"] else []))
    c_eff = c
    # ---- is the case judgeable at all (harness-side structures only)
    if Tf < K + 3:
        return False, A, c_eff, cov
    Xf, Yf = X[:, w], Y[:, w]
    # ---- prior dummy observations
    if case["kind"] == "priors":
        xk = Xf[n * p:, :]
        if xk.shape[0]:
            g = np.linalg.lstsq(xk.T, Yf.T, rcond=None)[0].T
            dm = Yf - g @ xk
        else:
            dm = Yf
        y_std = np.sqrt(np.sum(dm * dm, axis=1) / Tf)
        parts = [_dummy_observations(case, spec, y_std) for spec in case["priors"]]
        Xe = np.hstack([Xf] + [r for _, r in parts])
        Ye = np.hstack([Yf] + [l for l, _ in parts])
    else:
        y_std = None
        Xe, Ye = Xf, Yf
    cond = float(np.linalg.cond(Xe))
    if not math.isfinite(cond) or cond > COND_LIMIT:
        return None, A, c_eff, cov
    beta_ref = np.linalg.lstsq(Xe.T, Ye.T, rcond=None)[0].T
    bscale = max(1.0, _maxabs(beta_ref))
    yscale = max(1.0, _maxabs(Yf))
    # ---- coefficients / intercept equal the independent least-squares solution
    good = _close(beta_got, beta_ref, RTOL_COEF, bscale)
    if case["kind"] == "priors":
        # (both readings are evaluated even when the first one is within tolerance: with y_std next to one they nearly
        # coincide, and the later, tighter assertions must use the dummy observations that were actually used)
        # The scale of the dummy observations is not fixed by the property or by any documentation: the estimator
        # computes a per-variable scale y_std for the prior, but PriorObs builds its observations with unit scale.
        # Either reading is accepted; the assertions below then use the matching set of dummy observations.
        parts1 = [_dummy_observations(case, spec, np.ones(n)) for spec in case["priors"]]
        X1 = np.hstack([Xf] + [r for _, r in parts1])
        Y1 = np.hstack([Yf] + [l for l, _ in parts1])
        cond1 = float(np.linalg.cond(X1))
        if not math.isfinite(cond1) or cond1 > COND_LIMIT:
            return None, A, c_eff, cov          # the second admissible reading cannot be judged: neither can the case
        if True:
            beta1 = np.linalg.lstsq(X1.T, Y1.T, rcond=None)[0].T
            if _close(beta_got, beta1, RTOL_COEF, max(1.0, _maxabs(beta1))) and (not good or _maxabs(beta_got - beta1) < _maxabs(beta_got - beta_ref)):
                Xe, Ye, beta_ref, good = X1, Y1, beta1, True
                bscale = max(1.0, _maxabs(beta_ref))
    col.check(good, f"{tagp}:coefficients",
              lambda: f"variant {v}: [A B c] differs from lstsq over the {Tf} complete rows (cond {cond:.3g}): max diff "
                      f"{_maxabs(beta_got - beta_ref):.3g}; got {_fmt(beta_got)} expected {_fmt(beta_ref)}")
    # ---- stored residuals on the fitted periods
    U = res[p:, :].T                      # n x T, from the output databox
    Uf = U[:, w]
    fin = bool(np.all(np.isfinite(Uf)))
    col.check(fin, f"{tagp}:residual_missing_on_fitted_period",
              lambda: f"variant {v}: residual series has missing values on complete-data periods (columns {np.where(~np.all(np.isfinite(Uf), axis=0))[0][:5]} of the fitted rows)")
    if fin:
        # fitted equation + stored residual reproduces every fitted observation (returned matrices, returned residuals)
        recon = beta_got @ Xf + Uf
        col.check(_close(recon, Yf, 1e-9, yscale * max(1.0, bscale)), f"{tagp}:fitted_plus_residual",
                  lambda: f"variant {v}: A*y1+B*x+c+res differs from the data by {_maxabs(recon - Yf):.3g} on a fitted period")
        # normal equations on exactly the fitted rows (incl. dummy observations when present)
        if case["kind"] == "priors":
            Ue = np.hstack([Uf, Ye[:, Tf:] - beta_got @ Xe[:, Tf:]])
        else:
            Ue = Uf
        ne = Xe @ Ue.T
        ne_scale = float(np.linalg.norm(Xe)) * (float(np.linalg.norm(Ye)) + float(np.linalg.norm(Xe)) * float(np.linalg.norm(beta_ref)))
        col.check(_close(ne, np.zeros_like(ne), 1e-9, max(ne_scale, 1.0)), f"{tagp}:normal_equations",
                  lambda: f"variant {v}: X u' = {_fmt(ne)} on the fitted rows (scale {ne_scale:.3g})")
        # residual covariance = (dof corrected) second moment of the stored residuals
        denom = Tf - (K if case["dof"] else 0)
        cov_ref = Uf @ Uf.T / denom
        cscale = max(_maxabs(cov_ref), 1e-300)
        good_cov = _close(cov, cov_ref, 1e-9, cscale, atol=1e-18 * yscale ** 2)
        if not good_cov and case["dof"]:
            # "degrees-of-freedom corrected" is not defined by the property or any docstring: the implementation
            # subtracts the number of non-endogenous regressors (exogenous + intercept); the textbook correction
            # subtracts all K regressors per equation.  Both divisors are accepted.
            d2 = Tf - (case["nx"] + int(case["intercept"]))
            alt = Uf @ Uf.T / d2 if d2 > 0 else None
            if alt is not None and _close(cov, alt, 1e-9, max(_maxabs(alt), 1e-300), atol=1e-18 * yscale ** 2):
                good_cov = True
        col.check(good_cov, "cov:second_moment",
                  lambda: f"variant {v}: cov_residuals {_fmt(cov)} is not u u'/{denom} = {_fmt(cov_ref)} (dof_correction={case['dof']}, T={Tf}, K={K})")
        col.check(_close(cov, cov.T, 0.0, 1.0, atol=0.0), "cov:symmetric", lambda: f"variant {v}: cov_residuals not symmetric")
    # ---- fitted periods are exactly the complete periods
    if fitted_periods is not None:
        try:
            got_idx = sorted(int(per - first_win) - p for per in fitted_periods)
        except Exception:  # noqa: BLE001
            got_idx = None
        exp_idx = [int(i) for i in np.where(w)[0]]
        col.check(got_idx == exp_idx, f"{tagp}:fitted_periods",
                  lambda: f"variant {v}: fitted periods (offsets in span) {got_idx} differ from the complete rows {exp_idx}")
    # ---- noise-free data return the generating VAR
    if case["kind"] == "noise_free":
        Ag, Bg, cg = _generating_var(case)
        beta_gen = np.hstack(Ag + [Bg] + ([cg.reshape(-1, 1)] if case["intercept"] else []))
        col.check(_close(beta_got, beta_gen, RTOL_COEF, max(1.0, _maxabs(beta_gen))), "noise_free:returns_generating_var",
                  lambda: f"variant {v}: estimated [A B c]={_fmt(beta_got)} generating {_fmt(beta_gen)} (cond {cond:.3g})")
        if fin:
            col.check(_maxabs(Uf) <= 1e-8 * yscale, "noise_free:residuals_zero",
                      lambda: f"variant {v}: residuals up to {_maxabs(Uf):.3g} on noise-free data")
    return True, A, c_eff, cov


def _judge_moments(case, col, v, A, c, cov, mean_got, eig_got, acov_got):
    """Mean, eigenvalues, autocovariances against the harness's own companion form of the returned matrices."""
    np = _np()
    n, p = case["n"], case["p"]
    m = n * p
    labels = []
    if not (np.all(np.isfinite(A)) and np.all(np.isfinite(cov)) and (c is None or np.all(np.isfinite(c)))):
        return ["moments_skipped_nonfinite_system"]
    Tm = _companion(A, n, p)
    Km = np.zeros(m)
    if c is not None:
        Km[:n] = c
    eig_ref = np.linalg.eigvals(Tm)
    rho = float(np.max(np.abs(eig_ref)))
    # ---- eigenvalues
    try:
        eg = np.array([complex(z) for z in eig_got], dtype=complex)
    except Exception:  # noqa: BLE001
        eg = None
    ok = col.check(eg is not None and eg.shape == (m,), "eigenvalues:count",
                   lambda: f"variant {v}: get_eigenvalues returned {eig_got!r}, expected {m} numbers")
    if ok:
        tn = max(1.0, float(np.linalg.norm(Tm, 2)))
        smin = [float(np.linalg.svd(Tm - z * np.eye(m), compute_uv=False)[-1]) for z in eg]
        col.check(max(smin) <= 1e-9 * tn, "eigenvalues:not_an_eigenvalue",
                  lambda: f"variant {v}: reported eigenvalue {eg[int(np.argmax(smin))]!r}: smallest singular value of T-zI is {max(smin):.3g}")
        col.check(abs(np.sum(eg) - np.trace(Tm)) <= 1e-9 * tn * m, "eigenvalues:trace",
                  lambda: f"variant {v}: eigenvalues sum to {np.sum(eg)!r}, trace of the companion matrix is {np.trace(Tm)!r}")
        # multiset match (loose: multiple eigenvalues are ill-conditioned)
        left = list(eig_ref)
        worst = 0.0
        for z in eg:
            k = int(np.argmin([abs(z - r) for r in left]))
            worst = max(worst, abs(z - left[k]))
            left.pop(k)
        col.check(worst <= 1e-6 * max(1.0, rho), "eigenvalues:multiset",
                  lambda: f"variant {v}: eigenvalues {eg!r} do not match those of the companion matrix {eig_ref!r} (worst {worst:.3g})")
    # ---- mean
    ImT = np.eye(m) - Tm
    if np.linalg.cond(ImT) < 1e6:
        mean_ref = np.linalg.solve(ImT, Km)[:n]
        mg = np.asarray(mean_got, dtype=float) if mean_got is not None else None
        col.check(mg is not None and _close(mg, mean_ref, 1e-8, max(1.0, _maxabs(mean_ref))), "mean:companion",
                  lambda: f"variant {v}: get_mean {mean_got!r}, companion form gives {_fmt(mean_ref)}")
        labels.append("mean_checked")
    else:
        labels.append("mean_skipped_near_unit_root")
    # ---- autocovariances
    q = case["up_to_order"]
    if acov_got is not None:
        Sig = np.zeros((m, m))
        Sig[:n, :n] = cov
        Om = np.linalg.solve(np.eye(m * m) - np.kron(Tm, Tm), Sig.reshape(-1)).reshape(m, m)
        ok = col.check(isinstance(acov_got, (tuple, list)) and len(acov_got) == q + 1, "acov:count",
                       lambda: f"variant {v}: get_acov(up_to_order={q}) returned {len(acov_got) if hasattr(acov_got, '__len__') else acov_got!r} matrices")
        if ok:
            sc = max(_maxabs(Om), 1e-300)
            for i in range(q + 1):
                ref_i = Om[:n, :n]
                gi = acov_got[i]
                col.check(_close(gi, ref_i, 1e-8, sc, atol=1e-20), f"acov:order{min(i, 1)}",
                          lambda i=i, gi=gi, ref_i=ref_i: f"variant {v}: acov[{i}] = {_fmt(gi)}, companion form (own Lyapunov solve) gives {_fmt(ref_i)}")
                Om = Tm @ Om
        labels.append("acov_checked")
    else:
        labels.append("acov_skipped_radius_gt_0.97")
    return labels


def _run(case, want_simulate=False):
    ir = _ir()
    np = _np()
    col = Collector()
    n, p, nx, T, nv = case["n"], case["p"], case["nx"], case["T"], case["nv"]
    y, x = _make_data(case)
    db, first_win = _build_db(ir, case, y, x)
    warm_db = None
    if case.get("reestimate"):
        # other data of the same shape: every series rescaled period by period and shifted (missing cells stay missing)
        wave = 1.0 + 0.5 * np.sin(0.9 * np.arange(y.shape[-1]))
        warm_db, _ = _build_db(ir, case, y * wave + 0.25, x)
    try:
        model, out, span = _estimate(ir, case, db, first_win, warm_db=warm_db)
    except _Underdetermined:
        return {"labels": ["rejected_fewer_complete_rows_than_regressors"], "nontrivial": False}
    L = p + T
    tagp = "prior" if case["kind"] == "priors" else "ols"
    # ---- collect what the model reports
    systems = _as_list(api("get_system_matrices", model.get_system_matrices), nv, "get_system_matrices", col)
    col.check(getattr(model, "num_variants", None) == nv, "estimate:num_variants",
              lambda: f"model has {getattr(model, 'num_variants', None)} variants after estimating {nv}")
    variants = getattr(model, "_variants", None)
    # ---- residual series from the output databox
    res = np.full((nv, L, n), np.nan)
    for j in range(n):
        name = "res_" + YNAMES[j]
        try:
            s = out[name]
        except Exception:  # noqa: BLE001
            col.fail("estimate:residual_series_absent", f"output databox has no {name!r}; names {sorted(out.keys())}")
            col.done()
        arr, err = _read_series(s, first_win, L, nv)
        if err:
            col.fail("estimate:residual_series_shape", f"{name}: {err}")
            col.done()
        res[:, :, j] = arr.T
    labels = []
    judged_any = False
    returned = []
    for v in range(nv):
        fp = None
        if isinstance(variants, list) and len(variants) == nv and hasattr(variants[v], "fitted_periods"):
            fp = variants[v].fitted_periods
        judged, A, c, cov = _judge_variant(case, col, v, y[v], x[v], systems[v], res[v], fp, first_win, tagp)
        if judged is None:
            labels.append("skipped_ill_conditioned")
        elif judged is False:
            labels.append("skipped_too_few_rows_or_bad_shape")
        else:
            judged_any = True
            if not bool(np.all(_regressors(case, y[v], x[v])[2])):
                labels.append("rows_dropped_for_missing_data")
        returned.append((A, c, cov))
    # ---- moments of the returned systems (get_acov evaluates every variant, so all of them must be well inside the unit circle)
    usable = all(A is not None and np.all(np.isfinite(A)) and np.all(np.isfinite(cov)) and (c is None or np.all(np.isfinite(c)))
                 for A, c, cov in returned)
    if usable:
        means = _as_list(api("get_mean", model.get_mean), nv, "get_mean", col)
        eigs = _as_list(api("get_eigenvalues", model.get_eigenvalues), nv, "get_eigenvalues", col)
        rhos = [float(np.max(np.abs(np.linalg.eigvals(_companion(A, n, p))))) for A, _, _ in returned]
        acovs = [None] * nv
        if max(rhos) <= 0.97:
            acovs = _as_list(api("get_acov", model.get_acov, up_to_order=case["up_to_order"]), nv, "get_acov", col)
        for v, (A, c, cov) in enumerate(returned):
            labels.extend(_judge_moments(case, col, v, A, c, cov, means[v], eigs[v], acovs[v]))
    else:
        labels.append("moments_skipped_nonfinite_system")
    # ---- simulate over the estimation span with the estimated residuals
    if want_simulate and judged_any:
        via = case.get("sim_db", "output")
        if via == "output":
            sim_in = out
        else:
            # the user's own databox plus the estimated residual series
            sim_in = db.copy()
            for j in range(n):
                sim_in["res_" + YNAMES[j]] = out["res_" + YNAMES[j]]
        sim = api("simulate", model.simulate, sim_in, span)
        cls = "exog" if nx else "noexog"
        for j in range(n):
            try:
                s = sim[YNAMES[j]]
            except Exception:  # noqa: BLE001
                col.fail("simulate:series_absent", f"simulated databox has no {YNAMES[j]!r}")
                continue
            arr, err = _read_series(s, first_win, L, nv)
            if err:
                col.fail("simulate:series_shape", f"{YNAMES[j]}: {err}")
                continue
            for v in range(nv):
                ref = y[v, j, :]
                sc = max(1.0, _maxabs(y[v]))
                got = arr[:, v]
                bad = ~(np.abs(got - ref) <= 1e-8 * sc)
                if np.any(bad[:p]):
                    col.fail(f"simulate:initial_condition_changed:{cls}",
                             f"variant {v} {YNAMES[j]}: initial-condition period {int(np.where(bad[:p])[0][0])} reads {got[:p].tolist()!r}, data {ref[:p].tolist()!r}")
                if np.any(bad[p:]):
                    t = int(np.where(bad[p:])[0][0])
                    col.fail(f"simulate:reproduces_data:{cls}",
                             f"variant {v} {YNAMES[j]}: order {p}, first difference at span period {t}: simulated {float(got[p + t])!r}, data {float(ref[p + t])!r} "
                             f"(max abs diff {float(np.nanmax(np.abs(got[p:] - ref[p:]))):.3g})")
        labels.append("simulate_checked")
    col.done()
    return {"labels": sorted(set(labels)), "nontrivial": judged_any}


def _check_ols(case):
    return _run(case)


def _check_noise_free(case):
    return _run(case)


def _check_priors(case):
    return _run(case)


def _check_simulate(case):
    return _run(case, want_simulate=True)


@st.composite
def _simulate_case_full(draw):
    case = draw(_base_case("simulate"))
    case["sim_db"] = draw(st.sampled_from(["output", "input_plus_residuals"]))
    return case


# ---------------------------------------------------------------------------
# known-finding matchers (for known_findings.json entries, by bucket)
# ---------------------------------------------------------------------------

def _bucket_matcher(prefix, pred=None):
    def fn(subcheck, case, bucket, message):
        return bucket.startswith(prefix) and (pred is None or pred(case))
    return fn


FINDING_MATCHERS = {
    "no_intercept_attribute_error": _bucket_matcher("estimate:raises:AttributeError", lambda c: not c["intercept"]),
    "simulate_order_ge2": _bucket_matcher("simulate:", lambda c: c["p"] >= 2),
    "simulate_order_ge2_exogenous": _bucket_matcher("simulate:", lambda c: c["p"] >= 2 and c["nx"] >= 1),
    "dof_counts_only_exogenous_and_intercept": _bucket_matcher("cov:dof_counts_only_exogenous_and_intercept"),
    "minnesota_scale_ignored": _bucket_matcher("prior:minnesota_scale_ignored"),
}


SUBCHECKS = [
    HypSub("ols", _ols_case, _check_ols, _classify, budget={"quick": 3200, "thorough": 60000}),
    HypSub("noise_free", _noise_free_case, _check_noise_free, _classify, budget={"quick": 800, "thorough": 16000}),
    HypSub("simulate", _simulate_case_full, _check_simulate, _classify, budget={"quick": 1600, "thorough": 32000}),
    HypSub("priors", _prior_case, _check_priors, _classify, budget={"quick": 1600, "thorough": 32000}),
]
