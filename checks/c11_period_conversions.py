"""
C11 - Period conversions round-trip; frequency conversion preserves containment.

Oracle: round trips through every string / tuple / date representation and
vlib.refcal (datetime/calendar) for the containing target-frequency period.
"""

import datetime as dt

from hypothesis import strategies as st

from vlib import refcal, pgen
from vlib.runner import HypSub, EnumSub, Violation, Collector, api

PROPERTY = "C11"

RULE = (
    "enum_regular/enum_daily/enum_integer: every period of the enumerated range (all years 1..9999 in the thorough "
    "tier, boundary and recent years in quick) x positions start/middle/end x every target calendar frequency; each "
    "enumerated period is a distinct non-trivial case (round trips of six representations and containment of every "
    "conversion are compared with datetime/calendar); hyp_pairs: Hypothesis pairs of nearby periods for monotonicity "
    "and batch conversion (lists, tuples, generators and iterators of strings), non-trivial iff the pair straddles a month end / leap day / year boundary"
)

ASSUMPTIONS = [
    "only strings the library itself produces are required to parse back",
    "years 1..9999 (datetime range)",
    "'middle' is the library's documented mid-period day; it is required to lie inside the source period and the target must contain it",
]

POSITIONS = ("start", "middle", "end")
_CTOR = {1: "yy", 2: "hh", 4: "qq", 12: "mm"}


def _ir():
    import irispie as ir
    return ir


def _same(p, q):
    """Equality that never raises: same class, same position."""
    return type(p) is type(q) and p == q


def _roundtrips(p, f, col, ir, tag, where):
    F = ir.Frequency(f)
    s = api(f"{tag}:to_sdmx_string", p.to_sdmx_string)
    col.check(str(p) == s, f"{tag}:str_is_sdmx", where)
    q = api(f"{tag}:from_sdmx_string_with_freq", ir.Period.from_sdmx_string, s, F)
    col.check(_same(p, q), f"{tag}:sdmx_roundtrip_with_freq", lambda: f"{where}: {s!r} -> {q!r}")
    q = api(f"{tag}:from_sdmx_string_autodetect", ir.Period.from_sdmx_string, s)
    col.check(_same(p, q), f"{tag}:sdmx_roundtrip_autodetect", lambda: f"{where}: {s!r} -> {q!r}")
    fd = api(f"{tag}:frequency_from_sdmx_string", ir.Frequency.from_sdmx_string, s)
    col.check(fd == F, f"{tag}:sdmx_frequency_detect", lambda: f"{where}: {s!r} -> {fd!r}")
    q = api(f"{tag}:periods_from_sdmx_strings", ir.periods_from_sdmx_strings, [s, s])
    col.check(len(q) == 2 and _same(p, q[0]) and _same(p, q[1]), f"{tag}:periods_from_sdmx_strings", lambda: f"{where}: {q!r}")
    q = api(f"{tag}:periods_from_sdmx_strings_with_freq", ir.periods_from_sdmx_strings, (s,), F)
    col.check(len(q) == 1 and _same(p, q[0]), f"{tag}:periods_from_sdmx_strings", lambda: f"{where}: {q!r}")
    # (the argument is declared Iterable[str]: a one-shot iterator is the same request as a list)
    q = api(f"{tag}:periods_from_sdmx_strings_iterator", ir.periods_from_sdmx_strings, (x for x in (s,)))
    col.check(len(q) == 1 and _same(p, q[0]), f"{tag}:periods_from_sdmx_strings_iterator", lambda: f"{where}: generator of one string -> {q!r}")
    # repr
    r = repr(p)
    q = api(f"{tag}:eval_repr", eval, r, {"yy": ir.yy, "hh": ir.hh, "qq": ir.qq, "mm": ir.mm, "dd": ir.dd, "ii": ir.ii})
    col.check(_same(p, q), f"{tag}:repr_roundtrip", lambda: f"{where}: {r} -> {q!r}")
    if f == 0:
        return
    ys = api(f"{tag}:to_year_segment", p.to_year_segment)
    q = api(f"{tag}:from_year_segment", ir.Period.from_year_segment, F, *ys)
    col.check(_same(p, q), f"{tag}:year_segment_roundtrip", lambda: f"{where}: {ys} -> {q!r}")
    for pos in POSITIONS:
        ymd = api(f"{tag}:to_ymd", p.to_ymd, position=pos)
        q = api(f"{tag}:from_ymd", ir.Period.from_ymd, F, *ymd)
        col.check(_same(p, q), f"{tag}:ymd_roundtrip_{pos}", lambda: f"{where}: {ymd} -> {q!r}")
        iso = api(f"{tag}:to_iso_string", p.to_iso_string, position=pos)
        col.check(iso == f"{ymd[0]:04d}-{ymd[1]:02d}-{ymd[2]:02d}", f"{tag}:iso_format", lambda: f"{where}: {iso!r} vs {ymd}")
        q = api(f"{tag}:from_iso_string", ir.Period.from_iso_string, iso, F)
        col.check(_same(p, q), f"{tag}:iso_roundtrip_{pos}", lambda: f"{where}: {iso} -> {q!r}")
        q = api(f"{tag}:periods_from_iso_strings", ir.periods_from_iso_strings, [iso], frequency=F)
        col.check(len(q) == 1 and _same(p, q[0]), f"{tag}:periods_from_iso_strings_{pos}", lambda: f"{where}: {q!r}")
        d = api(f"{tag}:to_python_date", p.to_python_date, position=pos)
        col.check(d == dt.date(*ymd), f"{tag}:python_date_is_ymd", lambda: f"{where}: {d} vs {ymd}")
        q = api(f"{tag}:from_python_date", ir.Period.from_python_date, d, F)
        col.check(_same(p, q), f"{tag}:python_date_roundtrip_{pos}", lambda: f"{where}: {d} -> {q!r}")
        q = api(f"{tag}:periods_from_python_dates", ir.periods_from_python_dates, [d], frequency=F)
        col.check(len(q) == 1 and _same(p, q[0]), f"{tag}:periods_from_python_dates_{pos}", lambda: f"{where}: {q!r}")


def _mk_regular(ir, f, y, s):
    c = getattr(ir, _CTOR[f])
    return c(y) if f == 1 else c(y, s)


def _conversions_regular(p, f, y, s, col, ir, tag, where):
    rs, re_ = refcal.start_day(f, y, s), refcal.end_day(f, y, s)
    for pos in POSITIONS:
        d = api(f"{tag}:to_python_date", p.to_python_date, position=pos)
        if pos == "start":
            col.check(d == rs, f"{tag}:position_start_day", lambda: f"{where}: {d} vs {rs}")
        elif pos == "end":
            col.check(d == re_, f"{tag}:position_end_day", lambda: f"{where}: {d} vs {re_}")
        else:
            col.check(rs <= d <= re_, f"{tag}:position_middle_inside", lambda: f"{where}: {d}")
        ref_day = {"start": rs, "end": re_}.get(pos, d)
        for g in refcal.CALENDAR:
            G = ir.Frequency(g)
            gtag = f"{tag}->{refcal.LETTER[g]}"
            q = api(f"{gtag}:refrequent", p.refrequent, G, position=pos)
            q2 = api(f"{gtag}:refrequent_function", ir.dates.refrequent, p, G, position=pos)
            col.check(_same(q, q2), f"{gtag}:refrequent_forms_agree", lambda: f"{where} {pos}")
            col.check(q.frequency == g, f"{gtag}:target_frequency", lambda: f"{where} {pos}: {q!r}")
            if g == 365:
                col.check(q.to_python_date() == ref_day, f"{gtag}:contains_position", lambda: f"{where} {pos}: {q!r} vs {ref_day}")
                q3 = api(f"{gtag}:to_daily", p.to_daily, position=pos)
                col.check(_same(q, q3), f"{gtag}:to_daily_agrees", lambda: f"{where} {pos}: {q3!r}")
            else:
                ey, es = refcal.containing(g, ref_day)
                col.check((q.year, q.segment) == (ey, es), f"{gtag}:contains_position",
                          lambda: f"{where} {pos}: {q!r} expected {refcal.sdmx_regular(g, ey, es)}")
            if g == f:
                col.check(_same(q, p), f"{gtag}:identity", lambda: f"{where} {pos}: {q!r}")
            if g != 365 and g < f:
                # coarser: must contain the whole source period, for every position
                qs, qe = q.to_python_date(position="start"), q.to_python_date(position="end")
                col.check(qs <= rs and re_ <= qe, f"{gtag}:coarser_contains_source", lambda: f"{where} {pos}: {q!r}")
            if g == 365 or g > f:
                # finer: inside the source, and back to the source from any position
                for pos2 in POSITIONS:
                    back = api(f"{gtag}:refrequent_back", q.refrequent, ir.Frequency(f), position=pos2)
                    col.check(_same(back, p), f"{gtag}:fine_to_coarse_returns_source",
                              lambda: f"{where} {pos}->{pos2}: {q!r} -> {back!r}")


def _check_regular(case):
    ir = _ir()
    col = Collector()
    f, y, s = case["f"], case["y"], case["s"]
    tag = refcal.LETTER[f]
    p = _mk_regular(ir, f, y, s)
    where = refcal.sdmx_regular(f, y, s)
    _roundtrips(p, f, col, ir, tag, where)
    _conversions_regular(p, f, y, s, col, ir, tag, where)
    col.done()


def _check_daily(case):
    ir = _ir()
    col = Collector()
    d = dt.date.fromordinal(case["o"])
    p = ir.dd(d.year, d.month, d.day)
    where = d.isoformat()
    _roundtrips(p, 365, col, ir, "D", where)
    for g in refcal.CALENDAR:
        G = ir.Frequency(g)
        gtag = f"D->{refcal.LETTER[g]}"
        for pos in POSITIONS:
            q = api(f"{gtag}:refrequent", p.refrequent, G, position=pos)
            if g == 365:
                col.check(_same(q, p), f"{gtag}:identity", lambda: f"{where}: {q!r}")
                continue
            ey, es = refcal.containing(g, d)
            col.check(q.frequency == g and (q.year, q.segment) == (ey, es), f"{gtag}:contains_position",
                      lambda: f"{where} {pos}: {q!r} expected {refcal.sdmx_regular(g, ey, es)}")
            qs, qe = q.to_python_date(position="start"), q.to_python_date(position="end")
            col.check(qs <= d <= qe, f"{gtag}:coarser_contains_source", lambda: f"{where}: {q!r}")
        if g != 365:
            q = api(f"{gtag}:refrequent_default", p.refrequent, G)
            col.check((q.year, q.segment) == refcal.containing(g, d), f"{gtag}:contains_position_default", lambda: f"{where}: {q!r}")
    col.check(_same(p.to_daily(), p), "D:to_daily_identity", where)
    col.done()


def _check_integer(case):
    ir = _ir()
    col = Collector()
    p = ir.ii(case["n"])
    _roundtrips(p, 0, col, ir, "I", f"ii({case['n']})")
    col.done()


def _run_enum(check, cases, label):
    n = 0
    failures, seen = [], {}
    sample = None
    for case in cases:
        n += 1
        if sample is None:
            sample = case
        try:
            check(case)
        except Violation as v:
            for b, m in v.items:
                if seen.setdefault(b, 0) < 2:
                    seen[b] += 1
                    failures.append((b, m, case))
        except Exception as exc:  # noqa: BLE001
            b = f"{label}:raises:{type(exc).__name__}"
            if seen.setdefault(b, 0) < 2:
                seen[b] += 1
                failures.append((b, f"{case}: {exc}", case))
    return {"evaluations": n, "nontrivial": n, "labels": {label: n}, "samples": [sample] if sample else [], "failures": failures}


QUICK_YEARS = sorted(set(range(1996, 2031)) | {1, 2, 4, 100, 400, 999, 1000, 1600, 1900, 2000, 2100, 9998, 9999})


def _chunks_regular(tier):
    if tier == "quick":
        return [{"f": f, "years": QUICK_YEARS[i::2]} for f in refcal.REGULAR for i in range(2)]
    return [{"f": f, "lo": lo, "hi": min(lo + 500, 10000)} for f in refcal.REGULAR for lo in range(1, 10000, 500)]


def _run_chunk_regular(chunk):
    f = chunk["f"]
    years = chunk["years"] if "years" in chunk else range(chunk["lo"], chunk["hi"])
    return _run_enum(_check_regular, ({"f": f, "y": y, "s": s} for y in years for s in range(1, f + 1)), f"freq_{refcal.LETTER[f]}")


def _chunks_daily(tier):
    if tier == "quick":
        yrs = [(2019, 2022), (2023, 2026), (1999, 2001), (1, 2), (4, 5), (100, 101), (400, 401), (1900, 1901), (2100, 2101), (9999, 10000)]
        return [{"lo": a, "hi": b} for a, b in yrs]
    return [{"lo": lo, "hi": min(lo + 125, 10000)} for lo in range(1, 10000, 125)]


def _run_chunk_daily(chunk):
    lo = dt.date(chunk["lo"], 1, 1).toordinal()
    hi = dt.date(chunk["hi"] - 1, 12, 31).toordinal() + 1
    return _run_enum(_check_daily, ({"f": 365, "o": o} for o in range(lo, hi)), "freq_D")


def _chunks_integer(tier):
    if tier == "quick":
        return [{"lo": -1200, "hi": 1201}]
    return [{"lo": lo, "hi": lo + 2500} for lo in range(-10000, 10001, 2500)]


def _run_chunk_integer(chunk):
    return _run_enum(_check_integer, ({"f": 0, "n": n} for n in range(chunk["lo"], chunk["hi"])), "freq_I")


# ---------------------------------------------------------------------------
# Hypothesis: monotonicity of conversion over pairs, large integers
# ---------------------------------------------------------------------------

@st.composite
def _pair_case(draw):
    a = draw(pgen.period_desc(freqs=refcal.CALENDAR, margin_years=2))
    b = pgen.nearby(draw, a, max_dist=draw(st.sampled_from([1, 2, 35, 400])))
    g = draw(st.sampled_from(refcal.CALENDAR))
    pos = draw(st.sampled_from(POSITIONS))
    big = draw(st.integers(-10**12, 10**12))
    return {"a": a, "b": b, "g": g, "pos": pos, "big": big}


def _day_of(pd, which):
    if pd["f"] == 365:
        return dt.date.fromordinal(pd["o"])
    return (refcal.start_day if which == "start" else refcal.end_day)(pd["f"], pd["y"], pd["s"])


def _classify_pair(case):
    a, b = case["a"], case["b"]
    da, db = _day_of(a, "start"), _day_of(b, "start")
    labels = [f"{refcal.LETTER[a['f']]}->{refcal.LETTER[case['g']]}", f"pos_{case['pos']}"]
    boundary = da.year != db.year or da.month != db.month
    leap = any(refcal.is_leap(x.year) and x.month in (2, 3) for x in (da, db))
    if boundary:
        labels.append("straddles_month_or_year")
    if leap:
        labels.append("leap_feb_mar")
    return (boundary or leap) and pgen.ref_index(a) != pgen.ref_index(b), labels


def _check_pair(case):
    ir = _ir()
    col = Collector()
    a, b = pgen.mk(case["a"]), pgen.mk(case["b"])
    G = ir.Frequency(case["g"])
    pos = case["pos"]
    tag = f"{refcal.LETTER[case['a']['f']]}->{refcal.LETTER[case['g']]}"
    qa = api(f"{tag}:refrequent", a.refrequent, G, position=pos)
    qb = api(f"{tag}:refrequent", b.refrequent, G, position=pos)
    ia, ib = pgen.ref_index(case["a"]), pgen.ref_index(case["b"])
    if ia <= ib:
        col.check(qa <= qb, f"{tag}:monotone", lambda: f"{a!r}->{qa!r}, {b!r}->{qb!r}")
    if ia >= ib:
        col.check(qa >= qb, f"{tag}:monotone", lambda: f"{a!r}->{qa!r}, {b!r}->{qb!r}")
    if case["g"] >= case["a"]["f"] or case["g"] == 365:
        # finer or equal: strictly monotone
        col.check((qa < qb) == (ia < ib), f"{tag}:strictly_monotone_to_finer", lambda: f"{a!r}->{qa!r}, {b!r}->{qb!r}")
    # batch conversions agree with single conversions
    strs = [a.to_sdmx_string(), b.to_sdmx_string()]
    back = api(f"{tag}:periods_from_sdmx_strings", ir.periods_from_sdmx_strings, strs)
    col.check(list(back) == [a, b], f"{tag}:batch_sdmx", lambda: f"{strs} -> {back!r}")
    back = api(f"{tag}:periods_from_sdmx_strings_iterator", ir.periods_from_sdmx_strings, iter(strs))
    col.check(list(back) == [a, b], f"{tag}:batch_sdmx_iterator", lambda: f"iter({strs}) -> {back!r}")
    back = api(f"{tag}:periods_from_iso_strings_iterator", ir.periods_from_iso_strings,
               (x.to_iso_string(position=pos) for x in (a, b)), frequency=ir.Frequency(case["a"]["f"]))
    col.check(list(back) == [a, b], f"{tag}:batch_iso_iterator", lambda: f"generator of ISO strings of {a!r}, {b!r} -> {back!r}")
    span = ir.Span(min(a, b), max(a, b))
    if len(span) <= 50:
        sd = api(f"{tag}:span_to_sdmx_strings", span.to_sdmx_strings)
        col.check(list(ir.periods_from_sdmx_strings(sd)) == list(span), f"{tag}:span_sdmx_roundtrip", lambda: f"{span!r}")
        iso = api(f"{tag}:span_to_iso_strings", span.to_iso_strings, position=pos)
        col.check(list(ir.periods_from_iso_strings(iso, frequency=ir.Frequency(case["a"]["f"]))) == list(span),
                  f"{tag}:span_iso_roundtrip", lambda: f"{span!r}")
    # large integer periods
    p = ir.ii(case["big"])
    s = p.to_sdmx_string()
    q = api("I:from_sdmx_string_autodetect", ir.Period.from_sdmx_string, s)
    col.check(_same(p, q), "I:sdmx_roundtrip_autodetect", lambda: f"{s}")
    col.done()


SUBCHECKS = [
    EnumSub("enum_regular", _chunks_regular, _run_chunk_regular, check=_check_regular),
    EnumSub("enum_daily", _chunks_daily, _run_chunk_daily, check=_check_daily),
    EnumSub("enum_integer", _chunks_integer, _run_chunk_integer, check=_check_integer),
    HypSub("hyp_pairs", _pair_case, _check_pair, _classify_pair, budget={"quick": 3000, "thorough": 100000}),
]
