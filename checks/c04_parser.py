"""
C04 - Model source text is translated to equations without changing their meaning.

The generator owns the program: a structured model M (names by kind,
descriptions, log status, equations as ASTs, loop families built from one
template) is drawn first; a *rendering recipe* drawn independently turns M
into source text using the syntactic alternatives and the macro factorings the
language offers.  The oracle never looks at the text: names/kinds/descriptions/
log status come from M's tables, equation values from the harness's own
expansion (vlib.exprs.subst) and evaluator (vlib.exprs.evaluate).

Debugging aid:  /venv/bin/python -m checks.c04_parser show <replay.json>
"""

import json
import math
import re

from hypothesis import strategies as st

from vlib import exprs as ex
from vlib.runner import HypSub, Collector, Violation, api

PROPERTY = "C04"

RULE = (
    "translate: a structured model M (<=6 equations; scalar equations plus an optional one- or two-level loop family "
    "built from one template with per-token constants, numeric control tokens and an optional per-token override; "
    "expression trees of operator depth <=4 over + - * / ^, unary minus, literals, parameters, variables at shifts "
    "-3..3, log/exp/sqrt, inline loop sums and the pseudo-functions diff diff_log/difflog pct roc mov_sum/movsum "
    "mov_avg/movavg mov_prod/movprod shift with explicit/default shift; optional !! steady variants) is rendered by "
    "two independently drawn recipes (keyword aliases, split and reordered blocks, name separators, descriptions, "
    "{k}/[k]/{+k} shifts, = / :=, whitespace, ... and \\ continuations, % # %! #! line comments, %{ %} #{ #} block "
    "comments, !log-variables listed / !all-but / via name`type + !list(`type), !substitutions, !for (families, "
    "declarations, inline sums, nested, control names ?, ?x, ?(x), tokens literal or from <context>), !if/!else "
    "around blocks, entries, equations and terms and inside !for on the control token, <expr> constants and name "
    "lists); names, kinds, descriptions, log status and the values of every dynamic and steady equation on random "
    "positive data are compared with M and between the two recipes.  preparser_identity: macro-free recipes of "
    "pseudo-function-free models must pass the preparser unchanged up to whitespace, comments and {}->[] .  unsure: "
    "constructs whose status in the language is unclear are injected one at a time; only 'correct' or 'rejected with "
    "an exception' are allowed outcomes.  Non-trivial iff a rendering contains at least one macro construct "
    "(!for, !if, substitution, list, <...>) or a pseudo-function whose argument contains a shifted name"
)

ASSUMPTIONS = [
    "grammar taken from parsers/preparser.py, parsers/models.py and the model files under /repo/tests; only constructs verified to be meant to be accepted are generated in the main class",
    "pseudo-function arguments in the main class stay within the documented pattern: no comma, at most one level of parentheses, no nested pseudo-function, no $substitution$ inside; no whitespace between a (pseudo-)function name and its parenthesis",
    "shocks are used at shift 0 only and never inside pseudo-function arguments (a lagged shock is turned into '(e+ant_e)[-1]' by the anticipated-shock insertion and is not supported by the solvers either; recorded as an observation, not judged)",
    "parameter rows of the data array are constant over columns (the pseudo-function expansion shifts parameter names too)",
    "nested powers and negative exponents are always parenthesised (a^b^c has no documented associativity)",
    "substituted sub-expressions are parenthesised at the definition or at the use site unless the position makes it unnecessary (substitution is textual)",
    "descriptions use letters, digits, spaces and . , : ; ( ) - + * / = % # & ' and '...', never \" < > { } ! ` $ ?; comment text never contains braces",
    "order of equations within a kind is accepted in any permutation that matches all values; declaration order within a kind is not judged",
    "descriptions of the automatic ant_/std_ companions are not judged, only their names and kinds",
    "!for control names are chosen so that none is a prefix of another live control name; ?{x}/?[x] upper/lower forms are not generated",
    "Jinja templating, file inclusion, &name steady references, autoswap/preprocessor/postprocessor/steady-autovalues blocks and block attributes are outside the property's list and not generated",
    "equation values are compared with |got-ref| <= 1e-10*|ref| + 1e3*(first-order rounding bound of the reference evaluation); evaluations whose reference is not a finite real or whose bound exceeds 1e-7*max(1,|ref|) are not judged (counted)",
]

RTOL = 1e-10
ERR_K = 1e3

# ---------------------------------------------------------------------------
# Name pools (no name is a prefix-with-token of another; none collides with a
# function, a pseudo-function, ant_/std_ companions or a decoy)
# ---------------------------------------------------------------------------

TVAR_POOL = ["x", "y", "cc", "kap", "pi", "rr", "w", "q", "A", "gdp", "dl_y", "r_n", "Lam", "m2"]
MVAR_POOL = ["obs_y", "obs_pi", "Short", "o3"]
TSHOCK_POOL = ["e", "eps_y", "u1", "sh_a", "eta"]
MSHOCK_POOL = ["me1", "omega", "v_obs"]
PAR_POOL = ["a", "b", "rho", "kappa", "ss_g", "th1", "del", "phi2"]
EXOG_POOL = ["z_ex", "tt", "oil"]
FAM_VAR_STEMS = ["fx", "gy", "hz"]
FAM_SHK_STEMS = ["fe", "ge"]
FAM_PAR_STEMS = ["fp", "gp"]
TOKENS0 = [["a", "b"], ["a", "b", "c"], ["us", "ea"], ["1", "2"], ["1", "2", "3"], ["hh", "f1", "g"], ["2", "4"]]
TOKENS1 = [["1", "2"], ["x", "y"], ["lo", "hi"], ["1", "3"]]
PAT1 = ["{S}_{0}", "{S}{0}", "{S}_{0}x", "{S}_{0}_"]
PAT2 = ["{S}_{0}_{1}", "{S}{0}_{1}", "{S}_{1}_{0}", "{S}_{0}{1}"]

DESC_WORDS = ["Output", "gap", "rate", "of", "change", "in", "real", "price", "level", "5-year", "Q/Q", "Y/Y",
              "shock", "to", "demand", "Persistence", "log", "trend", "inflation", "target", "100%", "#1", "...",
              "A&B", "(pct)", "x = y", "a + b", "it's", "std.", "no. 2;", "c: d", "1,5", "2*k", "\\alpha"]

LITERALS = [1, 2, 3, 4, 10, 100, 0.5, 0.25, 1.5, 0.9, 0.05, 2.75, 0.125, 12.5]
SHIFTS = [0, 0, 0, 0, -1, -1, -1, 1, 1, -2, 2, -3, 3]
PF_SHIFTS = {"chg": [None, None, -1, -2, -4, 1, 2], "mov": [None, None, -2, -3, -1, -4, 2, 3, 1]}


# ---------------------------------------------------------------------------
# Expression generator
# ---------------------------------------------------------------------------

class _Gen:
    """Draws ASTs over a scope.  scope keys: vars (name patterns, shiftable),
    pars, shocks (lists of names), numctl (levels with numeric tokens),
    tabs ([(level, tokens)]), fsums ([spec]), pf (bool), deep (bool)."""

    def __init__(self, draw, scope):
        self.draw = draw
        self.s = scope

    def pick(self, seq):
        return self.draw(st.sampled_from(list(seq)))

    # ---- leaves ----------------------------------------------------------
    def num(self):
        return ["num", self.pick(LITERALS)]

    def var(self, allow_ctl_shift=True):
        name = self.pick(self.s["vars"])
        if allow_ctl_shift and self.s["numctl"] and self.draw(st.integers(0, 5)) == 0:
            return ["var", name, ["ctl", self.pick(self.s["numctl"]), self.pick([-1, -1, 1])]]
        return ["var", name, self.pick(SHIFTS)]

    def leaf(self, in_pf=False):
        kinds = ["var", "var", "var", "num"]
        if self.s["pars"]:
            kinds += ["par", "par"]
        if self.s["shocks"] and not in_pf:
            kinds += ["shock"]
        if self.s["numctl"]:
            kinds += ["ctl"]
        if self.s["tabs"]:
            kinds += ["tab"]
        k = self.pick(kinds)
        if k == "var":
            return self.var()
        if k == "num":
            return self.num()
        if k == "par":
            return ["var", self.pick(self.s["pars"]), 0]
        if k == "shock":
            return ["var", self.pick(self.s["shocks"]), 0]
        if k == "ctl":
            return ["ctl", self.pick(self.s["numctl"])]
        lv, toks = self.pick(self.s["tabs"])
        return ["tab", lv, {t: self.pick(LITERALS) for t in toks}]

    # ---- flat expressions for pseudo-function arguments (<= 1 paren level)
    def atom0(self):
        a = self.leaf(in_pf=True)
        if self.draw(st.integers(0, 5)) == 0:
            return ["pow", a, ["num", self.pick([2, 3, 0.5])]]
        return a

    def prod0(self):
        a = self.atom0()
        if self.draw(st.integers(0, 2)) == 0:
            a = [self.pick(["mul", "mul", "div"]), a, self.atom0()]
        return a

    def sum0(self, pos, force2=False):
        a = self.prod0()
        if not pos and self.draw(st.integers(0, 7)) == 0:
            a = ["neg", a] if a[0] in ("num", "var", "ctl", "tab", "pow") else a
        if force2 or self.draw(st.integers(0, 1)) == 0:
            a = [self.pick(["add"] if pos else ["add", "sub"]), a, self.prod0()]
        return a

    def atom1(self, pos):
        k = self.draw(st.integers(0, 6))
        if k == 0:
            f = self.pick(["exp", "sqrt"] if pos else ["log", "exp", "sqrt"])
            return ["fn", f, self.sum0(True if f != "exp" else pos)]
        if k == 1:
            return self.sum0(pos, force2=True)          # becomes a parenthesised group when used as a factor
        return self.atom0()

    def prod1(self, pos):
        a = self.atom1(pos)
        if self.draw(st.integers(0, 1)) == 0:
            op = self.pick(["mul", "mul", "div"])
            b = self.atom1(True if op == "div" else pos)
            a = [op, a, b]
        return a

    def flat(self, pos):
        a = self.prod1(pos)
        if self.draw(st.integers(0, 2)) == 0:
            a = [self.pick(["add"] if pos else ["add", "sub"]), a, self.prod1(pos)]
        return a

    def pf(self, pos, d):
        names = ["roc", "movsum", "movavg", "movprod", "shift"] if pos else \
            ["diff", "diff", "difflog", "pct", "roc", "movsum", "movavg", "movprod", "shift", "shift"]
        name = self.pick(names)
        argpos = pos or name in ("difflog", "pct", "roc")
        if self.s.get("deep"):
            arg = self.expr(min(d, 2), argpos, in_pf=True)
        else:
            arg = self.flat(argpos)
        k = self.pick(PF_SHIFTS["mov" if name.startswith("mov") else "chg"])
        return ["pf", name, arg, k]

    # ---- general expressions -----------------------------------------------
    def expr(self, d, pos, in_pf=False):
        if d <= 0:
            return self.leaf(in_pf)
        pool = ["leaf", "add", "mul", "mul", "div", "pow", "fn"]
        if not pos:
            pool += ["sub", "sub", "neg"]
        if self.s.get("pf", True) and (not in_pf or self.s.get("deep")):
            pool += ["pf", "pf", "pf"]
        if self.s["fsums"] and not in_pf:
            pool += ["fsum"]
        k = self.pick(pool)
        if k == "leaf":
            return self.leaf(in_pf)
        if k in ("add", "mul"):
            return [k, self.expr(d - 1, pos, in_pf), self.expr(d - 1, pos, in_pf)]
        if k == "sub":
            return ["sub", self.expr(d - 1, False, in_pf), self.expr(d - 1, False, in_pf)]
        if k == "div":
            return ["div", self.expr(d - 1, pos, in_pf), self.expr(d - 1, True, in_pf)]
        if k == "neg":
            return ["neg", self.expr(d - 1, False, in_pf)]
        if k == "pow":
            if self.draw(st.booleans()):
                return ["pow", self.expr(d - 1, pos, in_pf), ["num", self.pick([2, 3, 2, 1])]]
            choices = [["num", 0.5], ["num", 1.5], ["neg", ["num", 1]], ["neg", ["num", 0.5]]]
            if self.s["pars"]:
                choices += [["var", self.pick(self.s["pars"]), 0]] * 2
            return ["pow", self.expr(d - 1, True, in_pf), self.pick(choices)]
        if k == "fn":
            f = self.pick(["exp", "sqrt"] if pos else ["log", "log", "exp", "sqrt"])
            return ["fn", f, self.expr(d - 1, f != "exp" or pos, in_pf)]
        if k == "pf":
            return self.pf(pos, d - 1)
        if k == "fsum":
            return self.fsum(pos)
        raise AssertionError(k)

    def fsum(self, pos):
        spec = self.pick(self.s["fsums"])
        toks = spec["tokens"]
        if spec["kind"] == "names":
            v = ["var", self.pick(spec["patterns"]), self.pick(SHIFTS)]
        else:
            v = ["var", self.pick(self.s["vars"]), ["ctl", 2, -1]]
        k = self.draw(st.integers(0, 3))
        if k == 0 and self.s["pars"]:
            v = ["mul", ["var", self.pick(self.s["pars"]), 0], v]
        elif k == 1 and spec["kind"] == "lags":
            v = ["mul", v, ["pow", self.num(), ["ctl", 2]]]
        elif k == 2:
            v = ["div", v, self.num()]
        elif k == 3 and not pos:
            v = ["sub", v, self.num()]
        sign = "+" if pos else self.pick(["+", "+", "-"])
        return ["fsum", sign, 2, list(toks), v]


def _desc(draw, placeholders=()):
    n = draw(st.integers(0, 4))
    if n == 0:
        return ""
    words = [draw(st.sampled_from(DESC_WORDS)) for _ in range(n)]
    for p in placeholders:
        if draw(st.booleans()):
            words.insert(draw(st.integers(0, len(words))), p)
    return " ".join(words)


def _take(draw, pool, lo, hi):
    n = draw(st.integers(lo, min(hi, len(pool))))
    perm = draw(st.permutations(pool))
    return list(perm[:n])


@st.composite
def model_strategy(draw, allow_pf=True, deep=False):
    # ---- loop family --------------------------------------------------------
    nlev = draw(st.sampled_from([0, 1, 1, 1, 2]))
    fam = None
    if nlev:
        t0 = draw(st.sampled_from(TOKENS0 if nlev == 1 else [t for t in TOKENS0 if len(t) == 2]))
        toks = [list(t0)] + ([list(draw(st.sampled_from(TOKENS1)))] if nlev == 2 else [])
        pat = draw(st.sampled_from(PAT1 if nlev == 1 else PAT2))
        fam = {"tokens": toks, "var": pat.replace("{S}", draw(st.sampled_from(FAM_VAR_STEMS))),
               "var_desc": _desc(draw, ["{0}"] + (["{1}"] if nlev == 2 else [])), "var_log": draw(st.booleans()),
               "shock": None, "par": None}
        if draw(st.booleans()):
            p = draw(st.sampled_from(PAT1)) if draw(st.booleans()) or nlev == 1 else draw(st.sampled_from(PAT2))
            fam["shock"] = {"pat": p.replace("{S}", draw(st.sampled_from(FAM_SHK_STEMS))),
                            "desc": _desc(draw, ["{0}"])}
        if draw(st.booleans()):
            fam["par"] = {"pat": draw(st.sampled_from(PAT1)).replace("{S}", draw(st.sampled_from(FAM_PAR_STEMS))),
                          "desc": _desc(draw, ["{0}"])}
    nfam = 0 if not fam else len(fam["tokens"][0]) * (len(fam["tokens"][1]) if nlev == 2 else 1)
    # ---- scalar quantities ----------------------------------------------------
    nm = draw(st.integers(0, min(2, 5 - nfam)))
    ns = draw(st.integers(1, max(1, min(3, 6 - nfam - nm))))

    def qty(name, loggable):
        q = {"name": name, "desc": _desc(draw)}
        if loggable:
            q["log"] = draw(st.booleans())
        return q
    tvars = [qty(n, True) for n in _take(draw, TVAR_POOL, ns, ns)]
    mvars = [qty(n, True) for n in _take(draw, MVAR_POOL, nm, nm)]
    tshocks = [qty(n, False) for n in _take(draw, TSHOCK_POOL, 0, 2)]
    mshocks = [qty(n, False) for n in _take(draw, MSHOCK_POOL, 0, 1 if nm else 0)]
    pars = [qty(n, False) for n in _take(draw, PAR_POOL, 1, 3)]
    exog = [qty(n, True) for n in _take(draw, EXOG_POOL, 0, 1)]
    if draw(st.integers(0, 3)) == 0:
        for q in pars:
            q["desc"] = ""
    # ---- scopes ------------------------------------------------------------------
    tnames = [q["name"] for q in tvars]
    enames = [q["name"] for q in exog]
    pnames = [q["name"] for q in pars]
    fsums = []
    fam_members = []
    if fam:
        envs = _fam_envs(fam)
        fam_members = [ex.fill_name(fam["var"], e) for e in envs]
        if nlev == 1:
            pats = [fam["var"].replace("{0}", "{2}")]
        else:
            pats = [fam["var"].replace("{0}", "{2}").replace("{1}", t) for t in fam["tokens"][1]]
        fsums.append({"kind": "names", "tokens": fam["tokens"][0], "patterns": pats})
    fsums.append({"kind": "lags", "tokens": draw(st.sampled_from([["1", "2"], ["1", "2", "3"], ["2", "4"]]))})
    use_fsum = draw(st.integers(0, 2)) > 0
    base = {"pars": pnames, "numctl": [], "tabs": [], "fsums": fsums if use_fsum else [], "pf": allow_pf, "deep": deep}
    sc_t = dict(base, vars=tnames + enames + fam_members[:2], shocks=[q["name"] for q in tshocks])
    sc_m = dict(base, vars=tnames + enames + [q["name"] for q in mvars], shocks=[q["name"] for q in mshocks])

    def equation(scope, lhs_name, d):
        g = _Gen(draw, scope)
        k = draw(st.integers(0, 7))
        lhs = ["var", lhs_name, 0]
        if k == 0:
            lhs = ["fn", "log", lhs]
        elif k == 1 and allow_pf:
            lhs = ["pf", draw(st.sampled_from(["diff", "difflog", "roc"])), lhs, draw(st.sampled_from([None, -1, -4]))]
        elif k == 2:
            lhs = ["sub", lhs, g.prod0()]
        eq = {"desc": "", "dyn": [lhs, g.expr(d, False)], "steady": None}
        if draw(st.integers(0, 3)) == 0:
            g2 = _Gen(draw, dict(scope, fsums=[]))
            eq["steady"] = [["var", lhs_name, 0] if draw(st.booleans()) else lhs, g2.expr(min(d, 2), False)]
        return eq
    depth = draw(st.sampled_from([1, 2, 2, 3, 3]))
    items = []
    for q in tvars:
        e = equation(sc_t, q["name"], depth)
        e["desc"] = _desc(draw)
        items.append({"type": "eq", "kind": "t", "eq": e})
    if fam:
        lv_num = [lv for lv, tk in enumerate(fam["tokens"]) if all(t.isdigit() for t in tk)]
        sc_f = dict(base, vars=[fam["var"]] * 2 + tnames + enames,
                    pars=pnames + ([fam["par"]["pat"]] * 2 if fam["par"] else []),
                    shocks=[q["name"] for q in tshocks] + ([fam["shock"]["pat"]] * 3 if fam["shock"] else []),
                    numctl=lv_num, tabs=[(lv, tk) for lv, tk in enumerate(fam["tokens"])] if draw(st.booleans()) else [],
                    fsums=[f for f in (fsums if use_fsum else []) if f["kind"] == "lags"])
        e = equation(sc_f, fam["var"], min(depth, 2))
        e["desc"] = _desc(draw, ["{0}"] + (["{1}"] if nlev == 2 else []))
        item = {"type": "fam", "kind": "t", "eq": e, "override": None}
        if draw(st.integers(0, 2)) == 0:
            envs = _fam_envs(fam)
            env = envs[draw(st.integers(0, len(envs) - 1))]
            sc_o = dict(sc_t, fsums=[])
            if fam["shock"]:
                sc_o["shocks"] = sc_o["shocks"] + [ex.fill_name(fam["shock"]["pat"], env)]
            oe = equation(sc_o, ex.fill_name(fam["var"], env), min(depth, 2))
            oe["desc"] = ex.fill_name(e["desc"], env)
            item["override"] = {"env": {str(k): v for k, v in env.items()}, "eq": oe}
        items.insert(draw(st.integers(0, len(items))), item)
    for q in mvars:
        e = equation(sc_m, q["name"], min(depth, 2))
        e["desc"] = _desc(draw)
        items.append({"type": "eq", "kind": "m", "eq": e})
    return {"tvars": tvars, "mvars": mvars, "tshocks": tshocks, "mshocks": mshocks, "pars": pars, "exog": exog,
            "fam": fam, "items": items}


def _fam_envs(fam):
    t = fam["tokens"]
    if len(t) == 1:
        return [{0: a} for a in t[0]]
    return [{0: a, 1: b} for a in t[0] for b in t[1]]


def _env_int(env):
    return {int(k): v for k, v in env.items()}


# ---------------------------------------------------------------------------
# The harness's own reading of M
# ---------------------------------------------------------------------------

def expand_model(M):
    """Flat tables: names by kind with description/log status, and concrete equations in source order."""
    fam = M["fam"]
    names = {k: [] for k in ("tvars", "mvars", "tshocks", "mshocks", "pars", "exog")}
    for k in names:
        for q in M[k]:
            names[k].append({"name": q["name"], "desc": q["desc"], "log": q.get("log")})
    if fam:
        for env in _fam_envs(fam):
            names["tvars"].append({"name": ex.fill_name(fam["var"], env), "desc": ex.fill_name(fam["var_desc"], env),
                                   "log": fam["var_log"]})
        for key, kind in (("shock", "tshocks"), ("par", "pars")):
            if fam[key]:
                seen = []
                for env in _fam_envs(fam):
                    nm = ex.fill_name(fam[key]["pat"], env)
                    if nm not in seen:
                        seen.append(nm)
                        names[kind].append({"name": nm, "desc": ex.fill_name(fam[key]["desc"], env), "log": None})
    eqs = []
    for it in M["items"]:
        if it["type"] == "eq":
            e = it["eq"]
            eqs.append({"kind": it["kind"], "desc": e["desc"],
                        "dyn": [ex.subst(a, {}) for a in e["dyn"]],
                        "steady": [ex.subst(a, {}) for a in e["steady"]] if e["steady"] else None})
        else:
            for env in _fam_envs(fam):
                e = it["eq"]
                ov = it["override"]
                if ov and _env_int(ov["env"]) == env:
                    e, env_ = ov["eq"], {}
                else:
                    env_ = env
                eqs.append({"kind": "t", "desc": ex.fill_name(e["desc"], env_),
                            "dyn": [ex.subst(a, env_) for a in e["dyn"]],
                            "steady": [ex.subst(a, env_) for a in e["steady"]] if e["steady"] else None})
    return {"names": names, "eqs": eqs}
