"""
C04 - Model source text is translated to equations without changing their meaning.

The generator owns the program: a structured model M (names by kind,
descriptions, log status, equations as ASTs, loop families built from one
template) is drawn first; a *rendering recipe* drawn independently turns M
into source text using the syntactic alternatives and the macro factorings the
language offers.  The oracle never looks at the text: names/kinds/descriptions/
log status come from M's tables, equation values from the harness's own
expansion (vlib.exprs.subst) and evaluator (vlib.exprs.evaluate).

Debugging aid:  /venv/bin/python -m checks.c04_parser show <replay.json>
"""

import json
import math
import re

from hypothesis import strategies as st

from vlib import exprs as ex
from vlib.runner import HypSub, Collector, Violation, api

PROPERTY = "C04"

RULE = (
    "translate: a structured model M (<=6 equations; scalar equations plus an optional one- or two-level loop family "
    "built from one template with per-token constants, numeric control tokens and an optional per-token override; "
    "expression trees of operator depth <=4 over + - * / ^, unary minus, literals, parameters, variables at shifts "
    "-3..3, log/exp/sqrt, inline loop sums and the pseudo-functions diff diff_log/difflog pct roc mov_sum/movsum "
    "mov_avg/movavg mov_prod/movprod shift with explicit/default shift; optional !! steady variants) is rendered by "
    "two independently drawn recipes (keyword aliases, split and reordered blocks, name separators, descriptions, "
    "{k}/[k]/{+k} shifts, = / :=, whitespace, ... and \\ continuations, % # %! #! line comments, %{ %} #{ #} block "
    "comments, !log-variables listed / !all-but / via name`type + !list(`type), !substitutions, !for (families, "
    "declarations, inline sums, nested, control names ?, ?x, ?(x), tokens literal or from <context>), !if/!else "
    "around blocks, entries, equations and terms and inside !for on the control token, <expr> constants and name "
    "lists); names, kinds, descriptions, log status and the values of every dynamic and steady equation on random "
    "positive data are compared with M and between the two recipes.  preparser_identity: macro-free recipes of "
    "pseudo-function-free models must pass the preparser unchanged up to whitespace, comments and {}->[] .  unsure: "
    "constructs whose status in the language is unclear are injected one at a time; only 'correct' or 'rejected with "
    "an exception' are allowed outcomes.  Non-trivial iff a rendering contains at least one macro construct "
    "(!for, !if, substitution, list, <...>) or a pseudo-function whose argument contains a shifted name"
)

ASSUMPTIONS = [
    "grammar taken from parsers/preparser.py, parsers/models.py and the model files under /repo/tests; only constructs verified to be meant to be accepted are generated in the main class",
    "pseudo-function arguments in the main class stay within the documented pattern: no comma, at most one level of parentheses, no nested pseudo-function, no $substitution$ inside; no whitespace between a (pseudo-)function name and its parenthesis",
    "shocks are used at shift 0 only and never inside pseudo-function arguments (a lagged shock is turned into '(e+ant_e)[-1]' by the anticipated-shock insertion and is not supported by the solvers either; recorded as an observation, not judged)",
    "parameter rows of the data array are constant over columns (the pseudo-function expansion shifts parameter names too)",
    "nested powers and negative exponents are always parenthesised (a^b^c has no documented associativity)",
    "substituted sub-expressions are parenthesised at the definition or at the use site unless the position makes it unnecessary (substitution is textual)",
    "descriptions use letters, digits, spaces and . , : ; ( ) - + * / = % # & ' and '...', never \" < > { } ! ` $ ?; comment text never contains braces; "
    "a description may be spelled \"{{ name }}\" with the text in a context string (the template stage the repository's own tests use)",
    "order of equations within a kind is accepted in any permutation that matches all values; declaration order within a kind is not judged",
    "descriptions of the automatic ant_/std_ companions are not judged, only their names and kinds",
    "!for control names are chosen so that none is a prefix of another live control name; ?{x}/?[x] upper/lower forms are not generated",
    "Jinja templating, file inclusion, &name steady references, autoswap/preprocessor/postprocessor/steady-autovalues blocks and block attributes are outside the property's list and not generated",
    "from_string runs under a 5 s limit on the CPU time of the worker process (ITIMER_VIRTUAL, not wall clock; a normal parse takes ~0.01 s): exceeding it is reported as a hang instead of stalling the shard",
    "equation values are compared with |got-ref| <= 1e-10*|ref| + 1e3*(first-order rounding bound of the reference evaluation); evaluations whose reference is not a finite real or whose bound exceeds 1e-7*max(1,|ref|) are not judged (counted)",
]

RTOL = 1e-10
ERR_K = 1e3

# ---------------------------------------------------------------------------
# Name pools (no name is a prefix-with-token of another; none collides with a
# function, a pseudo-function, ant_/std_ companions or a decoy)
# ---------------------------------------------------------------------------

TVAR_POOL = ["x", "y", "cc", "kap", "pi", "rr", "w", "q", "A", "gdp", "dl_y", "r_n", "Lam", "m2"]
MVAR_POOL = ["obs_y", "obs_pi", "Short", "o3"]
TSHOCK_POOL = ["e", "eps_y", "u1", "sh_a", "eta"]
MSHOCK_POOL = ["me1", "omega", "v_obs"]
PAR_POOL = ["a", "b", "rho", "kappa", "ss_g", "th1", "del", "phi2"]
EXOG_POOL = ["z_ex", "tt", "oil"]
FAM_VAR_STEMS = ["fx", "gy", "hz"]
FAM_SHK_STEMS = ["fe", "ge"]
FAM_PAR_STEMS = ["fp", "gp"]
TOKENS0 = [["a", "b"], ["a", "b", "c"], ["us", "ea"], ["1", "2"], ["1", "2", "3"], ["hh", "f1", "g"], ["2", "4"]]
TOKENS1 = [["1", "2"], ["x", "y"], ["lo", "hi"], ["1", "3"]]
PAT1 = ["{S}_{0}", "{S}{0}", "{S}_{0}x", "{S}_{0}_"]
PAT2 = ["{S}_{0}_{1}", "{S}{0}_{1}", "{S}_{1}_{0}", "{S}_{0}{1}"]

DESC_WORDS = ["Output", "gap", "rate", "of", "change", "in", "real", "price", "level", "5-year", "Q/Q", "Y/Y",
              "shock", "to", "demand", "Persistence", "log", "trend", "inflation", "target", "100%", "#1", "...",
              "A&B", "(pct)", "x = y", "a + b", "it's", "std.", "no. 2;", "c: d", "1,5", "2*k", "\\alpha"]

LITERALS = [1, 2, 3, 4, 10, 100, 0.5, 0.25, 1.5, 0.9, 0.05, 2.75, 0.125, 12.5]
SHIFTS = [0, 0, 0, 0, -1, -1, -1, 1, 1, -2, 2, -3, 3]
PF_SHIFTS = {"chg": [None, None, -1, -2, -4, 1, 2], "mov": [None, None, -2, -3, -1, -4, 2, 3, 1]}


# ---------------------------------------------------------------------------
# Expression generator
# ---------------------------------------------------------------------------

class _Gen:
    """Draws ASTs over a scope.  scope keys: vars (name patterns, shiftable),
    pars, shocks (lists of names), numctl (levels with numeric tokens),
    tabs ([(level, tokens)]), fsums ([spec]), pf (bool), deep (bool)."""

    def __init__(self, draw, scope):
        self.draw = draw
        self.s = scope

    def pick(self, seq):
        return self.draw(st.sampled_from(list(seq)))

    # ---- leaves ----------------------------------------------------------
    def num(self):
        return ["num", self.pick(LITERALS)]

    def var(self, allow_ctl_shift=True):
        name = self.pick(self.s["vars"])
        if allow_ctl_shift and self.s["numctl"] and self.draw(st.integers(0, 5)) == 0:
            return ["var", name, ["ctl", self.pick(self.s["numctl"]), self.pick([-1, -1, 1])]]
        return ["var", name, self.pick(SHIFTS)]

    def leaf(self, in_pf=False):
        kinds = ["var", "var", "var", "num"]
        if self.s["pars"]:
            kinds += ["par", "par"]
        if self.s["shocks"] and not in_pf:
            kinds += ["shock"]
        if self.s["numctl"]:
            kinds += ["ctl"]
        if self.s["tabs"]:
            kinds += ["tab"]
        k = self.pick(kinds)
        if k == "var":
            return self.var()
        if k == "num":
            return self.num()
        if k == "par":
            return ["var", self.pick(self.s["pars"]), 0]
        if k == "shock":
            return ["var", self.pick(self.s["shocks"]), 0]
        if k == "ctl":
            return ["ctl", self.pick(self.s["numctl"])]
        lv, toks = self.pick(self.s["tabs"])
        return ["tab", lv, {t: self.pick(LITERALS) for t in toks}]

    # ---- flat expressions for pseudo-function arguments (<= 1 paren level)
    def atom0(self):
        a = self.leaf(in_pf=True)
        if self.draw(st.integers(0, 5)) == 0:
            return ["pow", a, ["num", self.pick([2, 3, 0.5])]]
        return a

    def prod0(self):
        a = self.atom0()
        if self.draw(st.integers(0, 2)) == 0:
            a = [self.pick(["mul", "mul", "div"]), a, self.atom0()]
        return a

    def sum0(self, pos, force2=False):
        a = self.prod0()
        if not pos and self.draw(st.integers(0, 7)) == 0:
            a = ["neg", a] if a[0] in ("num", "var", "ctl", "tab", "pow") else a
        if force2 or self.draw(st.integers(0, 1)) == 0:
            a = [self.pick(["add"] if pos else ["add", "sub"]), a, self.prod0()]
        return a

    def atom1(self, pos):
        k = self.draw(st.integers(0, 6))
        if k == 0:
            f = self.pick(["exp", "sqrt"] if pos else ["log", "exp", "sqrt"])
            return ["fn", f, self.sum0(True if f != "exp" else pos)]
        if k == 1:
            return self.sum0(pos, force2=True)          # becomes a parenthesised group when used as a factor
        return self.atom0()

    def prod1(self, pos):
        a = self.atom1(pos)
        if self.draw(st.integers(0, 1)) == 0:
            op = self.pick(["mul", "mul", "div"])
            b = self.atom1(True if op == "div" else pos)
            a = [op, a, b]
        return a

    def flat(self, pos):
        a = self.prod1(pos)
        if self.draw(st.integers(0, 2)) == 0:
            a = [self.pick(["add"] if pos else ["add", "sub"]), a, self.prod1(pos)]
        return a

    def pf(self, pos, d):
        names = ["roc", "movsum", "movavg", "movprod", "shift"] if pos else \
            ["diff", "diff", "difflog", "pct", "roc", "movsum", "movavg", "movprod", "shift", "shift"]
        name = self.pick(names)
        argpos = pos or name in ("difflog", "pct", "roc")
        if self.s.get("deep"):
            k_ = self.draw(st.integers(0, 3))
            lf = lambda: self.leaf(in_pf=True)      # noqa: E731
            if k_ == 0:
                arg = ["mul", ["add", lf(), ["div", lf(), ["add", lf(), lf()]]], lf()]
            elif k_ == 1:
                arg = ["add", ["pf", self.pick(["shift", "roc", "movsum"]), self.flat(True), self.pick([None, -1, -2])], lf()]
            elif k_ == 2:
                arg = ["fn", "exp", ["mul", lf(), ["fn", "sqrt", ["add", lf(), lf()]]]]
            else:
                arg = self.expr(3, argpos, in_pf=True)
        else:
            arg = self.flat(argpos)
        k = self.pick(PF_SHIFTS["mov" if name.startswith("mov") else "chg"])
        return ["pf", name, arg, k]

    # ---- general expressions -----------------------------------------------
    def expr(self, d, pos, in_pf=False):
        if d <= 0:
            return self.leaf(in_pf)
        pool = ["leaf", "add", "mul", "mul", "div", "pow", "fn"]
        if not pos:
            pool += ["sub", "sub", "neg"]
        if self.s.get("pf", True) and (not in_pf or self.s.get("deep")):
            pool += ["pf", "pf", "pf"]
        if self.s["fsums"] and not in_pf:
            pool += ["fsum"]
        k = self.pick(pool)
        if k == "leaf":
            return self.leaf(in_pf)
        if k in ("add", "mul"):
            return [k, self.expr(d - 1, pos, in_pf), self.expr(d - 1, pos, in_pf)]
        if k == "sub":
            return ["sub", self.expr(d - 1, False, in_pf), self.expr(d - 1, False, in_pf)]
        if k == "div":
            return ["div", self.expr(d - 1, pos, in_pf), self.expr(d - 1, True, in_pf)]
        if k == "neg":
            return ["neg", self.expr(d - 1, False, in_pf)]
        if k == "pow":
            if self.draw(st.booleans()):
                return ["pow", self.expr(d - 1, pos, in_pf), ["num", self.pick([2, 3, 2, 1])]]
            choices = [["num", 0.5], ["num", 1.5], ["neg", ["num", 1]], ["neg", ["num", 0.5]]]
            if self.s["pars"]:
                choices += [["var", self.pick(self.s["pars"]), 0]] * 2
            return ["pow", self.expr(d - 1, True, in_pf), self.pick(choices)]
        if k == "fn":
            f = self.pick(["exp", "sqrt"] if pos else ["log", "log", "exp", "sqrt"])
            return ["fn", f, self.expr(d - 1, f != "exp" or pos, in_pf)]
        if k == "pf":
            return self.pf(pos, d - 1)
        if k == "fsum":
            return self.fsum(pos)
        raise AssertionError(k)

    def fsum(self, pos):
        spec = self.pick(self.s["fsums"])
        toks = spec["tokens"]
        if spec["kind"] == "names":
            v = ["var", self.pick(spec["patterns"]), self.pick(SHIFTS)]
        else:
            v = ["var", self.pick(self.s["vars"]), ["ctl", 2, -1]]
        k = self.draw(st.integers(0, 3))
        if k == 0 and self.s["pars"]:
            v = ["mul", ["var", self.pick(self.s["pars"]), 0], v]
        elif k == 1 and spec["kind"] == "lags":
            v = ["mul", v, ["pow", self.num(), ["ctl", 2]]]
        elif k == 2:
            v = ["div", v, self.num()]
        elif k == 3 and not pos:
            v = ["sub", v, self.num()]
        sign = "+" if pos else self.pick(["+", "+", "-"])
        return ["fsum", sign, 2, list(toks), v]


def _desc(draw, placeholders=()):
    n = draw(st.integers(0, 4))
    if n == 0:
        return ""
    words = [draw(st.sampled_from(DESC_WORDS)) for _ in range(n)]
    for p in placeholders:
        if draw(st.booleans()):
            words.insert(draw(st.integers(0, len(words))), p)
    return " ".join(words)


def _take(draw, pool, lo, hi):
    n = draw(st.integers(lo, min(hi, len(pool))))
    perm = draw(st.permutations(pool))
    return list(perm[:n])


@st.composite
def model_strategy(draw, allow_pf=True, deep=False):
    # ---- loop family --------------------------------------------------------
    nlev = draw(st.sampled_from([0, 1, 1, 1, 2]))
    fam = None
    if nlev:
        t0 = draw(st.sampled_from(TOKENS0 if nlev == 1 else [t for t in TOKENS0 if len(t) == 2]))
        toks = [list(t0)] + ([list(draw(st.sampled_from(TOKENS1)))] if nlev == 2 else [])
        pat = draw(st.sampled_from(PAT1 if nlev == 1 else PAT2))
        fam = {"tokens": toks, "var": pat.replace("{S}", draw(st.sampled_from(FAM_VAR_STEMS))),
               "var_desc": _desc(draw, ["{0}"] + (["{1}"] if nlev == 2 else [])), "var_log": draw(st.booleans()),
               "shock": None, "par": None}
        if draw(st.booleans()):
            p = draw(st.sampled_from(PAT1)) if draw(st.booleans()) or nlev == 1 else draw(st.sampled_from(PAT2))
            fam["shock"] = {"pat": p.replace("{S}", draw(st.sampled_from(FAM_SHK_STEMS))),
                            "desc": _desc(draw, ["{0}"])}
        if draw(st.booleans()):
            fam["par"] = {"pat": draw(st.sampled_from(PAT1)).replace("{S}", draw(st.sampled_from(FAM_PAR_STEMS))),
                          "desc": _desc(draw, ["{0}"])}
    nfam = 0 if not fam else len(fam["tokens"][0]) * (len(fam["tokens"][1]) if nlev == 2 else 1)
    # ---- scalar quantities ----------------------------------------------------
    nm = draw(st.integers(0, min(2, 5 - nfam)))
    ns = draw(st.integers(1, max(1, min(3, 6 - nfam - nm))))

    def qty(name, loggable):
        q = {"name": name, "desc": _desc(draw)}
        if loggable:
            q["log"] = draw(st.booleans())
        return q
    tvars = [qty(n, True) for n in _take(draw, TVAR_POOL, ns, ns)]
    mvars = [qty(n, True) for n in _take(draw, MVAR_POOL, nm, nm)]
    tshocks = [qty(n, False) for n in _take(draw, TSHOCK_POOL, 0, 2)]
    mshocks = [qty(n, False) for n in _take(draw, MSHOCK_POOL, 0, 1 if nm else 0)]
    pars = [qty(n, False) for n in _take(draw, PAR_POOL, 1, 3)]
    exog = [qty(n, True) for n in _take(draw, EXOG_POOL, 0, 1)]
    if draw(st.integers(0, 3)) == 0:
        for q in pars:
            q["desc"] = ""
    # ---- scopes ------------------------------------------------------------------
    tnames = [q["name"] for q in tvars]
    enames = [q["name"] for q in exog]
    pnames = [q["name"] for q in pars]
    fsums = []
    fam_members = []
    if fam:
        envs = _fam_envs(fam)
        fam_members = [ex.fill_name(fam["var"], e) for e in envs]
        if nlev == 1:
            pats = [fam["var"].replace("{0}", "{2}")]
        else:
            pats = [fam["var"].replace("{0}", "{2}").replace("{1}", t) for t in fam["tokens"][1]]
        fsums.append({"kind": "names", "tokens": fam["tokens"][0], "patterns": pats})
    fsums.append({"kind": "lags", "tokens": draw(st.sampled_from([["1", "2"], ["1", "2", "3"], ["2", "4"]]))})
    use_fsum = draw(st.integers(0, 2)) > 0
    base = {"pars": pnames, "numctl": [], "tabs": [], "fsums": fsums if use_fsum else [], "pf": allow_pf, "deep": deep}
    sc_t = dict(base, vars=tnames + enames + fam_members[:2], shocks=[q["name"] for q in tshocks])
    sc_m = dict(base, vars=tnames + enames + [q["name"] for q in mvars], shocks=[q["name"] for q in mshocks])

    def equation(scope, lhs_name, d):
        g = _Gen(draw, scope)
        k = draw(st.integers(0, 7))
        lhs = ["var", lhs_name, 0]
        if k == 0:
            lhs = ["fn", "log", lhs]
        elif k == 1 and allow_pf:
            lhs = ["pf", draw(st.sampled_from(["diff", "difflog", "roc"])), lhs, draw(st.sampled_from([None, -1, -4]))]
        elif k == 2:
            lhs = ["sub", lhs, g.prod0()]
        eq = {"desc": "", "dyn": [lhs, g.expr(d, False)], "steady": None}
        if draw(st.integers(0, 3)) == 0:
            g2 = _Gen(draw, dict(scope, fsums=[]))
            eq["steady"] = [["var", lhs_name, 0] if draw(st.booleans()) else lhs, g2.expr(min(d, 2), False)]
        return eq
    depth = draw(st.sampled_from([1, 2, 2, 3, 3]))
    items = []
    for q in tvars:
        e = equation(sc_t, q["name"], depth)
        if deep and not items:
            e["dyn"][1] = ["add", e["dyn"][1], _Gen(draw, sc_t).pf(False, 2)]
        e["desc"] = _desc(draw)
        items.append({"type": "eq", "kind": "t", "eq": e})
    if fam:
        lv_num = [lv for lv, tk in enumerate(fam["tokens"]) if all(t.isdigit() for t in tk)]
        sc_f = dict(base, vars=[fam["var"]] * 2 + tnames + enames,
                    pars=pnames + ([fam["par"]["pat"]] * 2 if fam["par"] else []),
                    shocks=[q["name"] for q in tshocks] + ([fam["shock"]["pat"]] * 3 if fam["shock"] else []),
                    numctl=lv_num, tabs=[(lv, tk) for lv, tk in enumerate(fam["tokens"])] if draw(st.booleans()) else [],
                    fsums=[f for f in (fsums if use_fsum else []) if f["kind"] == "lags"])
        e = equation(sc_f, fam["var"], min(depth, 2))
        e["desc"] = _desc(draw, ["{0}"] + (["{1}"] if nlev == 2 else []))
        item = {"type": "fam", "kind": "t", "eq": e, "override": None}
        if draw(st.integers(0, 2)) == 0:
            envs = _fam_envs(fam)
            env = envs[draw(st.integers(0, len(envs) - 1))]
            sc_o = dict(sc_t, fsums=[])
            if fam["shock"]:
                sc_o["shocks"] = sc_o["shocks"] + [ex.fill_name(fam["shock"]["pat"], env)]
            oe = equation(sc_o, ex.fill_name(fam["var"], env), min(depth, 2))
            oe["desc"] = ex.fill_name(e["desc"], env)
            item["override"] = {"env": {str(k): v for k, v in env.items()}, "eq": oe}
        items.insert(draw(st.integers(0, len(items))), item)
    for q in mvars:
        e = equation(sc_m, q["name"], min(depth, 2))
        e["desc"] = _desc(draw)
        items.append({"type": "eq", "kind": "m", "eq": e})
    return {"tvars": tvars, "mvars": mvars, "tshocks": tshocks, "mshocks": mshocks, "pars": pars, "exog": exog,
            "fam": fam, "items": items}


def _fam_envs(fam):
    t = fam["tokens"]
    if len(t) == 1:
        return [{0: a} for a in t[0]]
    return [{0: a, 1: b} for a in t[0] for b in t[1]]


def _env_int(env):
    return {int(k): v for k, v in env.items()}


# ---------------------------------------------------------------------------
# The harness's own reading of M
# ---------------------------------------------------------------------------

def expand_model(M):
    """Flat tables: names by kind with description/log status, and concrete equations in source order."""
    fam = M["fam"]
    names = {k: [] for k in ("tvars", "mvars", "tshocks", "mshocks", "pars", "exog")}
    for k in names:
        for q in M[k]:
            names[k].append({"name": q["name"], "desc": q["desc"], "log": q.get("log")})
    if fam:
        for env in _fam_envs(fam):
            names["tvars"].append({"name": ex.fill_name(fam["var"], env), "desc": ex.fill_name(fam["var_desc"], env),
                                   "log": fam["var_log"]})
        for key, kind in (("shock", "tshocks"), ("par", "pars")):
            if fam[key]:
                seen = []
                for env in _fam_envs(fam):
                    nm = ex.fill_name(fam[key]["pat"], env)
                    if nm not in seen:
                        seen.append(nm)
                        names[kind].append({"name": nm, "desc": ex.fill_name(fam[key]["desc"], env), "log": None})
    eqs = []
    for it in M["items"]:
        if it["type"] == "eq":
            e = it["eq"]
            eqs.append({"kind": it["kind"], "desc": e["desc"],
                        "dyn": [ex.subst(a, {}) for a in e["dyn"]],
                        "steady": [ex.subst(a, {}) for a in e["steady"]] if e["steady"] else None})
        else:
            for env in _fam_envs(fam):
                e = it["eq"]
                ov = it["override"]
                if ov and _env_int(ov["env"]) == env:
                    e, env_ = ov["eq"], {}
                else:
                    env_ = env
                eqs.append({"kind": "t", "desc": ex.fill_name(e["desc"], env_),
                            "dyn": [ex.subst(a, env_) for a in e["dyn"]],
                            "steady": [ex.subst(a, env_) for a in e["steady"]] if e["steady"] else None})
    return {"names": names, "eqs": eqs}


# ---------------------------------------------------------------------------
# Recipes and rendering
# ---------------------------------------------------------------------------

@st.composite
def recipe_strategy(draw, macros=True, noise=True):
    b = st.booleans()
    r = {
        "noise": draw(st.lists(st.integers(0, 999), min_size=8, max_size=48)),
        "gnoise": draw(st.lists(st.integers(0, 999), min_size=4, max_size=32)),
        "noise_level": draw(st.sampled_from([0, 1, 1, 2])) if noise else 0,
        "for_eq": False, "for_decl": False, "for_sum": False, "tokens_via": 0,
        "n_subs": 0, "n_ctx": 0, "n_if": 0, "use_list": False, "ctx_names": False, "extra_ctx": False,
        "allbut": draw(b),
    }
    if macros:
        r.update({
            "for_eq": draw(b), "for_decl": draw(b), "for_sum": draw(b),
            "tokens_via": draw(st.sampled_from([0, 0, 1, 2, 3])),
            "n_subs": draw(st.sampled_from([0, 0, 1, 2])),
            "n_ctx": draw(st.sampled_from([0, 0, 1, 2])),
            "n_if": draw(st.sampled_from([0, 0, 1, 2])),
            "use_list": draw(b), "ctx_names": draw(b), "extra_ctx": draw(b),
        })
    return r


class _Chooser:
    def __init__(self, noise):
        self.noise = list(noise) or [0]
        self.i = 0

    def pick(self, n):
        v = self.noise[self.i % len(self.noise)] + (self.i // len(self.noise))
        self.i += 1
        return v % n

    def of(self, seq):
        return seq[self.pick(len(seq))]

    def chance(self, num, den):
        return self.pick(den) >= den - num


KW = {
    "tvars": ["!transition-variables", "!variables", "!transition_variables"],
    "tshocks": ["!transition-shocks", "!shocks", "!transition_shocks"],
    "teqs": ["!transition-equations", "!equations", "!transition_equations"],
    "mvars": ["!measurement-variables", "!measurement_variables"],
    "mshocks": ["!measurement-shocks", "!measurement_shocks"],
    "meqs": ["!measurement-equations", "!measurement_equations"],
    "pars": ["!parameters"],
    "exog": ["!exogenous-variables", "!exogenous_variables"],
    "log": ["!log-variables", "!log_variables"],
    "allbut": ["!all-but", "!all_but"],
    "subs": ["!substitutions"],
}
COMMENT_WORDS = ["note", "see eq. 3", "x = y;", "!for ?c = a, b !do", "!end", "!if flag !then", "it's", '"', "<k0>", "$s$",
                 "!!", "100%", "#", "TODO: fix", "a+b*c", "!equations", "shift(x, -1)", "...", "diff(y)", "%"]
CTL_NAMES = {0: ["?c", "?(c)", "?x1"], 1: ["?n", "?(n)", "?j2"], 2: ["?k", "?(k)", "?i"]}
DECOY_NUM = "777.5"
ATOMS = ("num", "var", "ctl", "tab", "fn", "pf")


def canon(node):
    return json.dumps(node, sort_keys=True, separators=(",", ":"))


def need_depth(n, minp):
    """Parenthesis nesting the renderer needs for an AST (without redundant parentheses)."""
    op = n[0]
    if op in ("num", "var", "ctl", "tab"):
        d, p = 0, 5
    elif op == "neg":
        d, p = need_depth(n[1], 4), 1
    elif op in ("add", "sub"):
        d, p = max(need_depth(n[1], 1), need_depth(n[2], 2)), 1
    elif op in ("mul", "div"):
        d, p = max(need_depth(n[1], 2), need_depth(n[2], 3)), 2
    elif op == "pow":
        d, p = max(need_depth(n[1], 5), need_depth(n[2], 5)), 4
    elif op in ("fn", "pf"):
        d, p = 1 + need_depth(n[2], 0), 5
    elif op == "fsum":
        d, p = need_depth(n[4], 2), 1
    elif op == "sum":
        d, p = max(need_depth(t, 2) for t in n[2]), 1
    else:
        raise ValueError(op)
    return d + (1 if p < minp else 0)


def _paren_depth(text):
    d = m = 0
    for ch in text:
        if ch == "(":
            d += 1
            m = max(m, d)
        elif ch == ")":
            d -= 1
    return m


class Renderer:
    """Turns (M, recipe) into source text + context.  Pure function of its inputs."""

    def __init__(self, M, recipe, canonical=False, inject=None):
        self.M = M
        self.r = recipe
        self.canonical = canonical
        self.inject = inject or {}
        self.ch = _Chooser(recipe["noise"])
        self.cg = _Chooser(recipe["gnoise"])
        self.level = 0 if canonical else recipe["noise_level"]
        self.context = {}
        self.labels = set()
        self.subs_map, self.subs_defs, self.subs_mode = {}, {}, {}
        self.ctx_map = {}
        self.if_terms = set()
        self.flags = {"flag_a": self.ch.of([True, False]), "num_b": self.ch.pick(6), "mode_c": self.ch.of(["abc", "xyz"])}
        self.nctx = 0
        self.pf_shifted_arg = False
        # an independent stream for the Jinja spelling of descriptions (keeps the other streams, and with them the
        # stored replay cases, as they were)
        self.cj = _Chooser([7 * x + 3 for x in recipe["noise"]])
        self.njj = 0

    # ---- whitespace and comments ---------------------------------------------
    def _comment_text(self):
        n = 1 + self.cg.pick(3)
        return " ".join(self.cg.of(COMMENT_WORDS) for _ in range(n))

    def _line_comment(self, allow_bang=False):
        kinds = ["% ", "# ", "... ", "...", "\\ ", "%% "]
        if allow_bang:
            kinds += ["%! ", "#! "]
        k = self.cg.of(kinds)
        self.labels.add("cm_" + {"% ": "pct", "# ": "hash", "... ": "dots", "...": "dots", "\\ ": "backslash",
                                 "%% ": "pct", "%! ": "bang", "#! ": "bang"}[k])
        if k in ("%! ", "#! "):
            return " " + k + re.sub(r'[!"<>]', "", self._comment_text()) + "\n"
        if k == "...":
            return " ...\n"
        return " " + k + self._comment_text() + "\n"

    def _block_comment(self):
        o = self.cg.of(["%", "#"])
        self.labels.add("cm_block")
        body = self._comment_text() + self.cg.of(["", "\n", "\n   more text\n"])
        return o + "{" + self.cg.of(["", " "]) + body.replace(o + "}", "") + self.cg.of(["", " "]) + o + "}"

    def g(self):
        """Optional gap inside an expression or statement."""
        if self.level == 0:
            return ""
        k = self.cg.pick(24 if self.level == 1 else 12)
        if k < 2:
            return " "
        if k == 2:
            return self.cg.of(["  ", "\t", "\n   ", "\n"])
        if k == 3:
            return self._line_comment() + "  "
        if k == 4:
            return self._block_comment()
        return ""

    def gs(self):
        """Gap that must contain white space."""
        if self.level == 0:
            return " "
        k = self.cg.pick(12)
        if k == 0:
            return self._line_comment() + " "
        if k == 1:
            return " " + self._block_comment() + " "
        if k == 2:
            return self.cg.of(["\n", "  ", "\t", "\n\n    "])
        return " "

    def G(self, bang=True):
        """Gap between statements, entries and blocks (a separator is added by the caller)."""
        if self.level == 0:
            return "\n"
        k = self.cg.pick(10)
        if k == 0:
            return self._line_comment(allow_bang=bang and not self.inject.get("no_bang"))
        if k == 1:
            return "\n" + self._block_comment() + "\n"
        if k == 2:
            return self.cg.of(["\n\n", "\n    ", "\n\t", " \n"])
        if k == 3 and self.level == 2:
            return self._line_comment() + self._line_comment()
        return "\n"

    def sp(self):
        """Plain white space (headers and conditions)."""
        return " " if self.level == 0 else self.cg.of([" ", " ", "  "])

    # ---- context ----------------------------------------------------------------
    def _ctx_name(self, prefix):
        self.nctx += 1
        return f"{prefix}{self.nctx}"

    def _cond(self):
        """A condition over the context with its truth value."""
        templates = ["flag_a", "not flag_a", "num_b > 2", "num_b == 3", "num_b != 3", "mode_c == 'abc'",
                     'mode_c == "xyz"', "flag_a and num_b < 4", "len(mode_c) == 3", "num_b + 1 >= 4 or flag_a",
                     "True", "0"]
        text = self.ch.of(templates)
        for k, v in self.flags.items():
            if k in text:
                self.context[k] = v
        truth = bool(eval(text, {}, dict(self.flags)))      # Python semantics, as documented for !if
        return text, truth

    def _if(self, real, decoy, tag):
        """real/decoy: text chunks; returns an !if construct that selects `real`."""
        cond, truth = self._cond()
        self.labels.add("if_" + tag)
        a, b, s = "!if", "!then", self.sp
        k = self.ch.pick(3)
        if truth:
            if k == 0:
                self.labels.add("if_no_else")
                return f"{a}{s()}{cond}{s()}{b}{self.gs()}{real}{self.gs()}!end"
            return f"{a}{s()}{cond}{s()}{b}{self.gs()}{real}{self.gs()}!else{self.gs()}{decoy}{self.gs()}!end"
        if k == 0 and tag != "term":
            self.labels.add("if_no_else")
            return f"{a}{s()}{cond}{s()}{b}{self.gs()}{decoy}{self.gs()}!end{self.gs()}{real}"
        return f"{a}{s()}{cond}{s()}{b}{self.gs()}{decoy}{self.gs()}!else{self.gs()}{real}{self.gs()}!end"

    # ---- numbers, shifts, names ----------------------------------------------------
    def _num(self, v, c):
        key = repr(v)
        if key in self.ctx_map and not c.get("in_ctx"):
            name, form = self.ctx_map[key]
            self.labels.add("ctx_const")
            if isinstance(v, int):
                self.context[name] = v - 1 if form else v
                inner = f"{name}+1" if form else name
            else:
                self.context[name] = v / 2 if form else v
                inner = f"{name}*2" if form else name
            o, cl = self.ch.of([("<", ">"), ("<", ">"), ("<<", ">>"), ("< ", " >")])
            return o + inner + cl
        if self.inject.get("kind") == "sci" and isinstance(v, float):
            self.labels.add("unsure_sci")
            return self.ch.of([f"{v:e}", f"{v:E}", repr(v).lstrip("0") if 0 < v < 1 else f"{v:.3e}"])
        if self.inject.get("kind") == "sci" and isinstance(v, int):
            self.labels.add("unsure_sci")
            return self.ch.of([f"{v}.", f"{v}e0", f"{v}.0E+00"])
        if isinstance(v, int) and self.ch.chance(1, 6):
            return f"{v}.0"
        return repr(v)

    def _shift(self, k, c):
        if isinstance(k, list):
            _, lv, sign = k
            ctl = c["bound"][lv]
            body = ("-" if sign < 0 else self.ch.of(["", "+"])) + ctl
            if self.inject.get("kind") == "curly_ctl":
                self.labels.add("unsure_curly_ctl")
                return "{" + body + "}"
            self.labels.add("sh_ctl")
            return "[" + body + "]"
        if k == 0:
            if c.get("shiftable") and self.ch.chance(1, 12):
                self.labels.add("sh_zero")
                return self.ch.of(["{0}", "[0]"])
            return ""
        body = str(k)
        if k > 0 and self.ch.chance(1, 2):
            body = "+" + body
            self.labels.add("sh_plus")
        if self.level and self.cg.chance(1, 6):
            body = self.cg.of([" ", ""]) + body + " "
        o, cl = self.ch.of([("{", "}"), ("[", "]")])
        self.labels.add("sh_curly" if o == "{" else "sh_square")
        return o + body + cl

    def _name(self, name, c):
        return ex.fill_name(name, c["bound"])

    def _ctl_name(self, lv, c, alone):
        opts = list(CTL_NAMES[lv])
        if alone and not c["bound"]:
            opts.append("?")
        n = self.ch.of(opts)
        self.labels.add("ctl_plain" if n == "?" else "ctl_paren" if "(" in n else "ctl_named")
        return n

    def _tokens_text(self, toks):
        via = self.r["tokens_via"]
        if via == 1:
            n = self._ctx_name("toks")
            self.context[n] = list(toks)
            self.labels.add("ctx_tokens")
            return self.ch.of([f"<{n}>", f"< {n} >", f"<<{n}>>"])
        if via == 2:
            n = self._ctx_name("dct")
            self.context[n] = {t: i for i, t in enumerate(toks)}
            self.labels.add("ctx_tokens")
            return f"<{n}.keys()>"
        if via == 3 and all(t.isdigit() for t in toks) and [int(t) for t in toks] == list(range(int(toks[0]), int(toks[0]) + len(toks))):
            self.labels.add("ctx_tokens")
            return f"<range({toks[0]},{int(toks[-1]) + 1})>"
        return self.ch.of([", ", " ", ","]).join(toks)

    def _for_header(self, ctl, toks):
        s = self.sp
        tt = self._tokens_text(toks)
        if ctl == "?" and self.ch.chance(1, 2):
            return f"!for{s()}{tt}{s()}!do"
        return f"!for{s()}{ctl}{s()}{self.ch.of(['=', '=', ':'])}{s()}{tt}{s()}!do"

    # ---- expressions ------------------------------------------------------------------
    def rx(self, n, minp, c):
        key = canon(n)
        if not c.get("in_pf") or self.inject.get("kind") == "subs_in_pf":
            if key in self.subs_map and not c.get("no_subs"):
                return self._use_sub(n, key, minp, c)
        if not c.get("in_pf") and key in self.if_terms and not c.get("in_if") and not c.get("no_subs"):
            inner = self.rx(n, 0, dict(c, in_if=True))
            return "(" + self._if(inner, DECOY_NUM, "term") + ")"
        s, p = self._rx(n, c)
        if p < minp:
            return "(" + self.g() + s + self.g() + ")"
        if not c.get("in_pf") and n[0] not in ("num",) and self.ch.chance(1, 14):
            self.labels.add("redundant_parens")
            return "(" + s + ")"
        return s

    def _use_sub(self, n, key, minp, c):
        name = self.subs_map[key]
        if name not in self.subs_defs:
            mode = self.ch.pick(3)
            body = self.rx(n, 0, {"bound": {}, "no_subs": True})
            self.subs_mode[name] = mode
            self.subs_defs[name] = "(" + body + ")" if mode == 0 else body
        mode = self.subs_mode[name]
        self.labels.add("unsure_subs_in_pf" if c.get("in_pf") else "subs")
        ref = self.cg.of(["$" + name + "$", "$" + name + "$", "$ " + name + " $"]) if self.level else "$" + name + "$"
        natural = 1 if n[0] in ("add", "sub", "neg", "fsum", "sum") else 2 if n[0] in ("mul", "div") else 4 if n[0] == "pow" else 5
        if mode == 0 or (mode == 2 and minp <= natural and minp <= 1) or (c.get("in_pf") and natural == 5):
            return ref
        return "(" + ref + ")"

    def _rx(self, n, c):
        op = n[0]
        g = self.g
        if op == "num":
            return self._num(n[1], c), 5
        if op == "var":
            if not isinstance(n[2], list) and n[2] != 0 and c.get("in_pf"):
                self.pf_shifted_arg = True
            return self._name(n[1], c) + self._shift(n[2], dict(c, shiftable=n[1] in self.shiftable)), 5
        if op == "ctl":
            return c["bound"][n[1]], 5
        if op == "tab":
            return self._tab(n, c), 5
        if op == "neg":
            return "-" + g() + self.rx(n[1], 4, c), 1
        if op in ("add", "sub"):
            return self.rx(n[1], 1, c) + g() + ("+" if op == "add" else "-") + g() + self.rx(n[2], 2, c), 1
        if op in ("mul", "div"):
            return self.rx(n[1], 2, c) + g() + ("*" if op == "mul" else "/") + g() + self.rx(n[2], 3, c), 2
        if op == "pow":
            sym = "^"
            if self.inject.get("kind") == "starstar":
                sym = "**"
                self.labels.add("unsure_starstar")
            return self.rx(n[1], 5, c) + g() + sym + g() + self.rx(n[2], 5, c), 4
        if op == "fn":
            return n[1] + "(" + g() + self.rx(n[2], 0, c) + g() + ")", 5
        if op == "pf":
            return self._pf(n, c), 5
        if op == "fsum":
            return self._fsum(n, c), 1
        if op == "sum":
            return self._sum(n, c), 1
        raise ValueError(op)

    def _tab(self, n, c):
        _, lv, table = n
        name = None
        for k, v in self.context.items():
            if k.startswith("tab") and v == table:
                name = k
        if name is None:
            name = self._ctx_name("tab")
            self.context[name] = dict(table)
        self.labels.add("ctx_tab")
        q = self.ch.of(['"', "'"])
        return f"<{name}[{q}{c['bound'][lv]}{q}]>"

    def _pf(self, n, c):
        _, name, arg, k = n
        spelled = self.ch.of(ex.PF_SPELLINGS[name])
        self.labels.add("pf_" + spelled)
        deep = self.inject.get("kind") in ("deep", "subs_in_pf")
        a = self.rx(arg, 0, dict(c, in_pf=True))
        if not deep and (need_depth(arg, 0) > 1 or ex.has_op(arg, ("pf", "fsum", "sum"))):
            raise AssertionError(f"harness: pseudo-function argument outside the documented pattern: {a!r}")
        if self.inject.get("kind") == "pf_space":
            spelled += " "
            self.labels.add("unsure_pf_space")
        text = spelled + "(" + self.g() + a + self.g()
        if k is not None:
            ks = str(k) if k < 0 or self.ch.chance(1, 2) else "+" + str(k)
            text += "," + self.g() + ks + self.g()
            self.labels.add("pf_explicit_shift" if k < 0 else "pf_lead")
        else:
            self.labels.add("pf_default_shift")
        return text + ")"

    def _sum(self, n, c):
        _, sign, terms = n
        out = ""
        for i, t in enumerate(terms):
            lead = sign if (i or sign == "-" or self.ch.chance(1, 2)) else ""
            out += lead + self.g() + self.rx(t, 2, c) + self.g()
        return out

    def _fsum(self, n, c):
        _, sign, lv, toks, term = n
        if not self.r["for_sum"] or c.get("in_pf"):
            return self._sum(self._expand_fsum(n, c), c)
        ctl = self._ctl_name(lv, c, alone=True)
        self.labels.add("for_sum")
        if c["bound"]:
            self.labels.add("for_depth_%d" % (len(c["bound"]) + 1))
        b2 = dict(c["bound"])
        b2[lv] = ctl
        c2 = dict(c, bound=b2)
        body = sign + self.g() + self.rx(term, 2, c2)
        return self._for_header(ctl, toks) + self.gs() + body + self.gs() + "!end"

    def _expand_fsum(self, n, c):
        _, sign, lv, toks, term = n
        return ["sum", sign, [ex.subst(term, {lv: t}, keep_fsum=True) for t in toks]]

    # ---- statements ---------------------------------------------------------------------
    def _desc(self, text, c, entry=False):
        text = ex.fill_name(text, c["bound"])
        if not text:
            return '""' + self.gs() if self.ch.chance(1, 10) else ""
        if self.level and not self.inject.get("no_bang") and self.cj.chance(1, 4):
            # the text comes from a context string through the template stage ({{ name }}), which runs first
            key = f"jdesc{self.njj}"
            self.njj += 1
            self.context[key] = text
            self.labels.add("jinja_description")
            text = "{{" + self.cj.of(["", " "]) + key + self.cj.of(["", " ", "  "]) + "}}"
        return '"' + text + '"' + (self.gs() if entry or self.level else " ")

    def _version(self, pair, c):
        asg = ":=" if self.ch.chance(1, 3) else "="
        if asg == ":=":
            self.labels.add("assign_colon")
        return self.rx(pair[0], 0, c) + self.g() + asg + self.g() + self.rx(pair[1], 0, c)

    def stmt(self, e, c):
        out = self._desc(e["desc"], c) + self._version(e["dyn"], c)
        if e["steady"]:
            self.labels.add("steady_variant")
            out += self.g() + "!!" + self.g() + self._version(e["steady"], c)
        return out + self.g() + ";"

    # ---- planning -------------------------------------------------------------------------
    def _plan(self):
        M, r, fam = self.M, self.r, self.M["fam"]
        self.shiftable = {q["name"] for k in ("tvars", "mvars", "exog") for q in M[k]}
        if fam:
            self.shiftable.add(fam["var"])
            self.shiftable |= {ex.fill_name(fam["var"], e) for e in _fam_envs(fam)}
        plan = []
        for it in M["items"]:
            if it["type"] == "eq":
                plan.append({"kind": it["kind"], "mode": "stmt", "eq": it["eq"], "lhs": it["eq"]["dyn"][0]})
            elif r["for_eq"]:
                plan.append({"kind": "t", "mode": "forfam", "eq": it["eq"], "override": it["override"]})
            else:
                for env in _fam_envs(fam):
                    ov = it["override"]
                    if ov and _env_int(ov["env"]) == env:
                        e = ov["eq"]
                    else:
                        e = {"desc": ex.fill_name(it["eq"]["desc"], env),
                             "dyn": [ex.subst(a, env, keep_fsum=True) for a in it["eq"]["dyn"]],
                             "steady": [ex.subst(a, env, keep_fsum=True) for a in it["eq"]["steady"]] if it["eq"]["steady"] else None}
                    plan.append({"kind": "t", "mode": "stmt", "eq": e})
        self.plan = plan
        # candidate nodes
        subs_c, num_c, term_c = [], [], []

        def visit(n, in_pf, top):
            key = canon(n)
            if n[0] == "num":
                if repr(n[1]) not in num_c:
                    num_c.append(repr(n[1]))
            elif not in_pf or self.inject.get("kind") == "subs_in_pf":
                if self.inject.get("kind") == "subs_in_pf" and not in_pf:
                    pass
                elif n[0] not in ("ctl", "tab") and not ex.uses_levels(n) and key not in subs_c:
                    subs_c.append(key)
                if n[0] not in ("ctl", "tab", "var") and not top and key not in term_c:
                    term_c.append(key)
            for ch_ in ex.children(n):
                visit(ch_, in_pf or n[0] == "pf", False)
        for p in plan:
            eqs = [p["eq"]] + ([p["override"]["eq"]] if p.get("override") else [])
            for e in eqs:
                for a in e["dyn"] + (e["steady"] or []):
                    visit(a, False, True)
        for i in range(r["n_subs"]):
            if subs_c:
                key = subs_c[self.ch.pick(len(subs_c))]
                self.subs_map.setdefault(key, ["s1", "aux_b", "S_3"][len(self.subs_map)])
        for i in range(r["n_ctx"]):
            if num_c:
                key = num_c[self.ch.pick(len(num_c))]
                self.ctx_map.setdefault(key, (f"k{len(self.ctx_map) + 1}", self.ch.pick(2)))
        self.if_eq, self.if_decl, self.if_block = set(), set(), set()
        for i in range(r["n_if"]):
            cat = self.ch.of(["eq", "decl", "block", "term"])
            v = self.ch.pick(997)
            if cat == "term" and term_c:
                key = term_c[v % len(term_c)]
                if key not in self.subs_map:
                    self.if_terms.add(key)
            elif cat == "eq":
                self.if_eq.add(v)
            elif cat == "decl":
                self.if_decl.add(v)
            else:
                self.if_block.add(v)

    # ---- equations ----------------------------------------------------------------------------
    def _eq_statements(self):
        """[(kind, text)] in source order."""
        out = []
        fam = self.M["fam"]
        nst = sum(1 for p in self.plan if p["mode"] == "stmt")
        wrap = {v % nst for v in self.if_eq} if nst else set()
        i = 0
        for p in self.plan:
            c = {"bound": {}}
            if p["mode"] == "stmt":
                text = self.stmt(p["eq"], c)
                if i in wrap:
                    lhs_names = [n[1] for n in ex.walk(p["eq"]["dyn"][0]) if n[0] == "var" and n[1] in self.shiftable]
                    decoy = (lhs_names[0] if lhs_names else "987") + " = 987654;"
                    text = self._if(text, decoy, "eq")
                i += 1
                out.append((p["kind"], text))
                continue
            # family written as (nested) loops
            toks = fam["tokens"]
            has_inner_for = self.r["for_sum"] and any(ex.has_op(a, ("fsum",)) for a in p["eq"]["dyn"] + (p["eq"]["steady"] or []))
            ctl0 = self._ctl_name(0, c, alone=len(toks) == 1 and not has_inner_for)
            bound = {0: ctl0}
            if len(toks) == 2:
                bound[1] = self._ctl_name(1, c, alone=False)
                self.labels.add("for_nested")
            cb = {"bound": bound}
            body = self.stmt(p["eq"], cb)
            ov = p.get("override")
            if ov:
                env = _env_int(ov["env"])
                parts = []
                neg = self.ch.chance(1, 3)
                for lv in sorted(env):
                    tok = env[lv]
                    q = self.ch.of(["'", '"'])
                    if tok.isdigit() and self.ch.chance(1, 2):
                        parts.append(f"{bound[lv]} {'!=' if neg else '=='} {tok}")
                    else:
                        parts.append(f"{q}{bound[lv]}{q} {'!=' if neg else '=='} {q}{tok}{q}")
                cond = (" or " if neg else " and ").join(parts)
                special = self.stmt(ov["eq"], {"bound": {}})
                a, b = (body, special) if neg else (special, body)
                s = self.sp
                body = f"!if{s()}{cond}{s()}!then{self.gs()}{a}{self.gs()}!else{self.gs()}{b}{self.gs()}!end"
                self.labels.add("if_override_in_for")
            text = body
            for lv in sorted(bound, reverse=True):
                text = self._for_header(bound[lv], toks[lv]) + self.gs() + text + self.gs() + "!end"
            self.labels.add("for_eq")
            depth = len(bound) + (1 if ov else 0)
            if has_inner_for:
                depth = max(depth, len(bound) + 1)
            self.labels.add("macro_depth_%d" % depth)
            out.append(("t", text))
        return out

    # ---- declarations -----------------------------------------------------------------------------
    def _entry(self, desc, name, mark, c):
        return self._desc(desc, c, entry=True) + self._name(name, c) + ("`" + mark if mark else "")

    def _decl_units(self, listed):
        """kind -> list of unit texts.  `listed`: names that carry the list mark."""
        M, fam = self.M, self.M["fam"]
        units = {k: [] for k in ("tvars", "tshocks", "pars", "exog", "mvars", "mshocks")}
        nscalar = sum(len(M[k]) for k in units)
        wrap = {v % nscalar for v in self.if_decl} if nscalar else set()
        j = 0
        for k in units:
            qs = M[k]
            if self.r["ctx_names"] and k in ("pars", "tshocks", "exog", "mshocks") and qs and \
                    all(q["desc"] == "" and q["name"] not in listed for q in qs) and not any((j + d) in wrap for d in range(len(qs))):
                n = self._ctx_name("names")
                self.context[n] = [q["name"] for q in qs] if self.ch.chance(1, 2) else {q["name"]: 1 for q in qs}
                self.labels.add("ctx_names")
                units[k].append(f"<{n}>")
                j += len(qs)
                continue
            for q in qs:
                text = self._entry(q["desc"], q["name"], self.mark if q["name"] in listed else None, {"bound": {}})
                if j in wrap:
                    text = self._if(text, "zzdecoy_%d" % j, "decl")
                j += 1
                units[k].append(text)
        if fam:
            groups = [("tvars", fam["var"], fam["var_desc"])]
            if fam["shock"]:
                groups.append(("tshocks", fam["shock"]["pat"], fam["shock"]["desc"]))
            if fam["par"]:
                groups.append(("pars", fam["par"]["pat"], fam["par"]["desc"]))
            for k, pat, desc in groups:
                levels = sorted(lv for lv in range(len(fam["tokens"])) if "{%d}" % lv in pat)
                members = []
                for env in _fam_envs(fam):
                    nm = ex.fill_name(pat, env)
                    if nm not in [m_[0] for m_ in members]:
                        members.append((nm, ex.fill_name(desc, env)))
                marked = members[0][0] in listed
                if self.r["for_decl"]:
                    c = {"bound": {}}
                    for lv in levels:
                        c["bound"][lv] = self._ctl_name(lv, c, alone=len(levels) == 1)
                    desc_t = desc
                    for lv in range(len(fam["tokens"])):
                        if lv not in levels:
                            desc_t = desc_t.replace("{%d}" % lv, fam["tokens"][lv][0])
                    if desc_t != desc:
                        # description refers to a level the name does not depend on: written by hand
                        for nm, d in members:
                            units[k].append(self._entry(d, nm, self.mark if marked else None, {"bound": {}}))
                        continue
                    text = self._entry(desc, pat, self.mark if marked else None, c) + self.ch.of([",", "", ";", " "])
                    for lv in sorted(levels, reverse=True):
                        text = self._for_header(c["bound"][lv], fam["tokens"][lv]) + self.gs() + text + self.gs() + "!end"
                    self.labels.add("for_decl")
                    units[k].insert(self.ch.pick(len(units[k]) + 1), text)
                else:
                    pos = self.ch.pick(len(units[k]) + 1)
                    for nm, d in reversed(members):
                        units[k].insert(pos, self._entry(d, nm, self.mark if marked else None, {"bound": {}}))
        return units

    def _listing(self, texts):
        """Join declaration units / names with one of the accepted separators."""
        sepc = self.ch.of(["", ",", ";", ","])
        self.labels.add({"": "sep_space", ",": "sep_comma", ";": "sep_semicolon"}[sepc])
        out = ""
        for i, t in enumerate(texts):
            last = i == len(texts) - 1
            sc = sepc if (not last or self.ch.chance(1, 2)) else ""
            out += t + sc + (self.G() if self.ch.chance(1, 2) else " ")
        return out

    def _blocks_of(self, key, units, tag):
        """Split a kind's units into one or two blocks."""
        if not units:
            if self.ch.chance(1, 16):
                self.labels.add("empty_block")
                return [(tag, self._kw(key) + "\n")]
            return []
        cut = len(units)
        if len(units) >= 2 and self.ch.chance(1, 3):
            cut = 1 + self.ch.pick(len(units) - 1)
            self.labels.add("block_split")
        out = []
        for part in (units[:cut], units[cut:]):
            if part:
                body = self._listing(part) if tag == "decl" else "".join(t + self.G() for t in part)
                out.append((tag + ":" + key, self._kw(key) + self.gs() + body))
        return out

    def _kw(self, key):
        k = self.ch.of(KW[key])
        self.labels.add("kw_underscore" if "_" in k else "kw_short" if k in ("!variables", "!shocks", "!equations") else "kw_long")
        return k

    # ---- the whole source ------------------------------------------------------------------------------
    def render(self):
        M, r = self.M, self.r
        E = expand_model(M)
        self._plan()
        # log status
        loggable = [q for k in ("tvars", "mvars", "exog") for q in E["names"][k]]
        allbut = r["allbut"]
        listed = [q["name"] for q in loggable if bool(q["log"]) != allbut]
        self.mark = self.ch.of(["lg", "L1", "main"])
        via_list = set()
        if r["use_list"] and listed:
            famvars = {ex.fill_name(M["fam"]["var"], e) for e in _fam_envs(M["fam"])} if M["fam"] else set()
            for nm in listed:
                if nm in famvars:
                    continue
                if self.ch.chance(2, 3):
                    via_list.add(nm)
            if famvars and famvars <= set(listed) and self.ch.chance(2, 3):
                via_list |= famvars
        stmts = self._eq_statements()
        units = self._decl_units(via_list)
        blocks = []
        for k in ("tvars", "tshocks", "pars", "exog", "mvars", "mshocks"):
            blocks += self._blocks_of(k, units[k], "decl")
        # log block(s)
        explicit = [nm for nm in listed if nm not in via_list]
        log_items = list(explicit)
        if via_list:
            log_items.insert(self.ch.pick(len(log_items) + 1), "!list(`" + self.mark + ")")
            self.labels.add("list")
        if log_items or allbut or self.ch.chance(1, 4):
            parts = [log_items]
            if len(log_items) >= 2 and self.ch.chance(1, 4):
                cut = 1 + self.ch.pick(len(log_items) - 1)
                parts = [log_items[:cut], log_items[cut:]]
                self.labels.add("log_split")
            for part in parts:
                head = self._kw("log") + ((self.gs() + self._kw("allbut")) if allbut else "")
                blocks.append(("log", head + self.gs() + self._listing(part)))
            self.labels.add("log_allbut" if allbut else "log_listed")
        for kind, key in (("t", "teqs"), ("m", "meqs")):
            blocks += self._blocks_of(key, [t for k, t in stmts if k == kind], "eqs")
        if self.subs_defs:
            defs = []
            for name, body in self.subs_defs.items():
                defs.append(name + self.g() + self.ch.of([":=", "="]) + self.g() + body + self.g() + ";")
            blocks += self._blocks_of("subs", defs, "subs")
        # block-level !if on small declaration blocks
        cand = [i for i, (tag, _) in enumerate(blocks) if tag in ("decl:pars", "decl:exog", "decl:tshocks", "decl:mshocks")]
        for v in sorted(self.if_block):
            if cand:
                i = cand[v % len(cand)]
                tag, text = blocks[i]
                if not text.startswith("!if"):
                    blocks[i] = (tag, self._if(text, self._kw(tag.split(":")[1]) + " zzdecoy_b\n", "block"))
        # order: shuffle kinds' positions, keep the relative order inside a tag
        keys = [(self.ch.pick(1000), i) for i in range(len(blocks))]
        order = [i for _, i in sorted(keys)]
        slots = [blocks[i][0] for i in order]
        queues = {}
        for tag, text in blocks:
            queues.setdefault(tag, []).append(text)
        if order != sorted(order):
            self.labels.add("blocks_reordered")
        texts = [queues[tag].pop(0) for tag in slots]
        head = self.G(bang=False) if self.level and self.cg.chance(1, 2) else ""
        src = head + "".join(t + ("" if t.endswith("\n") else "\n") + (self.G() if self.level else "") for t in texts)
        if self.ch.chance(1, 4):
            src = src.rstrip("\n ")
            if "%" in src.rsplit("\n", 1)[-1] or "#" in src.rsplit("\n", 1)[-1] or "..." in src.rsplit("\n", 1)[-1]:
                src += "\n"
        if r["extra_ctx"]:
            self.context.setdefault("unused_n", 3)
            self.context.setdefault("unused_list", ["q1", "q2"])
        if self.pf_shifted_arg:
            self.labels.add("pf_shifted_arg")
        self.source = src
        return self


MACRO_LABELS = ("for_eq", "for_decl", "for_sum", "if_eq", "if_decl", "if_block", "if_term", "if_override_in_for",
                "subs", "list", "ctx_const", "ctx_tokens", "ctx_names", "ctx_tab")


def _nontrivial(labels):
    return any(lb in labels for lb in MACRO_LABELS) or "pf_shifted_arg" in labels


# ---------------------------------------------------------------------------
# Observation of the model under test and the oracle
# ---------------------------------------------------------------------------

def _ir():
    import irispie as ir
    return ir


def _kinds():
    from irispie.quantities import QuantityKind as QK
    return {"tvars": QK.TRANSITION_VARIABLE, "mvars": QK.MEASUREMENT_VARIABLE, "tshocks": QK.TRANSITION_SHOCK,
            "mshocks": QK.MEASUREMENT_SHOCK, "pars": QK.PARAMETER, "exog": QK.EXOGENOUS_VARIABLE,
            "ant": QK.ANTICIPATED_SHOCK_VALUE, "tstd": QK.TRANSITION_STD, "mstd": QK.MEASUREMENT_STD}


def expected_tables(E):
    nm = {k: sorted(q["name"] for q in E["names"][k]) for k in E["names"]}
    nm["ant"] = sorted("ant_" + n for n in nm["tshocks"])
    nm["tstd"] = sorted("std_" + n for n in nm["tshocks"])
    nm["mstd"] = sorted("std_" + n for n in nm["mshocks"])
    desc = {q["name"]: q["desc"] for k in E["names"] for q in E["names"][k]}
    log = {q["name"]: bool(q["log"]) for k in ("tvars", "mvars", "exog") for q in E["names"][k]}
    return nm, desc, log


def observe(m):
    kinds = _kinds()
    names = {k: sorted(m.get_names(kind=v)) for k, v in kinds.items()}
    allnames = sorted(m.get_names())
    desc = {q.human: q.description for q in m.get_quantities()}
    log = {str(k): v for k, v in dict(m.get_log_status()).items()}
    eqdesc = [e.description for e in m.get_dynamic_equation_objects()]
    return {"names": names, "all": allnames, "desc": desc, "log": log, "eqdesc": eqdesc}


def compare_tables(col, obs, E, tag):
    nm, desc, log = expected_tables(E)
    ok = True
    for k in nm:
        ok &= col.check(obs["names"][k] == nm[k], f"names:{k}", lambda: f"{tag}: get_names(kind={k}) = {obs['names'][k]}, declared {nm[k]}")
    allexp = sorted(n for k in nm for n in nm[k])
    ok &= col.check(obs["all"] == allexp, "names:all", lambda: f"{tag}: get_names() = {obs['all']}, expected {allexp}")
    if not ok:
        return False
    bad = {n: (obs["desc"].get(n), d) for n, d in desc.items() if obs["desc"].get(n) != d}
    col.check(not bad, "descriptions:quantities", lambda: f"{tag}: descriptions (got, declared) differ: {bad}")
    col.check(obs["log"] == log, "log_status", lambda: f"{tag}: get_log_status() = {obs['log']}, declared {log}")
    return True


def make_data(E, seed, ncols):
    """name -> row of positive values; parameters constant over columns."""
    import numpy as np
    nm, _, _ = expected_tables(E)
    rng = np.random.default_rng(seed)
    rows = {}
    for k in sorted(nm):
        for n in nm[k]:
            if k in ("pars", "tstd", "mstd"):
                rows[n] = np.full(ncols, float(rng.uniform(0.6, 1.6)))
            elif k in ("tshocks", "mshocks", "ant"):
                rows[n] = rng.uniform(0.05, 0.5, ncols)
            else:
                rows[n] = rng.uniform(0.6, 1.6, ncols)
    return rows


def shift_span(E):
    lo = hi = 0
    for e in E["eqs"]:
        for a in e["dyn"] + (e["steady"] or []):
            try:
                x, y = ex.shift_range(a)
            except Exception:  # noqa: BLE001
                x, y = -12, 12
            lo, hi = min(lo, x), max(hi, y)
    return lo, hi


def reference_values(E, rows, points):
    """ref[version][j][p] = (value, err) or None (not judged)."""
    tsh = {q["name"] for q in E["names"]["tshocks"]}
    out = {"dyn": [], "steady": []}
    for e in E["eqs"]:
        for version in ("dyn", "steady"):
            pair = e["dyn"] if version == "dyn" or not e["steady"] else e["steady"]
            ant = version == "dyn" and e["kind"] == "t"
            vals = []
            for t in points:
                def lookup(name, shift, t=t, ant=ant):
                    v = rows[name][t + shift]
                    if ant and name in tsh:
                        v = v + rows["ant_" + name][t + shift]
                    return v
                try:
                    l, el = ex.evaluate(pair[0], lookup)
                    r_, er = ex.evaluate(pair[1], lookup)
                    v = r_ - l
                    err = el + er + 4 * ex.EPS * (abs(l) + abs(r_))
                    if not math.isfinite(v) or ERR_K * err > 1e-7 * max(1.0, abs(v)):
                        vals.append(None)
                    else:
                        vals.append((v, err))
                except ex.NotFinite:
                    vals.append(None)
            out[version].append(vals)
    return out


def equator_values(m, E, rows, t0, bucket):
    """got[version][i][p]: scalar evaluations at t0, t0+1 and one array evaluation at (t0-1, t0+2)."""
    import numpy as np
    inv = m._invariant
    n2q = m.create_name_to_qid()
    ncols = len(next(iter(rows.values())))
    data = np.full((len(inv.quantities), ncols), np.nan)
    for n, row in rows.items():
        data[n2q[n], :] = row
    out = {}
    for version, eq in (("dyn", inv._plain_dynamic_equator), ("steady", inv._plain_steady_equator)):
        a = api(f"{bucket}:{version}:scalar", eq.eval, data, t0)
        b = api(f"{bucket}:{version}:scalar", eq.eval, data, t0 + 1)
        c = api(f"{bucket}:{version}:array", eq.eval, data, np.array([t0 - 1, t0 + 2]))
        vals = []
        for i in range(len(a)):
            ci = np.broadcast_to(np.asarray(c[i], dtype=float), (2,))
            vals.append([float(a[i]), float(b[i]), float(ci[0]), float(ci[1])])
        out[version] = vals
    return out


POINT_OFFSETS = (0, 1, -1, 2)


def _close(g, ref):
    if ref is None:
        return True
    v, err = ref
    return math.isfinite(g) and abs(g - v) <= RTOL * abs(v) + ERR_K * err + 1e-300


def compare_values(col, got, ref, E, tag, source):
    """Match equations kind by kind; any permutation inside a kind that matches every judged value is accepted."""
    import itertools
    labels = []
    neq = len(E["eqs"])
    for version in ("dyn", "steady"):
        if not col.check(len(got[version]) == neq, f"equations:count:{version}",
                         lambda: f"{tag}: {len(got[version])} {version} equations, expected {neq}\n{source}"):
            return labels
    idx = {"t": [j for j, e in enumerate(E["eqs"]) if e["kind"] == "t"], "m": [j for j, e in enumerate(E["eqs"]) if e["kind"] == "m"]}
    assert idx["t"] + idx["m"] == list(range(neq)), "harness: transition equations must precede measurement equations in M"

    def match(i, j):
        return all(_close(got[v][i][p], ref[v][j][p]) for v in ("dyn", "steady") for p in range(len(POINT_OFFSETS)))
    for kind, js in idx.items():
        if all(match(j, j) for j in js):
            continue
        perm_ok = None
        if len(js) <= 6:
            for perm in itertools.permutations(js):
                if all(match(i, j) for i, j in zip(js, perm)):
                    perm_ok = perm
                    break
        if perm_ok is not None:
            labels.append("equation_order_differs")
            continue
        for j in js:
            if match(j, j):
                continue
            for v in ("dyn", "steady"):
                for p in range(len(POINT_OFFSETS)):
                    if not _close(got[v][j][p], ref[v][j][p]):
                        pair = E["eqs"][j]["dyn"] if v == "dyn" or not E["eqs"][j]["steady"] else E["eqs"][j]["steady"]
                        col.fail(f"equation_value:{v}",
                                 f"{tag}: {v} equation #{j} ({'transition' if kind == 't' else 'measurement'}) at column t0{POINT_OFFSETS[p]:+d}"
                                 f"{' (array call)' if p >= 2 else ''}: equator gives {got[v][j][p]!r}, rhs-lhs of the equation as written is "
                                 f"{ref[v][j][p][0]!r} (bound {ref[v][j][p][1]:.1e}); lhs={canon(pair[0])} rhs={canon(pair[1])}\n{source}")
                        break
                else:
                    continue
                break
            break
    nj = sum(1 for v in ref for row in ref[v] for x in row if x is None)
    if nj:
        labels.append("some_values_not_judged")
    return labels


def _src(R):
    return "--- source ---\n" + R.source + "\n--- context --- " + json.dumps(R.context, sort_keys=True)


class _Hang(Exception):
    pass


CPU_LIMIT = 5.0


def _guarded(fn, *args, **kwargs):
    """Call fn under a limit on the CPU time of this process (not wall clock): the pseudo-function pattern of the
    library can backtrack exponentially, and a hang must become an outcome instead of stalling the shard."""
    import signal

    def handler(sig, frame):
        raise _Hang()
    old = signal.signal(signal.SIGVTALRM, handler)
    signal.setitimer(signal.ITIMER_VIRTUAL, CPU_LIMIT)
    try:
        return fn(*args, **kwargs)
    finally:
        signal.setitimer(signal.ITIMER_VIRTUAL, 0)
        signal.signal(signal.SIGVTALRM, old)


def run_one(col, M, E, recipe, seed, tag, inject=None):
    """Render, build the model, compare with M.  Returns (renderer, obs, got) or raises Violation."""
    ir = _ir()
    R = Renderer(M, recipe, inject=inject).render()
    try:
        m = _guarded(ir.Simultaneous.from_string, R.source, context=dict(R.context) if R.context or recipe["noise"][0] % 2 else None)
    except _Hang:
        raise Violation("from_string:hang", f"{tag}: from_string used more than {CPU_LIMIT:g} s of CPU time (a normal parse takes ~0.01 s)\n{_src(R)}")
    except Exception as exc:  # noqa: BLE001
        raise Violation(f"from_string:raises:{type(exc).__name__}", f"{tag}: {type(exc).__name__}: {str(exc)[:300]}\n{_src(R)}")
    obs = api("observe", observe, m)
    if not compare_tables(col, obs, E, tag + "\n" + _src(R)):
        return R, obs, None
    eqd = [e["desc"] for e in E["eqs"]]
    col.check(sorted(obs["eqdesc"]) == sorted(eqd), "descriptions:equations",
              lambda: f"{tag}: equation descriptions {obs['eqdesc']}, declared {eqd}\n{_src(R)}")
    lo, hi = shift_span(E)
    t0 = -lo + 2
    rows = make_data(E, seed, t0 + hi + 4)
    got = equator_values(m, E, rows, t0, "equator")
    ref = reference_values(E, rows, [t0 + o for o in POINT_OFFSETS])
    labels = compare_values(col, got, ref, E, tag, _src(R))
    R.value_labels = labels
    return R, obs, got


# ---------------------------------------------------------------------------
# Sub-check: translate (oracle 1, 2, 3)
# ---------------------------------------------------------------------------

@st.composite
def _translate_case(draw):
    return {"model": draw(model_strategy()), "recipes": [draw(recipe_strategy()), draw(recipe_strategy())],
            "seed": draw(st.integers(0, 2 ** 20))}


def _model_labels(M):
    out = []
    if M["fam"]:
        out.append("family_%d_level" % len(M["fam"]["tokens"]))
    for it in M["items"]:
        if it["type"] == "fam" and it["override"]:
            out.append("family_override")
    return out


def _classify_translate(case):
    labels = set(_model_labels(case["model"]))
    nt = False
    for r in case["recipes"]:
        R = Renderer(case["model"], r).render()
        labels |= R.labels
        nt = nt or _nontrivial(R.labels)
    return nt, sorted(labels)


def _same(a, b):
    if math.isnan(a) and math.isnan(b):
        return True
    if math.isinf(a) or math.isinf(b):
        return a == b
    # two equivalent spellings may associate the terms differently: a value that cancels to zero in one rendering
    # is rounding noise (~1e-16 x the terms) in the other, hence the absolute floor
    return abs(a - b) <= 1e-9 * max(abs(a), abs(b)) + 1e-9


def _check_translate(case):
    M = case["model"]
    E = expand_model(M)
    col = Collector()
    res = []
    for i, r in enumerate(case["recipes"]):
        res.append(run_one(col, M, E, r, case["seed"], f"recipe {i}"))
    labels = []
    (R0, o0, g0), (R1, o1, g1) = res
    if o0 and o1:
        for k in ("names", "all", "desc", "log"):
            col.check(o0[k] == o1[k], f"metamorphic:{k}",
                      lambda: f"two renderings of the same model differ in {k}: {o0[k]} vs {o1[k]}\n{_src(R0)}\n{_src(R1)}")
    if g0 and g1 and not col.items:
        diff = [(v, i, p) for v in g0 for i in range(len(g0[v])) for p in range(len(g0[v][i])) if not _same(g0[v][i][p], g1[v][i][p])]
        reordered = any("equation_order_differs" in getattr(R, "value_labels", []) for R in (R0, R1))
        if diff and not reordered:
            v, i, p = diff[0]
            col.fail("metamorphic:equation_value", f"two renderings of the same model: {v} equation #{i} evaluates to {g0[v][i][p]!r} and "
                                                   f"{g1[v][i][p]!r}\n{_src(R0)}\n{_src(R1)}")
    for R in (R0, R1):
        labels += getattr(R, "value_labels", [])
    col.done()
    return {"labels": sorted(set(labels)), "nontrivial": True}


# ---------------------------------------------------------------------------
# Sub-check: preparser identity (oracle 4)
# ---------------------------------------------------------------------------

@st.composite
def _identity_case(draw):
    return {"model": draw(model_strategy(allow_pf=False)), "recipe": draw(recipe_strategy(macros=False))}


def _classify_identity(case):
    R = Renderer(case["model"], case["recipe"], inject={"no_bang": True}).render()
    rich = any(lb.startswith("cm_") for lb in R.labels) and "sh_curly" in R.labels
    return rich, sorted(lb for lb in R.labels if lb.startswith(("cm_", "sh_", "kw_", "sep_")))


def _strip(text):
    return re.sub(r"\s+", "", text)


def _check_identity(case):
    ir = _ir()
    col = Collector()
    M, r = case["model"], case["recipe"]
    noisy = Renderer(M, r, inject={"no_bang": True}).render()
    plain = Renderer(M, r, canonical=True, inject={"no_bang": True}).render()
    out = api("preparser.from_string", ir.parsers.preparser.from_string, noisy.source)
    col.check(isinstance(out, tuple) and len(out) == 2 and isinstance(out[0], str) and isinstance(out[1], dict),
              "preparser:return_type", lambda: f"returned {type(out)}")
    col.done()
    text, info = out
    expected = _strip(plain.source.replace("{", "[").replace("}", "]"))
    col.check(_strip(text) == expected, "preparser:identity",
              lambda: f"macro-free source changed by the preparser.\n--- source ---\n{noisy.source}\n--- preparsed (blanks removed) ---\n"
                      f"{_strip(text)}\n--- expected ---\n{expected}")
    col.check(info.get("preparsed_source") == text, "preparser:info", "info['preparsed_source'] differs from the returned text")
    out2 = api("preparser.from_string", ir.parsers.preparser.from_string, plain.source)
    col.check(_strip(out2[0]) == expected, "preparser:identity_plain",
              lambda: f"plain source changed by the preparser.\n{plain.source}\n--- preparsed ---\n{out2[0]}")
    col.done()


# ---------------------------------------------------------------------------
# Sub-check: unsure constructs ("correct" or "rejected with an exception")
# ---------------------------------------------------------------------------

UNSURE_KINDS = ["deep", "deep", "starstar", "sci", "curly_ctl", "subs_in_pf", "pf_space"]


@st.composite
def _unsure_case(draw):
    kind = draw(st.sampled_from(UNSURE_KINDS))
    M = draw(model_strategy(deep=kind == "deep"))
    r = draw(recipe_strategy())
    if kind == "curly_ctl":
        r["for_eq"] = r["for_sum"] = True
    if kind == "subs_in_pf":
        r["n_subs"] = 2
    return {"model": M, "recipe": r, "kind": kind, "seed": draw(st.integers(0, 2 ** 20))}


def _unsure_present(case, R):
    kind = case["kind"]
    if kind == "deep":
        E = expand_model(case["model"])
        for e in E["eqs"]:
            for a in e["dyn"] + (e["steady"] or []):
                for n in ex.walk(a):
                    if n[0] == "pf" and (need_depth(n[2], 0) > 1 or ex.has_op(n[2], ("pf",))):
                        return True
        return False
    return ("unsure_" + kind) in R.labels


def _classify_unsure(case):
    R = Renderer(case["model"], case["recipe"], inject={"kind": case["kind"]}).render()
    return _unsure_present(case, R), ["kind_" + case["kind"]]


def _check_unsure(case):
    M = case["model"]
    E = expand_model(M)
    kind = case["kind"]
    R = Renderer(M, case["recipe"], inject={"kind": kind}).render()
    if not _unsure_present(case, R):
        return {"labels": [f"{kind}:construct_absent"], "nontrivial": False}
    col = Collector()
    try:
        run_one(col, M, E, case["recipe"], case["seed"], f"unsure construct {kind}", inject={"kind": kind})
    except Violation as v:
        rejected = [b for b, _ in v.items if ":raises:" in b]
        if rejected and len(rejected) == len(v.items):
            return {"labels": [f"{kind}:rejected:{rejected[0].split(':')[0]}"], "nontrivial": True}
        raise Violation(items=[(f"unsure:{kind}:{b}", m) for b, m in v.items])
    if col.items:
        raise Violation(items=[(f"unsure:{kind}:{b}", m) for b, m in col.items])
    return {"labels": [f"{kind}:accepted_and_correct"], "nontrivial": True}


# ---------------------------------------------------------------------------
# Matchers for known_findings.json (used only while an entry is open)
# ---------------------------------------------------------------------------

def _models_of(case):
    return [case["model"]] if "model" in case else []


def _has_composite_shift(case):
    for M in _models_of(case):
        for e in expand_model(M)["eqs"]:
            for a in e["dyn"] + (e["steady"] or []):
                if any(n[0] == "pf" and n[1] == "shift" and n[2][0] not in ("num", "var") for n in ex.walk(a)):
                    return True
    return False


def _head(message):
    return message.split("--- source ---")[0]


FINDING_MATCHERS = {
    # shift(a+b,k)*c expanded without parentheses
    "shift_result_not_parenthesised": lambda sub, case, bucket, message: "equation_value" in bucket and _has_composite_shift(case),
    # name_?(c){k} / name{-?k}: curly shift left unconverted after !for expansion
    "curly_shift_after_for_expansion": lambda sub, case, bucket, message: "from_string:raises:IrisPieCritical" in bucket
    and "Syntax error" in message and re.search(r"\{[\s+\-\d]+\}", _head(message)) is not None,
    # !if ... !end followed by a sibling !if ... !else ... !end
    "if_without_else_takes_sibling_else": lambda sub, case, bucket, message: "from_string:raises:IrisPieError" in bucket
    and "Misplaced preparsing directive" in message,
    # exponential backtracking of the pseudo-function pattern
    "pseudofunction_pattern_backtracking": lambda sub, case, bucket, message: bucket.endswith("from_string:hang"),
}


SUBCHECKS = [
    HypSub("translate", _translate_case, _check_translate, _classify_translate, budget={"quick": 5000, "thorough": 80000}),
    HypSub("preparser_identity", _identity_case, _check_identity, _classify_identity, budget={"quick": 1000, "thorough": 16000}),
    HypSub("unsure", _unsure_case, _check_unsure, _classify_unsure, budget={"quick": 1000, "thorough": 16000}),
]


if __name__ == "__main__":
    import sys
    from vlib import env
    env.setup()
    doc = json.load(open(sys.argv[2]))
    case = doc["case"]
    recipes = case.get("recipes") or [case["recipe"]]
    for r in recipes:
        R = Renderer(case["model"], r, inject={"kind": case.get("kind")} if case.get("kind") else None).render()
        print(_src(R))
        print(sorted(R.labels))
    print(json.dumps(expand_model(case["model"])["eqs"], indent=0)[:3000])
