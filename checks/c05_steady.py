"""
C05 - Steady state returned by solve_steady satisfies the steady-state equations.

Oracle: the harness's own evaluator of the generated structure applied to the
path defined by get_steady_levels()/get_steady_changes() (level + change*t, or
level * change**t for log-variables) at several dates; metamorphic agreement
between split_into_blocks on/off and between variant k and its single-variant
counterpart.
"""

import copy
import math

import numpy as np
from hypothesis import strategies as st

from vlib import linmodels as lm
from vlib.runner import HypSub, Collector, api

PROPERTY = "C05"

RULE = (
    "families: additive linear (linear=True; stationary, or with an exact random walk with drift = linear trend), "
    "log-linear with log-variables (stationary or a log random walk with drift = balanced growth), anchored "
    "nonlinear; drawn parameters, 1-2 variants, starting guesses = known steady state perturbed by <=20%, flat "
    "flag, split_into_blocks flag, optional steady plan (fix_level of the trending variable, fix_change of it with the drift endogenized, or exogenize a variable "
    "+ endogenize a parameter). Non-trivial iff solve_steady completed and the model has growth, a log-variable, a "
    "plan, a nonlinear term or more than one variable."
)

ASSUMPTIONS = [
    "non-convergence (an exception from solve_steady) is not a violation; it is counted, and the harness exits 2 if more than 35% of in-domain cases end there",
    "residual tolerance 1e3 x equality tolerance x (1 + largest term), evaluated at dates 0, 3 and -2 of the steady path",
    "flat=True is only drawn for models without drift (a flat steady state is then the right concept)",
    "results in which a log-variable level is outside (1e-6, 1e6) are counted as degenerate pseudo-solutions of the absolute residual test and not judged",
    "equations are evaluated in the form they are written (levels for the multiplicative rendering), as the solver sees them",
    "steady plans are exercised with the nonlinear steady solver only (a model created with linear=False, or created with linear=True and solved with the override solve_steady(linear=False)); the linear solver does not take plans",
    "chain family: a 2x2 simultaneous core followed by a chain of 2-3 definitional equations written in a drawn order (every link of the block ordering matters)",
    "flat-override history: a model created with flat=False that carries non-neutral changes is solved with solve_steady(flat=True) and must store a flat steady state",
    "plans: exactly identified; the endogenized parameter is one the harness knows enters the exogenized variable's equation",
]

DATES = (0, 3, -2)


@st.composite
def _case(draw):
    fam = draw(st.sampled_from(["additive", "additive_growth", "log", "log_growth", "nl", "chain", "pairs"]))
    if fam == "pairs":
        # nine variables: one on its own and four simultaneous pairs (v1,v2), (v3,v4), (v5,v6), (v7,v8), declared in a
        # drawn order: several two-unknown blocks whose quantity numbers go beyond 7
        c_ = lambda lo, hi: draw(st.integers(int(lo * 20), int(hi * 20))) / 20.0  # noqa: E731
        nz = lambda lo, hi: (lambda v: v if abs(v) >= 0.1 else 0.3)(c_(lo, hi))  # noqa: E731
        eqs = [{"terms": [[0, -1, c_(-0.5, 0.5)]], "const": nz(-1, 1), "shock": 1.0}]
        for a_ in (1, 3, 5, 7):
            b_ = a_ + 1
            eqs.append({"terms": [[b_, 0, nz(-0.6, 0.6)], [a_, -1, c_(-0.4, 0.4)]], "const": nz(-1, 1), "shock": 1.0})
            eqs.append({"terms": [[a_, 0, nz(-0.6, 0.6)]], "const": nz(-1, 1), "shock": 0.0})
        n_ = len(eqs)
        order_ = list(draw(st.permutations(list(range(n_)))))
        names_ = [None] * n_
        for pos, i in enumerate(order_):
            names_[i] = f"v{pos}"             # the name number is the declaration position
        spec = {"n": n_, "names": names_, "eqs": eqs, "meas": [], "params": [], "log": False,
                "render": {"norm": [0] * n_, "order": draw(st.integers(0, 3))}}
        spec["nl"] = [[0, 0, 0, draw(st.sampled_from([0.1, -0.1, 0.2])), draw(st.sampled_from(sorted(lm.NL_KINDS)))]]
        spec["eq_order"] = list(draw(st.permutations(list(range(n_)))))
    elif fam == "chain":
        # a simultaneous core (x0 <-> x1) followed by a chain of definitions x2 = f(x0), x3 = g(x2), x4 = h(x3):
        # the block ordering matters for every link of the chain
        c_ = lambda lo, hi: draw(st.integers(int(lo * 20), int(hi * 20))) / 20.0  # noqa: E731
        nz = lambda lo, hi: (lambda v: v if abs(v) >= 0.1 else 0.3)(c_(lo, hi))  # noqa: E731
        depth = draw(st.integers(2, 3))
        eqs = [{"terms": [[1, 0, nz(-0.6, 0.6)], [0, -1, c_(-0.5, 0.5)]], "const": nz(-1, 1), "shock": 1.0},
               {"terms": [[0, 0, nz(-0.6, 0.6)]], "const": nz(-1, 1), "shock": 1.0}]
        for d in range(depth):
            src_ = 0 if d == 0 else 1 + d
            eqs.append({"terms": [[src_, draw(st.sampled_from([0, 0, -1])), nz(-1.5, 1.5)]], "const": nz(-1, 1), "shock": 0.0})
        n_ = len(eqs)
        perm = draw(st.permutations(list(range(len(lm.VAR_NAMES)))))
        spec = {"n": n_, "names": [lm.VAR_NAMES[perm[i]] for i in range(n_)], "eqs": eqs, "meas": [], "params": [],
                "log": draw(st.booleans()), "render": {"norm": [0] * n_, "order": draw(st.integers(0, 3))}}
        spec["eqs"] = [e for e in eqs]
        if not spec["log"]:
            spec["nl"] = [[0, 0, 0, draw(st.sampled_from([0.1, -0.1, 0.2])), draw(st.sampled_from(sorted(lm.NL_KINDS)))]]
        # equations are written in a drawn order (the blazer must find the order itself)
        spec["eq_order"] = list(draw(st.permutations(list(range(n_)))))
    elif fam == "nl":
        spec = draw(lm.nl_spec_strategy(max_n=3, meas=(0, 1)))
    else:
        spec = draw(lm.spec_strategy(max_n=4, meas=(0, 1), allow_log=True))
        spec["log"] = fam.startswith("log")
    n = spec["n"]
    rw = None
    if fam.endswith("growth"):
        rw = draw(st.integers(0, n - 1))
        spec["eqs"][rw] = {"terms": [[rw, -1, 1.0]], "const": draw(st.sampled_from([0.02, -0.01, 0.05, 0.1])), "shock": 1.0}
    nv = 1
    if spec["params"] and fam != "nl" and draw(st.integers(0, 2 if rw is None else 1)) == 0:
        nv = 2          # (every second growth model: growth rates that differ across variants)
        for p in spec["params"]:
            p["value"] = [p["value"], round(p["value"] * draw(st.sampled_from([0.5, 0.8, 1.1])), 6)]
    plan = "none"
    if rw is not None and draw(st.booleans()):
        # fix the level of the trending variable, or fix its growth and back out the drift (a parameter then)
        plan = draw(st.sampled_from(["fix_level", "fix_level", "fix_change", "fix_both"])) if nv == 1 else "fix_level"
    elif spec["params"] and nv == 1 and fam in ("log", "nl", "additive") and draw(st.booleans()):
        plan = "swap"
    pert = [draw(st.floats(-0.2, 0.2, allow_nan=False).map(lambda x: round(x, 3))) for _ in range(n)]
    return {"spec": spec, "family": fam, "rw": rw, "nv": nv, "plan": plan, "perturb": pert,
            "flat": draw(st.booleans()) if rw is None else False,
            "flat_override": draw(st.integers(0, 2)) == 0,
            "split": draw(st.sampled_from([True, False, None])),
            "fixed_value": draw(st.sampled_from([1.0, 2.5, 0.7])),
            "target_shift": draw(st.sampled_from([0.1, -0.1, 0.05])),
            # a looser eigenvalue tolerance stored on the model must not loosen the steady-state solver
            "eig_tol": draw(st.sampled_from([None, None, 1e-5, 1e-6])),
            # a model declared linear=True solved with the explicit override solve_steady(linear=False): the
            # nonlinear solver (and with it the plan) must be used
            "linear_override": draw(st.sampled_from([False, False, True])),
            # history: a rough pass (equality tolerance 1e-3) on the same object, then reset_tolerance() and the solve
            # that is judged - the tolerance of the first pass must not stick (to the object or to the process)
            "rough_first": draw(st.sampled_from([False, False, False, True]))}


def _classify(case):
    spec = case["spec"]
    extra_ = []
    if case.get("eig_tol"):
        extra_.append("eigenvalue_tolerance_loosened")
    if case.get("rough_first"):
        extra_.append("rough_pass_first")
    if case.get("linear_override") and not (spec["log"] or lm.nl_terms(spec)):
        extra_.append("declared_linear_solved_nonlinear")
    labels = [f"family_{case['family']}", f"plan_{case['plan']}", f"variants_{case['nv']}",
              "flat_override_history" if (case.get("flat_override") and case["flat"]) else "no_history",
              "flat" if case["flat"] else "nonflat", f"split_{case['split']}"] + extra_
    return True, labels


def _stable_part_ok(spec, rw, v):
    ev = lm.eigenvalues(spec, v)
    mags = sorted(abs(x) for x in ev)
    units = [m for m in mags if abs(m - 1) < 1e-8]
    rest = [m for m in mags if abs(m - 1) >= 1e-8]
    if len(units) != (1 if rw is not None else 0):
        return False
    if any(0.9 < m < 1.1 for m in rest):
        return False
    return sum(1 for m in rest if m > 1) == lm.num_forwards(spec)


SPURIOUS = ":nonzero_change_in_model_without_trend"


def _spurious_growth(subcheck, case, bucket, message):
    """Known finding C05-spurious-growth: see known_findings.json."""
    return bucket.endswith(SPURIOUS)


FINDING_MATCHERS = {"spurious_growth": _spurious_growth}


def _spec_for_variant(spec, v, overrides=None):
    s = copy.deepcopy(spec)
    for p in s["params"]:
        if isinstance(p["value"], list):
            p["value"] = p["value"][v]
        if overrides and p["name"] in overrides:
            p["value"] = overrides[p["name"]]
    for e in s["eqs"]:
        if e.get("const_param") and overrides and overrides.get(e["const_param"]) is not None:
            e["const"] = overrides[e["const_param"]]
    return s


def _residual_check(col, spec_v, levels, changes, bucket, where):
    """Evaluate every steady equation on the path defined by (levels, changes)."""
    log = spec_v["log"]
    names = spec_v["names"] + lm.meas_names(spec_v)

    def get(name, t):
        if name.startswith("shock:") or name not in names:
            return 0.0
        lv = levels[name]
        ch = changes.get(name)
        if log:
            ch = 1.0 if ch is None or (isinstance(ch, float) and math.isnan(ch)) else ch
            return lv * ch ** t
        ch = 0.0 if ch is None or (isinstance(ch, float) and math.isnan(ch)) else ch
        return lv + ch * t

    for t in DATES:
        for which in ("transition", "measurement"):
            r, mag = lm.residuals_as_written(spec_v, get, t, which=which)
            tol = 1e3 * 1e-12 * (1.0 + mag)
            for i, ri in enumerate(r):
                if not (abs(ri) <= tol):
                    col.fail(bucket, f"{which} equation {i} at steady date {t}: residual {ri!r} (tolerance {tol:.1e}) {where}\n{lm.source(spec_v)}")
                    return


def _known_steady(spec_v, rw):
    if rw is None:
        return lm.steady(spec_v)
    return None, None


def _check(case):
    import irispie as ir
    col = Collector()
    spec = case["spec"]
    fam, rw, nv = case["family"], case["rw"], case["nv"]
    if case["plan"] in ("fix_change", "fix_both"):
        spec = copy.deepcopy(spec)
        spec["eqs"][rw]["const_param"] = "gdrift"
    for v in range(nv):
        sv = _spec_for_variant(spec, v)
        if not _stable_part_ok(sv, rw, v=None):
            return {"labels": ["model_not_in_domain"], "nontrivial": False}
        if rw is None and lm.steady(sv)[0] is None:
            return {"labels": ["singular_or_extreme_steady"], "nontrivial": False}
    can_be_linear = not (spec["log"] or lm.nl_terms(spec))
    lin_override = bool(case.get("linear_override")) and can_be_linear
    # `linear`: is the linear steady solver the one that runs (plans belong to the nonlinear solver)
    linear = can_be_linear and case["plan"] == "none" and not lin_override
    override = bool(case.get("flat_override")) and case["flat"] and not linear
    m = api("from_string", ir.Simultaneous.from_string, lm.source(spec), linear=(linear or lin_override), flat=(False if override else case["flat"]))
    if case.get("eig_tol"):
        api("override_tolerance", lambda: m.override_tolerance(eigenvalue=case["eig_tol"]))
    if nv > 1:
        api("alter_num_variants", m.alter_num_variants, nv)
    api("assign_parameters", lambda: m.assign(**{p["name"]: p["value"] for p in spec["params"]}))
    if case["plan"] in ("fix_change", "fix_both"):
        api("assign_drift", lambda: m.assign(gdrift=spec["eqs"][rw]["const"]))
    f = math.exp if spec["log"] else float
    # starting guesses: known steady state perturbed (stationary families); neutral values for growth families
    guess = {}
    for j, nm in enumerate(spec["names"]):
        vals = []
        for v in range(nv):
            xs, _ = _known_steady(_spec_for_variant(spec, v), rw)
            base = float(xs[j]) if xs is not None else 0.0
            vals.append(f(base * (1 + case["perturb"][j]) + (0.05 * case["perturb"][j] if base == 0 else 0.0)))
        guess[nm] = vals if nv > 1 else vals[0]
    if not linear:
        api("assign_guess", lambda: m.assign(**guess))
    if override:
        # history: the model was created non-flat and carries non-neutral changes (as after an earlier growth solve);
        # solve_steady(flat=True) must then store a flat steady state
        stale = 1.02 if spec["log"] else 0.02
        api("assign_stale_changes", lambda: m.assign(**{nm: ((g[0] if isinstance(g, list) else g), stale) for nm, g in guess.items()}) if nv == 1 else None)
    # ---- plan ---------------------------------------------------------------------------
    plan = None
    fixed = {}
    fixed_changes = {}
    endogenized = None
    if case["plan"] == "fix_level":
        nm = spec["names"][rw]
        val = case["fixed_value"]
        api("assign_fixed", lambda: m.assign(**{nm: val}))
        plan = ir.SteadyPlan(m)
        api("plan:fix_level", plan.fix_level, nm)
        fixed[nm] = val
    elif case["plan"] in ("fix_change", "fix_both"):
        # the growth of the trending variable is fixed at another value than its drift; the drift is endogenized
        # (fix_both: plan.fix(), which fixes the level as well)
        nm = spec["names"][rw]
        want_drift = spec["eqs"][rw]["const"] + case["target_shift"]
        fixed_change = math.exp(want_drift) if spec["log"] else want_drift
        level_ = case["fixed_value"] if case["plan"] == "fix_both" else (guess[nm] if not isinstance(guess[nm], list) else guess[nm][0])
        api("assign_fixed_change", lambda: m.assign(**{nm: (level_, fixed_change)}))
        plan = ir.SteadyPlan(m)
        if case["plan"] == "fix_both":
            api("plan:fix", plan.fix, nm)
            fixed[nm] = level_
        else:
            api("plan:fix_change", plan.fix_change, nm)
        api("plan:endogenize", plan.endogenize, "gdrift")
        fixed_changes[nm] = fixed_change
    elif case["plan"] == "swap":
        # exogenize the variable of an equation that carries a parameter, endogenize that parameter
        cand = [(i, t[3]) for i, e in enumerate(spec["eqs"]) for t in e["terms"] if len(t) > 3 and t[3] is not None]
        if not cand:
            return {"labels": ["no_swap_candidate"], "nontrivial": False}
        i, pidx = cand[0]
        nm = spec["names"][i]
        xs, _ = lm.steady(spec)
        target = f(float(xs[i]) + case["target_shift"])
        api("assign_target", lambda: m.assign(**{nm: target}))
        plan = ir.SteadyPlan(m)
        api("plan:exogenize", plan.exogenize, nm)
        api("plan:endogenize", plan.endogenize, spec["params"][pidx]["name"])
        fixed[nm] = target
        endogenized = spec["params"][pidx]["name"]
    kwargs = {}
    if plan is not None:
        kwargs["plan"] = plan
    if case["split"] is not None and not linear:
        kwargs["split_into_blocks"] = case["split"]
    if override:
        kwargs["flat"] = True
    if lin_override:
        kwargs["linear"] = False
    if case.get("rough_first") and not linear:
        try:
            m.override_tolerance(equality=1e-3)
            m.solve_steady(**kwargs)
        except Exception:  # noqa: BLE001 - only the final solve is judged
            pass
        finally:
            m.reset_tolerance()
            if case.get("eig_tol"):
                m.override_tolerance(eigenvalue=case["eig_tol"])
        # the judged solve starts again from the drawn guess (and the assigned plan values)
        api("assign_guess_again", lambda: m.assign(**{k_: v_ for k_, v_ in guess.items() if k_ not in fixed and k_ not in fixed_changes}))
    try:
        m.solve_steady(**kwargs)
    except Exception as exc:  # noqa: BLE001 - the property is conditional on completion
        return {"labels": [f"not_converged:{type(exc).__name__}"], "nontrivial": False}

    levels = api("get_steady_levels", m.get_steady_levels)
    changes = api("get_steady_changes", m.get_steady_changes)
    params = api("get_parameters", m.get_parameters)

    def pick(d, name, v):
        x = d[name] if name in d else None
        if isinstance(x, (list, tuple)):
            x = x[v]
        return None if x is None else float(x)

    names = spec["names"] + lm.meas_names(spec)
    for v in range(nv):
        over = {p["name"]: pick(params, p["name"], v) for p in spec["params"]}
        if case["plan"] in ("fix_change", "fix_both"):
            over["gdrift"] = pick(params, "gdrift", v)
        sv = _spec_for_variant(spec, v, over)
        lv = {nm: pick(levels, nm, v) for nm in names}
        ch = {nm: pick(changes, nm, v) for nm in names}
        if endogenized is not None and not (abs(over.get(endogenized) or 0.0) < 1e6):
            # an exponent of the order 1/eps: the swap has no solution (the base is 1) and the solver amplified the last
            # bit of a level; the equations then hold or fail depending on the order of floating-point operations
            return {"labels": ["degenerate_endogenized_parameter"], "nontrivial": False}
        if any(x is None or math.isnan(x) for x in lv.values()):
            col.fail("steady:missing_level", f"variant {v}: {lv}\n{lm.source(sv)}")
            continue
        if spec["log"] and (any(not (1e-6 < x < 1e6) for x in lv.values())
                            or any(x is not None and not math.isnan(x) and not (1e-3 < x < 1e3) for x in ch.values())):
            # the solver's absolute residual test on level equations accepts x -> 0 as a pseudo-solution of
            # multiplicative equations (a level next to zero, or a growth factor that takes the path there within a
            # period or two); such underflow points are not steady states and are not judged
            return {"labels": ["degenerate_near_zero_solution"], "nontrivial": False}
        # A model without any trend (no unit root) solved in growth mode (flat=False) that comes back with non-neutral
        # steady changes: the growth-mode solver accepted a (level, change) pair that satisfies the equations at the
        # dates it evaluates but not on the path (known finding C05-spurious-growth; own bucket so that every other
        # residual failure is still reported)
        neutral_ = 1.0 if spec["log"] else 0.0
        spurious = rw is None and not case["flat"] and any(x is not None and not math.isnan(x) and abs(x - neutral_) > 1e-9 for x in ch.values())
        _residual_check(col, sv, lv, ch, "steady:residual" + (SPURIOUS if spurious else ""),
                        f"(variant {v}, family {fam}, plan {case['plan']}, flat {case['flat']}, split {case['split']}; steady changes {ch})")
        # planned quantities keep their assigned values
        for nm, val in fixed.items():
            col.check(abs(lv[nm] - val) <= 1e-12 * (1 + abs(val)), "plan:fixed_value_changed", lambda: f"{nm}: {lv[nm]!r} assigned {val!r}")
        for nm, val in fixed_changes.items():
            col.check(ch[nm] is not None and abs(ch[nm] - val) <= 1e-12 * (1 + abs(val)), "plan:fixed_change_changed",
                      lambda: f"{nm}: steady change {ch[nm]!r}, fixed at {val!r}\n{lm.source(sv)}")
            got_drift = over.get("gdrift")
            col.check(got_drift is not None and abs(got_drift - want_drift) <= 1e-8, "plan:endogenized_drift_wrong",
                      lambda: f"endogenized drift {got_drift!r}, the value that makes the equation hold at the fixed growth is {want_drift!r}\n{lm.source(sv)}")
        if endogenized is not None:
            old = [p["value"] for p in spec["params"] if p["name"] == endogenized][0]
            col.check(abs(over[endogenized] - old) > 1e-9, "plan:endogenized_parameter_unchanged",
                      lambda: f"{endogenized} stayed at {old!r} although the exogenized variable moved by {case['target_shift']}")
        # flat models report no growth
        if case["flat"]:
            for nm in names:
                c_ = ch[nm]
                neutral = 1.0 if spec["log"] else 0.0
                col.check(c_ is None or math.isnan(c_) or abs(c_ - neutral) <= 1e-12, "flat:nonzero_change", lambda: f"{nm}: change {c_!r} in a flat model")
    if col.items:
        col.done()

    # ---- metamorphic: blocks on/off give the same steady state (nonlinear solver only) ----
    if not linear and plan is None and rw is None:
        m2 = api("from_string", ir.Simultaneous.from_string, lm.source(spec), linear=linear, flat=case["flat"])
        if nv > 1:
            m2.alter_num_variants(nv)
        m2.assign(**{p["name"]: p["value"] for p in spec["params"]})
        m2.assign(**guess)
        other = not bool(case["split"]) if case["split"] is not None else False
        try:
            m2.solve_steady(split_into_blocks=other)
            l2 = m2.get_steady_levels()
            if spec["log"] and any(not (1e-6 < pick(l2, nm, v) < 1e6) for v in range(nv) for nm in names):
                raise ArithmeticError("the other run ended in a near-zero pseudo-solution (see above): not compared")
            c2 = m2.get_steady_changes()
            neutral_ = 1.0 if spec["log"] else 0.0
            spurious2 = not case["flat"] and any(pick(c2, nm, v) is not None and not math.isnan(pick(c2, nm, v)) and abs(pick(c2, nm, v) - neutral_) > 1e-9
                                                 for v in range(nv) for nm in names)
            if lm.nl_terms(spec):
                # a genuinely nonlinear equation (x^3, exp(x)) can have several steady states and the statement does
                # not promise a particular one: the other run is judged by the equations, not by equality
                for v in range(nv):
                    sv2 = _spec_for_variant(spec, v)
                    _residual_check(col, sv2, {nm: pick(l2, nm, v) for nm in names}, {nm: pick(c2, nm, v) for nm in names},
                                    "blocks:other_run_residual" + (SPURIOUS if spurious2 else ""), f"(split {other}, variant {v})")
                raise ArithmeticError("several steady states possible: not compared")
            for v in range(nv):
                for nm in names:
                    a, b = pick(levels, nm, v), pick(l2, nm, v)
                    sc = abs(math.log(a)) if (spec["log"] and a > 0) else abs(a)
                    d = abs(math.log(a) - math.log(b)) if (spec["log"] and a > 0 and b > 0) else abs(a - b)
                    col.check(d <= 1e-8 * (1 + sc), "blocks:on_off_differ" + (SPURIOUS if spurious2 else ""), lambda: f"{nm} variant {v}: {a!r} vs {b!r} (split {case['split']} vs {other})\n{lm.source(spec)}")
        except Exception:  # noqa: BLE001
            pass
    # ---- metamorphic: variant k equals the single-variant model with variant k's parameters ----
    if nv > 1:
        for v in range(nv):
            sv = _spec_for_variant(spec, v)
            m1 = api("from_string", ir.Simultaneous.from_string, lm.source(sv), linear=linear, flat=case["flat"])
            m1.assign(**{p["name"]: p["value"] for p in sv["params"]})
            if not linear:
                m1.assign(**{nm: (g[v] if isinstance(g, list) else g) for nm, g in guess.items()})
            try:
                m1.solve_steady(**{k: x for k, x in kwargs.items() if k != "plan"})
            except Exception:  # noqa: BLE001
                continue
            l1 = m1.get_steady_levels()
            for nm in names:
                a, b = pick(levels, nm, v), pick(l1, nm, 0)
                if rw is not None:
                    continue        # the level of a trending system is not unique
                d = abs(a - b)
                col.check(d <= 1e-8 * (1 + abs(b)), "variants:differs_from_single_variant", lambda: f"{nm} variant {v}: {a!r} vs single-variant {b!r}\n{lm.source(sv)}")
    col.done()
    growth = rw is not None
    nontrivial = growth or spec["log"] or plan is not None or bool(lm.nl_terms(spec)) or spec["n"] > 1
    return {"labels": ["completed"], "nontrivial": nontrivial}


# ---------------------------------------------------------------------------
# A fresh interpreter per case: what the first solve of a process leaves behind
# ---------------------------------------------------------------------------

_FRESH_SCRIPT = r"""
import sys, json, io, contextlib, warnings
warnings.filterwarnings("ignore")
sys.path.insert(0, sys.argv[1])
import irispie as ir
job = json.loads(sys.stdin.read())
out = {}
with contextlib.redirect_stdout(io.StringIO()):
    m = ir.Simultaneous.from_string(job["source"], linear=False, flat=job["flat"])
    m.assign(**job["params"]); m.assign(**job["guess"])
    try:
        m.override_tolerance(equality=1e-3); m.solve_steady()
    except Exception:
        pass
    m.reset_tolerance()
    m.assign(**job["guess"])
    try:
        m.solve_steady()
        out["levels"] = {k: float(v) for k, v in m.get_steady_levels().items()}
        out["changes"] = {k: (None if v is None else float(v)) for k, v in m.get_steady_changes().items()}
    except Exception as exc:
        out["error"] = type(exc).__name__
print("RESULT" + json.dumps(out))
"""


@st.composite
def _fresh_case(draw):
    case = draw(_case())
    case["plan"], case["nv"] = "none", 1
    for p_ in case["spec"]["params"]:
        if isinstance(p_["value"], list):
            p_["value"] = p_["value"][0]
    return case


def _check_fresh(case):
    """The judged solve is the second of a fresh interpreter, after a rough pass and reset_tolerance()."""
    import json as _json
    import os as _os
    import subprocess as _sp
    col = Collector()
    spec, rw = case["spec"], case["rw"]
    if not (spec["log"] or lm.nl_terms(spec)):
        return {"labels": ["linear_solver_not_concerned"], "nontrivial": False}
    sv = _spec_for_variant(spec, 0)
    if not _stable_part_ok(sv, rw, v=None) or (rw is None and lm.steady(sv)[0] is None):
        return {"labels": ["model_not_in_domain"], "nontrivial": False}
    f = math.exp if spec["log"] else float
    xs, _ = _known_steady(sv, rw)
    guess = {nm: f((float(xs[j]) if xs is not None else 0.0) * (1 + case["perturb"][j]) + (0.05 * case["perturb"][j] if xs is None or xs[j] == 0 else 0.0))
             for j, nm in enumerate(spec["names"])}
    job = {"source": lm.source(spec), "flat": bool(case["flat"]), "params": {p_["name"]: p_["value"] for p_ in spec["params"]}, "guess": guess}
    src_dir = _os.environ.get("IRISPIE_SRC", "/repo/src")
    r = _sp.run(["/venv/bin/python", "-c", _FRESH_SCRIPT, src_dir], input=_json.dumps(job), capture_output=True, text=True, timeout=300,
                env=dict(_os.environ, OMP_NUM_THREADS="1", OPENBLAS_NUM_THREADS="1"))
    line = next((ln for ln in r.stdout.splitlines() if ln.startswith("RESULT")), None)
    if line is None:
        raise RuntimeError("fresh interpreter produced no result: " + (r.stderr or r.stdout)[-800:])
    res = _json.loads(line[len("RESULT"):])
    if "error" in res:
        return {"labels": [f"not_converged:{res['error']}"], "nontrivial": False}
    names = spec["names"] + lm.meas_names(spec)
    lv = {nm: res["levels"].get(nm) for nm in names}
    ch = {nm: res["changes"].get(nm) for nm in names}
    if any(x is None or math.isnan(x) for x in lv.values()):
        return {"labels": ["missing_level"], "nontrivial": False}
    if spec["log"] and (any(not (1e-6 < x < 1e6) for x in lv.values()) or any(x is not None and not math.isnan(x) and not (1e-3 < x < 1e3) for x in ch.values())):
        return {"labels": ["degenerate_near_zero_solution"], "nontrivial": False}
    neutral_ = 1.0 if spec["log"] else 0.0
    spurious = rw is None and not case["flat"] and any(x is not None and not math.isnan(x) and abs(x - neutral_) > 1e-9 for x in ch.values())
    _residual_check(col, sv, lv, ch, "fresh_process:residual" + (SPURIOUS if spurious else ""), "(second solve of a fresh interpreter, after a rough pass and reset_tolerance())")
    col.done()
    return {"labels": ["judged"], "nontrivial": True}


SUBCHECKS = [
    HypSub("steady", _case, _check, _classify, budget={"quick": 800, "thorough": 40000}),
    HypSub("fresh_process", _fresh_case, _check_fresh, _classify, budget={"quick": 48, "thorough": 640}),
]
