"""
C20 - Copies, pickles and parameter variants are independent, equivalent models.

Oracle (simultaneous_ops): an operation-sequence machine.  The case is plain
data {model spec, flags, list of operations}.  The operations are interpreted
against real objects (an original Simultaneous model and a pool of objects
derived from it by copy / pickle / dill / irispie.save+load / to_portable+
from_portable) and against a harness-side model that holds, for every variant
of every object, nothing but the parameter/std values and the list of
operations (assign / steady / solve) in that variant's own lineage.  After
EVERY step every variant of every live object is compared with its *shadow*: a
single-variant model built fresh from the source text on which exactly the
lineage operations of that variant were replayed.  Shadows are only ever
created by `from_string` and are never copied, pickled or widened, so aliasing
between an object and its copy, state lost or garbled by a serialisation,
stale compiled functions and leakage between variants all show up as a
mismatch; legitimate staleness (parameters assigned after the last solve) is
part of the lineage and is reproduced by the shadow, so nothing the library
does not promise is asserted.  Parameter and std values are in addition
compared exactly with the harness-side dictionaries.

portable: structural round trip of the portable form (names, kinds, log status,
equation strings, flags, number of variants, parameter/std/steady values) and
idempotence of the representation: to_portable(from_portable(p)) == p.

sequential_ops / redvar_ops: the same shadow idea for Sequential (simulate on a
fixed databox) and RedVAR (system matrices, moments, simulate).
"""

import contextlib
import copy
import io
import json
import math
import os
import pickle
import shutil
import tempfile

import numpy as np
from hypothesis import strategies as st

from vlib import linmodels as lm, simdata as sd
from vlib.runner import HypSub, Collector, Violation, api

PROPERTY = "C20"

RULE = (
    "simultaneous_ops: a determinate structural model (1-3 variables, lags<=3, leads<=2, >=1 parameter when the "
    "structure allows, 0-2 measurement equations, additive/linear or log-linear/nonlinear rendering, flat and "
    "deterministic flags drawn) is parsed, assigned, steadied and solved; then <= 12 drawn operations are applied: "
    "derive a new object from any pool member (copy, pickle, dill, irispie.save/load in a fresh temp dir, "
    "to_portable/from_portable directly or through JSON), assign drawn parameter values (scalar or per-variant list, "
    "also shorter/longer than the number of variants), assign std values, solve(), steady(), alter_num_variants(1..3) "
    "on ANY pool member; after every step every variant of every object is compared (rtol 1e-9) with a fresh "
    "single-variant model replaying that variant's own lineage: parameters, stds, steady levels and changes, "
    "first-order solution matrices T, P, K, Z, H, D, check_steady discrepancies, a fixed first-order simulation with initial conditions, "
    "unanticipated, anticipated and measurement shocks, and the Kalman-filter likelihood of fixed data (simulation and "
    "filter for the object touched by the step and for all objects after the last step; variants read through "
    "get_variant views or from the whole object, drawn).  Non-trivial iff some derived object and its origin both "
    "received an assignment after the derivation, each followed by a solve on that object, with different resulting "
    "parameter values.  "
    "portable: model (same generator, all eight flag combinations, 1-3 variants, optional `!!` steady versions, with "
    "and without transition shocks, direct or through JSON) -> to_portable -> from_portable; non-trivial iff the model "
    "has a parameter and (a non-default flag or a log variable or >1 variant).  "
    "sequential_ops: generated Sequential source (1-3 equations, lags, plain/diff/identity left-hand sides, "
    "parameters), operations copy/pickle/dill/save-load, assign, alter_num_variants; every object's simulation of a "
    "fixed databox equals that of a fresh model with the object's own parameter values; non-trivial iff a derived "
    "object and its origin hold different parameter values at the end.  "
    "redvar_ops: RedVAR (1-2 endogenous, 0-1 exogenous, order 1-2) estimated on generated data, operations "
    "copy/pickle/dill/save-load, re-estimate on another span, alter_num_variants; system matrices, mean, eigenvalues, "
    "autocovariances and a simulation compared with a fresh model estimated the same way; non-trivial iff a derived "
    "object and its origin end with different estimates."
)

ASSUMPTIONS = [
    "the reference for a variant is a fresh single-variant model (from_string) on which the variant's own lineage of "
    "assign/steady/solve calls is replayed; assign does not invalidate an existing solution or steady state in the "
    "code or the documentation, so a stale solution is reproduced by the reference and never reported",
    "`assign(name=[v0, v1, ...])` gives element k to variant k, repeats the last element when the list is shorter than "
    "the number of variants and ignores surplus elements (has_variants / iterators.exhaust_then_last, named in the "
    "property's mechanism list); alter_num_variants(k) keeps the first k variants or appends copies of the last one",
    "override_tolerance settings (values next to the default, so that no result changes) travel with copy, pickle, dill "
    "and save/load and are private to each object; the portable form has no tolerance field, so objects derived through "
    "it are compared on this only after an override_tolerance on them",
    "a model recreated from its portable form carries values but no first-order solution (the portable form has no "
    "solution field): solution, simulation and filter of such an object are compared only after a solve() on it",
    "JSON turns the documented (level, change) two-tuples of the portable form into lists, which from_portable reads as "
    "variants, i.e. the level only: the steady changes left by a nonflat steady() (0 or 1 up to rounding) come back "
    "missing (recorded as an observation; steady changes are not in the statement's list for the portable form).  For "
    "an object derived through JSON from a nonflat model only parameters, stds and steady levels are compared until a "
    "steady() of a linear model (a direct solve) has replaced the changes; for nonlinear nonflat models the iterative "
    "steady solver starts from the stored values, so such an object stays outside the exact comparison",
    "get_variant(k) / model[k] are views sharing the variant with the parent: the harness only reads through them",
    "solve()/steady() may reject a parameterisation by raising; the reference must then raise as well, the object is "
    "retired and the other objects must stay unaffected",
    "context functions do not survive the portable form by design and are not generated",
    "Kalman filter is not run for deterministic=True models (no std parameters exist)",
    "Sequential.assign has no per-variant form (every variant receives the value as given): only scalar assignments "
    "are generated for Sequential; RedVAR variants are created by alter_num_variants only",
    "tolerance |got-ref| <= 1e-12 + 1e-9*max|ref| per compared array; NaN/inf patterns must agree exactly",
    "only the square solution T, P, K, Z, H, D is compared: the triangular form (Ta, Pa, Ka, Za, Ua) is a Schur basis "
    "that is not unique for repeated eigenvalues and flips on last-bit differences of the inputs; the filter "
    "likelihood, which is computed from it, is basis-invariant and is compared",
    "the base parameterisation must be determinate with margin by the harness's own eigenvalues and have a regular "
    "steady state (about 12 % of the drawn specs are discarded, labelled model_not_in_domain); parameter values "
    "assigned later are not filtered",
    "kalman_filter / check_steady may raise for a degenerate parameterisation (e.g. singular forecast-error "
    "covariance); the reference must then raise the same exception type",
]

MAX_STEPS = 12
MAX_VARIANTS = 3
DERIVE_KINDS = ("copy", "pickle", "dill", "saveload", "portable", "portable_json")
NPER = 6
SOL_NAMES = ("T", "P", "K", "Z", "H", "D")       # the triangular form (Ta, Ua, ...) is unique only up to a basis


def _ir():
    import irispie as ir
    return ir


def _silent(check):
    """irispie resets the warning filters in places; keep numerical warnings off stderr while a case runs."""
    import functools
    import warnings

    @functools.wraps(check)
    def wrapper(case):
        saved = warnings.showwarning
        warnings.showwarning = lambda *a, **k: None
        try:
            return check(case)
        finally:
            warnings.showwarning = saved
    return wrapper


def _quiet(fn, *args, **kwargs):
    with contextlib.redirect_stdout(io.StringIO()):
        return fn(*args, **kwargs)


# ---------------------------------------------------------------------------
# Numeric comparison
# ---------------------------------------------------------------------------

def _arr(x):
    """float ndarray from scalars / None / lists (None -> NaN)."""
    if x is None:
        return np.array(np.nan)
    try:
        return np.asarray(x, dtype=float)
    except (TypeError, ValueError):
        flat = [np.nan if v is None else v for v in np.ravel(np.asarray(x, dtype=object))]
        return np.asarray(flat, dtype=float).reshape(np.shape(x))


def _differs(got, ref, rtol=1e-9, atol=1e-12):
    """None if equal within tolerance, else a short description."""
    got, ref = _arr(got), _arr(ref)
    if got.shape != ref.shape:
        return f"shape {got.shape} vs {ref.shape}"
    if got.size == 0:
        return None
    fin_g, fin_r = np.isfinite(got), np.isfinite(ref)
    if not np.array_equal(fin_g, fin_r):
        return f"finite pattern differs: got {got.tolist()} expected {ref.tolist()}"
    bad = ~fin_r
    if bad.any():
        g, r = got[bad], ref[bad]
        same = (np.isnan(g) & np.isnan(r)) | (g == r)
        if not same.all():
            return f"non-finite values differ: got {got.tolist()} expected {ref.tolist()}"
    if fin_r.any():
        scale = float(np.max(np.abs(ref[fin_r])))
        err = np.abs(np.where(fin_r, got - ref, 0.0))
        worst = float(err.max())
        if worst > atol + rtol * scale:
            i = np.unravel_index(int(np.argmax(err)), err.shape) if err.ndim else ()
            return f"cell {tuple(int(k) for k in i)} got {got[i]!r} expected {ref[i]!r} (|diff| {worst:.3e}, scale {scale:.3e})"
    return None


# ===========================================================================
# 1. simultaneous_ops
# ===========================================================================

def _value_strategy(base):
    return st.one_of(
        st.sampled_from([0.5, 0.8, 1.1, -1.0, 0.3, 0.0]).map(lambda f: round(base * f, 6)),
        st.integers(-16, 16).map(lambda k: k / 20.0),
    )


def _maybe_list(elem, exact_len=None):
    if exact_len is not None and exact_len > 1:
        return st.one_of(elem, st.lists(elem, min_size=exact_len, max_size=exact_len), st.lists(elem, min_size=1, max_size=MAX_VARIANTS + 1))
    return st.one_of(elem, elem, st.lists(elem, min_size=1, max_size=MAX_VARIANTS))


_STD = st.sampled_from([0.1, 0.5, 1.0, 2.0, 1.3, 0.7])


def _ensure_parameter(spec, pick):
    """Turn one transition coefficient into a parameter when the drawn spec has none (plain-data edit)."""
    if spec["params"]:
        return
    slots = [(i, ti) for i, e in enumerate(spec["eqs"]) for ti, t in enumerate(e["terms"]) if len(t) == 3]
    if not slots:
        return
    i, ti = slots[pick % len(slots)]
    t = spec["eqs"][i]["terms"][ti]
    t.append(0)
    spec["params"].append({"name": "p0", "value": t[2]})


@st.composite
def _sim_case(draw):
    spec = draw(lm.spec_strategy(max_n=3, meas=(0, 2)))
    _ensure_parameter(spec, draw(st.integers(0, 7)))
    npar = len(spec["params"])
    nstd = len([s for s in lm.shock_names(spec) if s]) + len([w for w in lm.mshock_names(spec) if w])

    obj = st.integers(0, 5)

    def assign_op(target, nv_hint=None):
        if npar == 0:
            return ["solve", target]
        which = draw(st.lists(st.integers(0, npar - 1), min_size=1, max_size=npar, unique=True))
        vals = [[p, draw(_maybe_list(_value_strategy(spec["params"][p]["value"] or 0.5), nv_hint))] for p in sorted(which)]
        return ["assign", target, vals]

    def random_op(target=None):
        kind = draw(st.sampled_from(["derive", "derive", "assign", "assign", "assign", "assign", "assign_std",
                                     "solve", "solve", "solve", "solve", "steady", "steady", "alter", "alter", "tolerance", "assign_steady"]))
        t = draw(obj) if target is None else target
        if kind == "derive":
            return [[draw(st.sampled_from(DERIVE_KINDS)), t]]
        if kind == "assign_steady":
            # a (level, change) pair assigned to a variable: steady changes are per object and per variant, too
            return [["assign_steady", t, draw(st.integers(0, 2)), draw(st.sampled_from([0.5, 1.5, 2.0])), draw(st.sampled_from([0.02, -0.01, 0.05]))]]
        if kind == "tolerance":
            # values next to the default 1e-12: a setting that must travel with the object without changing any result
            return [["tolerance", t, draw(st.sampled_from([1e-12, 5e-12, 1e-11])), draw(st.sampled_from([1e-12, 2e-12, 1e-11]))]]
        if kind == "assign":
            out = [assign_op(t)]
            if draw(st.booleans()):
                out.append(["solve", t])
            return out
        if kind == "assign_std":
            if nstd == 0:
                return [["steady", t]]
            which = draw(st.lists(st.integers(0, nstd - 1), min_size=1, max_size=min(nstd, 2), unique=True))
            return [["assign_std", t, [[s, draw(_maybe_list(_STD))] for s in sorted(which)]]]
        if kind == "alter":
            k = draw(st.sampled_from([1, 1, 2, 2, 3]))
            out = [["alter", t, k]]
            if k > 1 and draw(st.sampled_from([True, True, True, False])):
                out.append(assign_op(t, k))
            return out
        return [[kind, t]]

    ops = []
    if draw(st.sampled_from([False, False, True])):
        # the original is widened before anything is derived from it
        k = draw(st.sampled_from([2, 3]))
        ops += [["alter", 0, k], assign_op(0, k)]
        if draw(st.booleans()):
            ops.append(["solve", 0])
    for _ in range(draw(st.sampled_from([0, 0, 1, 2]))):
        ops += random_op()
    # one guaranteed derivation, then (usually) the pattern behind the non-trivial rule
    pool = 1 + sum(1 for o in ops if o[0] in DERIVE_KINDS)
    src = draw(st.integers(0, pool - 1))
    ops.append([draw(st.sampled_from(DERIVE_KINDS)), src])
    new = pool
    if draw(st.sampled_from([True, True, True, False])):
        a = [assign_op(new), ["solve", new]]
        b = [assign_op(src), ["solve", src]]
        extra = random_op() if draw(st.booleans()) else []
        order = draw(st.sampled_from(["ab", "ba", "interleave"]))
        if order == "ab":
            ops += a + extra + b
        elif order == "ba":
            ops += b + extra + a
        else:
            ops += [a[0], b[0]] + extra + [b[1], a[1]]
    for _ in range(draw(st.sampled_from([0, 1, 2, 3, 4]))):
        ops += random_op()
    return {
        "spec": spec,
        "flat": draw(st.booleans()),
        "deterministic": draw(st.sampled_from([False] * 7 + [True])),
        "view_reads": draw(st.booleans()),
        "ops": ops[:MAX_STEPS],
    }


# ---- harness-side model ----------------------------------------------------

class _Var:
    """One parameter variant: values and its own lineage of operations - nothing else."""

    def __init__(self, params, stds, hist, solved, changes_judged=True):
        self.params, self.stds, self.hist = dict(params), dict(stds), list(hist)
        self.solved, self.changes_judged = solved, changes_judged

    def clone(self):
        return _Var(self.params, self.stds, self.hist, self.solved, self.changes_judged)


class _Obj:
    def __init__(self, kind, origin, born, variants):
        self.kind, self.origin, self.born = kind, origin, born
        self.variants = variants
        self.dead = False
        self.events = []          # (step, "assign"|"solve", snapshot of parameter values of all variants)
        self.tolerance = {"eigenvalue": 1e-12, "equality": 1e-12}      # None: not known (the portable form does not carry it)

    def snapshot(self):
        return tuple(tuple(sorted(v.params.items())) for v in self.variants)


def _names(spec, deterministic):
    pn = [p["name"] for p in spec["params"]]
    sn = [] if deterministic else (["std_" + s for s in lm.shock_names(spec) if s] + ["std_" + w for w in lm.mshock_names(spec) if w])
    return pn, sn


def _spread(value, nv):
    """Per-variant values of `assign(name=value)`: list = variants, last element repeated, surplus ignored."""
    if isinstance(value, list):
        return [value[min(k, len(value) - 1)] for k in range(nv)]
    return [value] * nv


class _Harness:
    """Interprets the operation list on the harness-side model (no irispie involved)."""

    def __init__(self, case, default_std):
        spec = case["spec"]
        self.pn, self.sn = _names(spec, case["deterministic"])
        params = lm.param_values(spec)
        stds = {n: default_std for n in self.sn}
        hist = [("assign", dict(params)), ("steady",), ("solve",)] if params else [("steady",), ("solve",)]
        first = _Obj("original", None, -1, [_Var(params, stds, hist, True)])
        self.pool = [first]
        self.labels = set()
        self.linear = not spec["log"]
        self.flat = bool(case["flat"])
        self.vars = list(spec["names"])

    def resolve(self, op):
        """Plain description of what the step does (indices resolved against the current pool)."""
        name = op[0]
        if name in DERIVE_KINDS:
            return {"op": "derive", "kind": name, "src": op[1] % len(self.pool), "new": len(self.pool)}
        i = op[1] % len(self.pool)
        nv = len(self.pool[i].variants)
        if name == "assign":
            vals = {self.pn[p % len(self.pn)]: v for p, v in op[2]} if self.pn else {}
            return {"op": "assign", "obj": i, "raw": vals, "per_variant": {n: _spread(v, nv) for n, v in vals.items()}}
        if name == "assign_std":
            vals = {self.sn[s % len(self.sn)]: v for s, v in op[2]} if self.sn else {}
            return {"op": "assign_std", "obj": i, "raw": vals, "per_variant": {n: _spread(v, nv) for n, v in vals.items()}}
        if name == "alter":
            return {"op": "alter", "obj": i, "k": int(op[2])}
        if name == "tolerance":
            return {"op": "tolerance", "obj": i, "values": {"eigenvalue": float(op[2]), "equality": float(op[3])}}
        if name == "assign_steady":
            if self.flat:
                return {"op": "steady", "obj": i}       # flat models carry no changes (and the JSON route relies on it)
            var = self.vars[int(op[2]) % len(self.vars)]
            pair = (float(op[3]), (1.0 + float(op[4])) if not self.linear else float(op[4]))
            return {"op": "assign_steady", "obj": i, "raw": {var: pair}, "per_variant": {var: [pair] * nv}}
        return {"op": name, "obj": i}

    def commit(self, step, k):
        """Update the harness-side model for a step that was carried out; returns the affected object index."""
        op = step["op"]
        if op == "derive":
            src = self.pool[step["src"]]
            portable = step["kind"].startswith("portable")
            variants = []
            for v in src.variants:
                w = v.clone()
                if portable:
                    w.solved = False
                    if step["kind"] == "portable_json" and not self.flat:
                        # JSON turns the (level, change) two-tuples into lists and from_portable then reads the
                        # level only: the steady changes computed by a nonflat steady() (0 or 1 up to rounding)
                        # are replaced by missing values; everything that depends on them is no longer exact
                        w.changes_judged = False
                variants.append(w)
            new = _Obj(step["kind"], step["src"], k, variants)
            new.dead = src.dead
            new.tolerance = None if portable else (None if src.tolerance is None else dict(src.tolerance))
            self.pool.append(new)
            self.labels.add("derive_" + step["kind"])
            if src.kind != "original":
                self.labels.add("derived_from_derived")
            return step["new"]
        o = self.pool[step["obj"]]
        if op in ("assign", "assign_std"):
            for vi, v in enumerate(o.variants):
                mine = {n: vals[vi] for n, vals in step["per_variant"].items()}
                (v.params if op == "assign" else v.stds).update(mine)
                if mine:
                    v.hist.append(("assign", mine))
            if op == "assign":
                o.events.append((k, "assign", o.snapshot()))
            for n, raw in step["raw"].items():
                if isinstance(raw, list):
                    self.labels.add("assign_list_exact" if len(raw) == len(o.variants) else
                                    ("assign_list_short" if len(raw) < len(o.variants) else "assign_list_long"))
            self.labels.add("op_" + op)
        elif op == "solve":
            for v in o.variants:
                v.hist.append(("solve",))
                v.solved = True
            o.events.append((k, "solve", o.snapshot()))
            self.labels.add("op_solve")
        elif op == "steady":
            for v in o.variants:
                v.hist.append(("steady",))
                if self.linear:
                    v.changes_judged = True      # a direct linear solve: independent of the previous values
            self.labels.add("op_steady")
        elif op == "tolerance":
            o.tolerance = dict(step["values"])
            self.labels.add("op_tolerance")
        elif op == "assign_steady":
            for vi, v in enumerate(o.variants):
                v.hist.append(("assign", {n: vals[vi] for n, vals in step["per_variant"].items()}))
            self.labels.add("op_assign_steady")
        elif op == "alter":
            kk = step["k"]
            if kk < len(o.variants):
                o.variants = o.variants[:kk]
                self.labels.add("alter_shrink")
            elif kk > len(o.variants):
                while len(o.variants) < kk:
                    o.variants.append(o.variants[-1].clone())
                self.labels.add("alter_expand")
            else:
                self.labels.add("alter_same")
        self.labels.add(f"variants_{len(o.variants)}")
        if len(o.variants) > 1 and o.kind != "original":
            self.labels.add("multivariant_derived")
        return step["obj"]

    def nontrivial(self):
        """A derived object and its origin both assigned after the derivation, each then solved, with different values."""
        def last_solve_after_assign(o, after):
            seen_assign, out = False, None
            for k, what, snap in o.events:
                if k <= after:
                    continue
                if what == "assign":
                    seen_assign = True
                elif what == "solve" and seen_assign:
                    out = snap
            return out
        for d in self.pool:
            if d.origin is None or d.dead:
                continue
            o = self.pool[d.origin]
            a, b = last_solve_after_assign(d, d.born), last_solve_after_assign(o, d.born)
            if a is not None and b is not None and a != b:
                return True
        return False


def _classify_sim(case):
    spec = case["spec"]
    h = _Harness(case, 1.0)
    for k, op in enumerate(case["ops"]):
        h.commit(h.resolve(op), k)
    labels = sorted(h.labels)
    labels.append("log_nonlinear" if spec["log"] else "additive_linear")
    labels.append("flat" if case["flat"] else "nonflat")
    if case["deterministic"]:
        labels.append("deterministic")
    labels.append("view_reads" if case["view_reads"] else "whole_object_reads")
    if spec["meas"]:
        labels.append("measurement_block")
    labels.append(f"pool_{len(h.pool)}")
    return h.nontrivial(), labels


# ---- real objects -----------------------------------------------------------

class _Ctx:
    """Everything fixed for one case: source text, flags, names, fixed databoxes."""

    def __init__(self, case):
        ir = _ir()
        spec = case["spec"]
        self.spec = spec
        self.source = lm.source(spec)
        self.kwargs = {"linear": not spec["log"], "flat": bool(case["flat"]), "deterministic": bool(case["deterministic"])}
        self.deterministic = bool(case["deterministic"])
        self.vars = list(spec["names"]) + lm.meas_names(spec)
        self.pn, self.sn = _names(spec, self.deterministic)
        self.start = ir.qq(2021, 1)
        self.span = self.start >> (self.start + NPER - 1)
        Lmax, Fmax = lm.max_lag_lead(spec)
        Lmax = max(Lmax, 1)
        xs, ys = lm.steady(spec)
        f = (lambda a: math.exp(a)) if spec["log"] else float
        base = [f(v) for v in xs] + [f(v) for v in ys]
        db = ir.Databox()
        nt = Lmax + NPER + Fmax
        first = self.start - Lmax
        for j, nm in enumerate(self.vars):
            vals = []
            for t in range(nt):
                d = 0.1 * ((j + t) % 3 - 1) if t < Lmax else 0.0
                vals.append(base[j] * math.exp(d) if spec["log"] else base[j] + d)
            db[nm] = ir.Series(start=first, values=tuple(vals))
        zeros = (0.0,) * nt
        scale = 0.1 if spec["log"] else 1.0
        for i, s in enumerate(lm.shock_names(spec)):
            if s:
                db[s] = ir.Series(start=first, values=zeros)
                db["ant_" + s] = ir.Series(start=first, values=zeros)
                db[s][self.start] = scale * (1.0 + 0.5 * i)
                db[s][self.start + 2] = -0.5 * scale
                db["ant_" + s][self.start + 3] = 0.7 * scale
        for k, w in enumerate(lm.mshock_names(spec)):
            if w:
                db[w] = ir.Series(start=first, values=zeros)
                db[w][self.start + 1] = 0.3 * scale * (k + 1)
        self.db_sim = db
        wig = (0.3, -0.5, 0.8, -0.2, 0.1, 0.6)
        dk = ir.Databox()
        for k, nm in enumerate(lm.meas_names(spec)):
            y = base[spec["n"] + k]
            vals = [(y * math.exp(0.2 * wig[(t + k) % 6])) if spec["log"] else (y + wig[(t + k) % 6]) for t in range(NPER)]
            dk[nm] = ir.Series(start=self.start, values=tuple(vals))
        self.db_kf = dk
        self.has_kf = bool(spec["meas"]) and not self.deterministic

    def new_model(self):
        return _ir().Simultaneous.from_string(self.source, **self.kwargs)


def _apply_hist(m, hist):
    for h in hist:
        if h[0] == "assign":
            m.assign(**h[1])
        elif h[0] == "steady":
            _quiet(m.steady)
        elif h[0] == "solve":
            m.solve()


def _vector_names(m):
    q2n = m.create_qid_to_name()
    sv = m.solution_vectors
    out = []
    for fld in ("transition_variables", "transition_shocks", "anticipated_shock_values", "measurement_variables", "measurement_shocks"):
        out.append([(q2n.get(t.qid), int(t.shift)) for t in getattr(sv, fld)])
    return out


def _per_variant(value, nv):
    """Result of a getter called with unpack_singleton=False -> list over variants."""
    if isinstance(value, list):
        return list(value)
    return [value] * nv


def _observe_whole(ctx, m, nv, want_solution, deep, sim):
    """Observables of all `nv` variants of `m`, read from the object as a whole: list of dicts over variants."""
    lev = m.get_steady_levels(unpack_singleton=False)
    chg = m.get_steady_changes(unpack_singleton=False)
    par = m.get_parameters(unpack_singleton=False)
    std = m.get_stds(unpack_singleton=False)
    out = []
    for k in range(nv):
        o = {
            "levels": [_per_variant(lev[n], nv)[k] for n in ctx.vars],
            "changes": [_per_variant(chg[n], nv)[k] for n in ctx.vars],
            "parameters": {n: _per_variant(par[n], nv)[k] for n in ctx.pn},
            "stds": {n: _per_variant(std[n], nv)[k] for n in ctx.sn},
        }
        out.append(o)
    if any(want_solution):
        sols = m.get_solution(unpack_singleton=False)
        vec = _vector_names(m)
        for k in range(nv):
            if want_solution[k]:
                s = sols[k]
                out[k]["vectors"] = vec
                out[k]["solution"] = None if s is None else {nm: getattr(s, nm) for nm in SOL_NAMES}
    if deep:
        # residuals of the dynamic equations at the steady state, evaluated by the compiled equation functions
        try:
            _, info = m.check_steady(when_fails="silent", return_info=True)
        except Exception as exc:  # noqa: BLE001 - e.g. no steady state yet; the reference must behave the same
            for k in range(nv):
                out[k]["check_steady_raises"] = type(exc).__name__
        else:
            info = info if isinstance(info, list) else [info]
            for k in range(nv):
                out[k]["check_steady"] = info[k]["discrepancies"]
    if deep:
        # parameter and std values carried by the databoxes built from the model (levels, deviations, zeros)
        ir = _ir()
        for label, maker in (("steady_deviation", lambda: ir.Databox.steady(m, ctx.span, deviation=True)),
                             ("steady_levels", lambda: ir.Databox.steady(m, ctx.span)),
                             ("zero", lambda: ir.Databox.zero(m, ctx.span))):
            try:
                box = maker()
            except Exception:  # noqa: BLE001 - e.g. no steady state yet: not an observation
                continue
            keys = set(box.keys())
            for k in range(nv):
                out[k]["box:" + label] = {n: _per_variant(box[n], nv)[k] for n in list(ctx.pn) + list(ctx.sn) if n in keys}
    if sim:
        res = m.simulate(ctx.db_sim, ctx.span, method="first_order")
        for k in range(nv):
            out[k]["simulate"] = {nm: np.asarray(res[nm].get_data(ctx.span), dtype=float)[:, k] for nm in ctx.vars}
        if ctx.has_kf:
            try:
                _, info = m.kalman_filter(ctx.db_kf, ctx.span, return_info=True)
            except Exception as exc:  # noqa: BLE001 - e.g. a singular forecast-error covariance: the reference must reject it too
                for k in range(nv):
                    out[k]["kalman_raises"] = type(exc).__name__
            else:
                info = info if isinstance(info, list) else [info]
                for k in range(nv):
                    out[k]["kalman"] = [info[k]["neg_log_likelihood"]]
    return out


def _observe(ctx, m, nv, want_solution, deep, use_view):
    sim = deep and all(want_solution)
    if not use_view or nv == 1:
        return _observe_whole(ctx, m, nv, want_solution, deep, sim)
    out = []
    for k in range(nv):
        view = m.get_variant(k) if k % 2 == 0 else m[k]
        out += _observe_whole(ctx, view, 1, [want_solution[k]], deep, sim)
    return out


class _Shadow:
    """Fresh single-variant reference model of one variant, with cached observations."""

    def __init__(self, ctx, hist):
        self.m = ctx.new_model()
        _apply_hist(self.m, hist)
        self.cache = {}

    def apply(self, h):
        self.cache = {}
        _apply_hist(self.m, [h])

    def observe(self, ctx, want_solution, deep, sim):
        key = (bool(want_solution), bool(deep), bool(sim))
        if key not in self.cache:
            self.cache[key] = _observe_whole(ctx, self.m, 1, [want_solution], deep, sim)[0]
        return self.cache[key]


def _compare_variant(col, ctx, tag, got, ref, var, where, nv_is_one=True):
    """One variant of a real object against its shadow and the harness-side values."""
    for n in ctx.pn:
        col.check(got["parameters"][n] == var.params.get(n), f"{tag}:parameter_value",
                  lambda: f"{where}: parameter {n} reads {got['parameters'][n]!r}, assigned {var.params.get(n)!r}")
    for n in ctx.sn:
        col.check(got["stds"][n] == var.stds.get(n), f"{tag}:std_value",
                  lambda: f"{where}: {n} reads {got['stds'][n]!r}, assigned {var.stds.get(n)!r}")
    for label in ("steady_deviation", "steady_levels", "zero"):
        box = got.get("box:" + label)
        if box is None:
            continue
        for n, val in box.items():
            want_ = var.params.get(n) if n in ctx.pn else var.stds.get(n)
            col.check(val == want_, f"{tag}:databox_{label}",
                      lambda: f"{where}: Databox.{'zero' if label == 'zero' else 'steady'} carries {n}={val!r} for this variant, assigned {want_!r}")
    d = _differs(got["levels"], ref["levels"])
    col.check(d is None, f"{tag}:steady_levels", lambda: f"{where}: steady levels of {ctx.vars}: {d}")
    if var.changes_judged:
        d2 = _differs(got["changes"], ref["changes"])
        col.check(d2 is None, f"{tag}:steady_changes", lambda: f"{where}: steady changes of {ctx.vars}: {d2}")
    if "solution" in got and "solution" in ref:
        gs, rs = got["solution"], ref["solution"]
        if gs is None or rs is None:
            col.check(gs is None and rs is None, f"{tag}:solution_missing",
                      lambda: f"{where}: solution is {'missing' if gs is None else 'present'}, reference {'missing' if rs is None else 'present'}")
        else:
            if col.check(got["vectors"] == ref["vectors"], f"{tag}:solution_vectors",
                         lambda: f"{where}: solution vectors {got['vectors']} vs {ref['vectors']}"):
                for nm in SOL_NAMES:
                    dd = _differs(gs[nm], rs[nm])
                    if not col.check(dd is None, f"{tag}:solution", lambda: f"{where}: solution matrix {nm}: {dd}"):
                        break
    if not var.changes_judged:
        return
    if nv_is_one and ("check_steady_raises" in got or "check_steady_raises" in ref):
        col.check(got.get("check_steady_raises") == ref.get("check_steady_raises"), f"{tag}:check_steady_raises_differently",
                  lambda: f"{where}: check_steady raised {got.get('check_steady_raises')!r}, on the reference {ref.get('check_steady_raises')!r}")
    if "check_steady" in got and "check_steady" in ref:
        dd = _differs(got["check_steady"], ref["check_steady"], atol=1e-10)
        col.check(dd is None, f"{tag}:check_steady", lambda: f"{where}: dynamic-equation discrepancies at the steady state: {dd}")
    if "simulate" in got and "simulate" in ref:
        for nm in ctx.vars:
            dd = _differs(got["simulate"][nm], ref["simulate"][nm])
            if not col.check(dd is None, f"{tag}:simulate", lambda: f"{where}: simulated {nm}: {dd}"):
                break
    if nv_is_one and ("kalman_raises" in got or "kalman_raises" in ref):
        col.check(got.get("kalman_raises") == ref.get("kalman_raises"), f"{tag}:kalman_raises_differently",
                  lambda: f"{where}: kalman_filter raised {got.get('kalman_raises')!r}, on the reference {ref.get('kalman_raises')!r}")
    if "kalman" in got and "kalman" in ref:
        dd = _differs(got["kalman"], ref["kalman"])
        col.check(dd is None, f"{tag}:kalman_likelihood", lambda: f"{where}: neg log likelihood: {dd}")


def _portable_structure(m):
    return {
        "quantities": [(q.human, q.kind.name, q.logly) for q in m.get_quantities()],
        "dynamic_equations": list(m.get_dynamic_equations()),
        "steady_equations": list(m.get_steady_equations()),
        "equations": list(m.get_equations()),
        "flags": {"is_linear": bool(m.is_linear), "is_flat": bool(m.is_flat), "is_deterministic": bool(m.is_deterministic)},
        "num_variants": int(m.num_variants),
    }


def _compare_structure(col, tag, a, b, where):
    """Structure of the recreated model `b` against the exported model `a`; True iff equal."""
    ok = True
    qa, qb = a["quantities"], b["quantities"]
    ok &= col.check(sorted(n for n, _, _ in qa) == sorted(n for n, _, _ in qb), f"{tag}:names",
                    lambda: f"{where}: names {[n for n, _, _ in qa]} became {[n for n, _, _ in qb]}")
    if ok:
        ok &= col.check({n: k for n, k, _ in qa} == {n: k for n, k, _ in qb}, f"{tag}:kinds",
                        lambda: f"{where}: kinds {qa} became {qb}")
        ok &= col.check({n: g for n, _, g in qa} == {n: g for n, _, g in qb}, f"{tag}:log_status",
                        lambda: f"{where}: log status {qa} became {qb}")
        ok &= col.check([n for n, _, _ in qa] == [n for n, _, _ in qb], f"{tag}:quantity_order",
                        lambda: f"{where}: order {[n for n, _, _ in qa]} became {[n for n, _, _ in qb]}")
    ok &= col.check(a["dynamic_equations"] == b["dynamic_equations"], f"{tag}:dynamic_equations",
                    lambda: f"{where}: dynamic equations {a['dynamic_equations']} became {b['dynamic_equations']}")
    ok &= col.check(a.get("equations") == b.get("equations"), f"{tag}:equations",
                    lambda: f"{where}: equations {a.get('equations')} became {b.get('equations')}")
    ok &= col.check(a["steady_equations"] == b["steady_equations"], f"{tag}:steady_equations",
                    lambda: f"{where}: steady equations {a['steady_equations']} became {b['steady_equations']}")
    ok &= col.check(a["flags"] == b["flags"], f"{tag}:flags", lambda: f"{where}: flags {a['flags']} became {b['flags']}")
    ok &= col.check(a["num_variants"] == b["num_variants"], f"{tag}:num_variants",
                    lambda: f"{where}: {a['num_variants']} variants became {b['num_variants']}")
    return bool(ok)


def _derive(col, ctx, kind, src, where):
    """New object from `src`; None when the derivation failed (failure recorded in `col`)."""
    ir = _ir()
    try:
        if kind == "copy":
            return src.copy()
        if kind == "pickle":
            return pickle.loads(pickle.dumps(src))
        if kind == "dill":
            import dill
            return dill.loads(dill.dumps(src))
        if kind == "saveload":
            d = tempfile.mkdtemp(prefix="c20_")
            try:
                path = os.path.join(d, "model.dill")
                ir.save(path, src)
                return ir.load(path)
            finally:
                shutil.rmtree(d, ignore_errors=True)
    except Exception as exc:  # noqa: BLE001 - these derivations must not raise
        col.fail(f"{kind}:raises:{type(exc).__name__}", f"{where}: {type(exc).__name__}: {exc}\n{ctx.source}"[:1500])
        return None
    # portable forms
    try:
        p = src.to_portable()
    except Exception as exc:  # noqa: BLE001
        col.fail(f"portable:to_portable:raises:{type(exc).__name__}", f"{where}: {type(exc).__name__}: {exc}\n{ctx.source}"[:1500])
        return None
    if kind == "portable_json":
        try:
            p = json.loads(json.dumps(p))
        except Exception as exc:  # noqa: BLE001 - documented as JSON-serialisable
            col.fail(f"portable:json:raises:{type(exc).__name__}", f"{where}: {type(exc).__name__}: {exc}"[:1500])
            return None
    try:
        new = type(src).from_portable(p)
    except Exception as exc:  # noqa: BLE001
        col.fail(f"portable:from_portable:raises:{type(exc).__name__}", f"{where}: {type(exc).__name__}: {exc}\n{ctx.source}"[:1500])
        return None
    if not _compare_structure(col, "portable", _portable_structure(src), _portable_structure(new), f"{where}\n{ctx.source}"):
        return None
    return new


@_silent
def _check_sim(case):
    spec = case["spec"]
    if lm.classify(spec)[0] != "determinate" or lm.steady(spec)[0] is None:
        return {"labels": ["model_not_in_domain"], "nontrivial": False}
    col = Collector()
    ctx = _Ctx(case)
    original = api("original:from_string", ctx.new_model)
    default_std = None
    if ctx.sn:
        stds0 = api("original:get_stds", original.get_stds)
        default_std = stds0[ctx.sn[0]]
    h = _Harness(case, default_std)
    try:
        _apply_hist(original, h.pool[0].variants[0].hist)
    except Exception:  # noqa: BLE001 - the base parameterisation is rejected: nothing to examine
        return {"labels": ["base_model_rejected"], "nontrivial": False}
    real = [original]
    shadows = [[_Shadow(ctx, h.pool[0].variants[0].hist)]]
    use_view = bool(case["view_reads"])
    outcome = []

    def compare_all(k, touched, last):
        for i, o in enumerate(h.pool):
            if o.dead:
                continue
            nv = len(o.variants)
            tag = o.kind
            where = f"step {k} ({case['ops'][k] if k >= 0 else 'initial'}), object {i} [{o.kind} of {o.origin}]"
            got_nv = api(f"{tag}:num_variants", lambda: real[i].num_variants)
            if not col.check(got_nv == nv, f"{tag}:num_variants", lambda: f"{where}: {got_nv} variants, expected {nv}"):
                o.dead = True
                continue
            if o.tolerance is not None:
                got_tol = api(f"{tag}:get_tolerance", lambda: dict(real[i].get_tolerance()))
                if not col.check(got_tol == o.tolerance, f"{tag}:tolerance", lambda: f"{where}: tolerance {got_tol}, set (or inherited) {o.tolerance}"):
                    o.dead = True
                    continue
            want = [v.solved and v.changes_judged for v in o.variants]
            deep = last or i in touched
            n_before = len(col.items)
            try:
                got = _observe(ctx, real[i], nv, want, deep, use_view)
            except Violation:
                raise
            except Exception as exc:  # noqa: BLE001 - reading results of a live object must not raise
                col.fail(f"{tag}:observe:raises:{type(exc).__name__}", f"{where}: {type(exc).__name__}: {exc}\n{ctx.source}"[:1500])
                o.dead = True
                continue
            if ctx.spec["log"] and any(isinstance(x, float) and math.isfinite(x) and not (1e-6 < x < 1e6) for g_ in got for x in g_["levels"]):
                # the iterative steady solver ended in a near-zero pseudo-solution of the multiplicative equations
                # (absolute residual test, DESIGN.md section 12): where it stops depends on the starting values, which
                # an object and its replayed lineage need not share to the last bit
                o.dead = True
                outcome.append("retired_near_zero_pseudo_solution")
                continue
            for vi, v in enumerate(o.variants):
                ref = shadows[i][vi].observe(ctx, want[vi], deep, deep and all(want))
                _compare_variant(col, ctx, tag, got[vi], ref, v, f"{where} variant {vi}/{nv}\n{ctx.source}", nv == 1 or use_view)
            if len(col.items) > n_before:
                o.dead = True     # report each object once; keep examining the others

    compare_all(-1, {0}, not case["ops"])
    for k, op in enumerate(case["ops"]):
        step = h.resolve(op)
        last = k == len(case["ops"]) - 1
        where = f"step {k} {op}"
        if step["op"] == "derive":
            src = h.pool[step["src"]]
            if src.dead:
                h.commit(step, k)
                real.append(None)
                shadows.append([])
                outcome.append("skipped_dead_source")
                compare_all(k, set(), last)
                continue
            new = _derive(col, ctx, step["kind"], real[step["src"]], where)
            j = h.commit(step, k)
            real.append(new)
            if new is None:
                h.pool[j].dead = True
                shadows.append([])
                outcome.append("derivation_failed")
            else:
                col.check(new is not real[step["src"]], f"{step['kind']}:same_object", where)
                try:
                    shadows.append([_Shadow(ctx, v.hist) for v in h.pool[j].variants])
                except Exception as exc:  # noqa: BLE001 - a lineage that ran on the object must run on a fresh model
                    col.fail(f"replay:raises:{type(exc).__name__}", f"{where}: replaying the lineage on a fresh model: {type(exc).__name__}: {exc}\n{ctx.source}"[:1500])
                    h.pool[j].dead = True
                    shadows.append([])
            compare_all(k, {j}, last)
            continue
        i = step["obj"]
        o = h.pool[i]
        if o.dead:
            outcome.append("skipped_dead_target")
            compare_all(k, set(), last)
            continue
        m = real[i]
        if step["op"] in ("assign", "assign_std", "assign_steady"):
            if step["raw"]:
                api(f"{o.kind}:assign", lambda: m.assign(**step["raw"]))
            h.commit(step, k)
            for vi, sh in enumerate(shadows[i]):
                mine = {n: vals[vi] for n, vals in step["per_variant"].items()}
                if mine:
                    sh.apply(("assign", mine))
        elif step["op"] == "tolerance":
            api(f"{o.kind}:override_tolerance", lambda: m.override_tolerance(**step["values"]))
            h.commit(step, k)
        elif step["op"] == "alter":
            api(f"{o.kind}:alter_num_variants", m.alter_num_variants, step["k"])
            before = len(o.variants)
            h.commit(step, k)
            shadows[i] = shadows[i][:len(o.variants)]
            try:
                for vi in range(before, len(o.variants)):
                    shadows[i].append(_Shadow(ctx, o.variants[vi].hist))
            except Exception as exc:  # noqa: BLE001
                col.fail(f"replay:raises:{type(exc).__name__}", f"{where}: {type(exc).__name__}: {exc}\n{ctx.source}"[:1500])
                o.dead = True
        elif step["op"] == "steady" and not h.linear and not all(v.changes_judged for v in o.variants):
            # the iterative steady solver would start from values the JSON route has altered: not comparable any more
            o.dead = True
            outcome.append("retired_inexact_before_nonlinear_steady")
        else:
            fn = (lambda mm: mm.solve()) if step["op"] == "solve" else (lambda mm: _quiet(mm.steady))
            exc_obj = None
            try:
                fn(m)
            except Exception as exc:  # noqa: BLE001 - a parameterisation may be rejected
                exc_obj = exc
            exc_ref = None
            for sh in shadows[i]:
                try:
                    sh.cache = {}
                    fn(sh.m)
                except Exception as exc:  # noqa: BLE001
                    exc_ref = exc
                    break
            if exc_obj is None and exc_ref is None:
                h.commit(step, k)
            else:
                judged = all(v.changes_judged for v in o.variants)
                if judged:
                    col.check(exc_obj is not None and exc_ref is not None, f"{o.kind}:{step['op']}:raises_differently",
                              lambda: f"{where}: object raised {exc_obj!r}, fresh reference raised {exc_ref!r}\n{ctx.source}"[:1500])
                o.dead = True
                outcome.append(f"{step['op']}_rejected")
        compare_all(k, {i}, last)
    col.done()
    labels = sorted(set(outcome))
    return {"labels": labels, "nontrivial": h.nontrivial()}


# ===========================================================================
# 2. portable (structure and idempotence)
# ===========================================================================

@st.composite
def _port_case(draw):
    spec = draw(lm.spec_strategy(max_n=3, meas=(0, 2)))
    _ensure_parameter(spec, draw(st.integers(0, 7)))
    if draw(st.integers(0, 2)) == 0:
        for e in spec["eqs"]:
            e["shock"] = 0.0
    nv = draw(st.sampled_from([1, 1, 2, 3]))
    vals = st.integers(-18, 18).map(lambda k: k / 20.0)
    return {
        "spec": spec,
        "linear": draw(st.booleans()), "flat": draw(st.booleans()), "deterministic": draw(st.booleans()),
        "nv": nv,
        "params": [[draw(vals) for _ in range(nv)] for _ in spec["params"]],
        "stds": [draw(_STD) for _ in range(nv)],
        "levels": [[draw(st.integers(1, 40).map(lambda k: k / 10.0)) for _ in range(nv)] for _ in range(spec["n"])],
        "changes": draw(st.booleans()),
        "steady_alt": draw(st.lists(st.integers(0, spec["n"] - 1), max_size=2, unique=True)),
        "json": draw(st.booleans()),
        "description": draw(st.sampled_from(["", "A model", "x \"quoted\" y"])),
        # declared exogenous variables [name, in logs]: kinds and log status must survive the portable form as well
        "exog": draw(st.lists(st.tuples(st.sampled_from(["zf", "tx"]), st.booleans()).map(list), max_size=2, unique_by=lambda t: t[0])),
        # a !steady-autovalues block (a parameter computed from the steady state): one more kind of equation to carry
        "autovalue": draw(st.sampled_from([False, False, True])),
    }


def _port_source(case):
    import re
    spec = case["spec"]
    lines = lm.source(spec).split("\n")
    at = lines.index("!transition-equations")
    for i in case["steady_alt"]:
        ln = lines[at + 1 + i]
        body = ln.strip().rstrip(";")
        lines[at + 1 + i] = f"    {body} !! {re.sub(r'[{][-+][0-9]+[}]', '', body)};"
    exog = case.get("exog") or []
    if exog:
        block = ["!exogenous-variables", "    " + ", ".join(n for n, _ in exog)]
        logs = [n for n, lg in exog if lg]
        if logs:
            block += ["!log-variables", "    " + ", ".join(logs)]
        at = lines.index("!transition-equations")
        lines[at:at] = block
        # the exogenous variables enter the first equation with a zero weight (no change of meaning)
        ln = lines[at + len(block) + 1]
        body = ln.strip().rstrip(";")
        if "!!" not in body:
            extra = "".join((f" * {n}^0" if spec["log"] else f" + 0*{n}") for n, _ in exog)
            lines[at + len(block) + 1] = f"    {body}{extra};"
    if case.get("autovalue"):
        if "!parameters" in lines:
            k = lines.index("!parameters")
            lines[k + 1] = lines[k + 1] + ", auto_p"
        else:
            at = lines.index("!transition-equations")
            lines[at:at] = ["!parameters", "    auto_p"]
        while lines and not lines[-1].strip():
            lines.pop()
        lines += ["!steady-autovalues", f"    auto_p = {spec['names'][0]}/2;", ""]
    return "\n".join(lines)


def _classify_port(case):
    spec = case["spec"]
    has_shocks = any(e["shock"] != 0 for e in spec["eqs"])
    labels = [f"variants_{case['nv']}", "json" if case["json"] else "direct",
              "with_transition_shocks" if has_shocks else "without_transition_shocks"]
    for f in ("linear", "flat", "deterministic"):
        if case[f]:
            labels.append("flag_" + f)
    if spec["log"]:
        labels.append("log_variables")
    if case["steady_alt"]:
        labels.append("steady_versions")
    if case.get("exog"):
        labels.append("exogenous_variables" + ("_log" if any(lg for _, lg in case["exog"]) else ""))
    if case.get("autovalue"):
        labels.append("steady_autovalues_block")
    if spec["meas"]:
        labels.append("measurement_block")
    nontrivial = bool(spec["params"]) and (case["linear"] or case["flat"] or case["deterministic"] or spec["log"] or case["nv"] > 1)
    return nontrivial, labels


def _norm(x):
    """Tuples -> lists, recursively (what JSON does to the representation)."""
    if isinstance(x, (list, tuple)):
        return [_norm(v) for v in x]
    if isinstance(x, dict):
        return {k: _norm(v) for k, v in x.items()}
    return x


@_silent
def _check_port(case):
    ir = _ir()
    col = Collector()
    spec = case["spec"]
    nv = case["nv"]
    src = _port_source(case)
    where = f"linear={case['linear']} flat={case['flat']} deterministic={case['deterministic']} json={case['json']}\n{src}"
    m = api("portable:from_string", ir.Simultaneous.from_string, src, linear=case["linear"], flat=case["flat"],
            deterministic=case["deterministic"], description=case["description"])
    if nv > 1:
        api("portable:alter_num_variants", m.alter_num_variants, nv)
    pn, sn = _names(spec, case["deterministic"])
    assign = {}
    for n, v in zip(pn, case["params"]):
        assign[n] = list(v) if nv > 1 else v[0]
    for n in sn:
        assign[n] = list(case["stds"]) if nv > 1 else case["stds"][0]
    for j, n in enumerate(spec["names"]):
        lv = case["levels"][j]
        if case["changes"]:
            ch = [1.0 + 0.01 * (j + 1) if spec["log"] else 0.01 * (j + 1)] * nv
            assign[n] = [(a, c) for a, c in zip(lv, ch)] if nv > 1 else (lv[0], ch[0])
        else:
            assign[n] = list(lv) if nv > 1 else lv[0]
    if case.get("autovalue"):
        assign["auto_p"] = [0.5] * nv if nv > 1 else 0.5
    api("portable:assign", lambda: m.assign(**assign))
    try:
        p = m.to_portable()
    except Exception as exc:  # noqa: BLE001
        raise Violation(f"portable:to_portable:raises:{type(exc).__name__}", f"{type(exc).__name__}: {exc}\n{where}"[:1500])
    if case["json"]:
        try:
            p = json.loads(json.dumps(p))
        except Exception as exc:  # noqa: BLE001
            raise Violation(f"portable:json:raises:{type(exc).__name__}", f"{type(exc).__name__}: {exc}\n{where}"[:1500])
    before = copy.deepcopy(_norm(p))
    try:
        m2 = ir.Simultaneous.from_portable(p)
    except Exception as exc:  # noqa: BLE001
        raise Violation(f"portable:from_portable:raises:{type(exc).__name__}", f"{type(exc).__name__}: {exc}\n{where}"[:1500])
    col.check(_norm(p) == before, "portable:from_portable_mutates_argument", where)
    a, b = _portable_structure(m), _portable_structure(m2)
    same = _compare_structure(col, "portable", a, b, where)
    # the flags must be what the model was created with, not only what the getters agree on
    col.check(a["flags"] == {"is_linear": case["linear"], "is_flat": case["flat"], "is_deterministic": case["deterministic"]},
              "portable:flags_of_source_model", lambda: f"{a['flags']}\n{where}")
    if same:
        for getter in ("get_parameters", "get_stds", "get_steady_levels") + (() if case["json"] else ("get_steady_changes",)):
            ga = api(f"portable:{getter}", getattr(m, getter), unpack_singleton=False)
            gb = api(f"portable:{getter}", getattr(m2, getter), unpack_singleton=False)
            keys_a, keys_b = sorted(ga.keys()), sorted(gb.keys())
            if not col.check(keys_a == keys_b, f"portable:{getter}:names", lambda: f"{keys_a} vs {keys_b}\n{where}"):
                continue
            for n in keys_a:
                d = _differs(_per_variant(gb[n], nv), _per_variant(ga[n], nv), rtol=0.0, atol=0.0)
                if not col.check(d is None, f"portable:{getter}:values", lambda: f"{n}: {d}\n{where}"):
                    break
        # the assigned parameter values themselves
        gp = m2.get_parameters(unpack_singleton=False)
        for n, v in zip(pn, case["params"]):
            col.check(_per_variant(gp[n], nv) == list(v), "portable:parameter_values", lambda: f"{n}: {gp[n]!r} vs assigned {v}\n{where}")
        col.check(m2.get_description() == m.get_description(), "portable:description",
                  lambda: f"{m.get_description()!r} became {m2.get_description()!r}")
        # idempotence of the representation
        try:
            p2 = _norm(m2.to_portable())
        except Exception as exc:  # noqa: BLE001
            raise Violation(f"portable:second_to_portable:raises:{type(exc).__name__}", f"{type(exc).__name__}: {exc}\n{where}"[:1500])
        col.check(p2["source"] == before["source"], "portable:not_idempotent:source",
                  lambda: f"first  {json.dumps(before['source'])}\nsecond {json.dumps(p2['source'])}\n{where}")
        if case["json"]:
            lv1 = [{k: v[0] for k, v in var.items()} for var in before["variants"]]
            lv2 = [{k: v[0] for k, v in var.items()} for var in p2["variants"]]
            col.check(lv1 == lv2, "portable:not_idempotent:levels", lambda: f"first {lv1}\nsecond {lv2}\n{where}")
        else:
            col.check(p2["variants"] == before["variants"], "portable:not_idempotent:variants",
                      lambda: f"first  {before['variants']}\nsecond {p2['variants']}\n{where}")
    col.done()


# ===========================================================================
# 3. sequential_ops
# ===========================================================================

SEQ_DERIVE = ("copy", "pickle", "dill", "saveload")


@st.composite
def _seq_case(draw):
    n = draw(st.integers(1, 3))
    coef = st.integers(-9, 9).map(lambda k: k / 10.0)
    eqs = []
    for i in range(n):
        eqs.append({
            "lhs": draw(st.sampled_from(["plain", "plain", "diff", "identity"])),
            "lag": draw(st.integers(1, 2)),
            "own": draw(coef), "exo": draw(coef), "const": draw(coef),
            "cross": draw(coef) if i > 0 else 0.0,
        })
    npar = 2 * n
    ops = []
    for _ in range(draw(st.integers(1, 8))):
        kind = draw(st.sampled_from(["derive", "derive", "assign", "assign", "assign", "alter", "reorder", "sequentialize"]))
        t = draw(st.integers(0, 4))
        if kind == "derive":
            ops.append([draw(st.sampled_from(SEQ_DERIVE)), t])
        elif kind == "assign":
            which = draw(st.lists(st.integers(0, npar - 1), min_size=1, max_size=2, unique=True))
            ops.append(["assign", t, [[p, draw(coef)] for p in sorted(which)]])
        elif kind == "reorder":
            ops.append(["reorder", t, draw(st.permutations(list(range(n))))])
        elif kind == "sequentialize":
            ops.append(["sequentialize", t])
        else:
            ops.append(["alter", t, draw(st.integers(1, 3))])
    return {"eqs": eqs, "ops": ops, "order": draw(st.sampled_from(["dates_equations", "equations_dates"]))}


def _seq_source(case):
    names = ["x", "y", "w"]
    pn, lines = [], []
    for i, e in enumerate(case["eqs"]):
        v = names[i]
        a, b = f"a_{v}", f"b_{v}"
        pn += [a, b]
        rhs = f"{a}*{v}[-{e['lag']}] + {b}*z + ({e['const']!r})"
        if i > 0:
            rhs += f" + ({e['cross']!r})*{names[i - 1]}"
        if e["lhs"] == "diff":
            lines.append(f"    diff({v}) = {a}*diff({v}[-1]) + {b}*z + ({e['const']!r});")
        elif e["lhs"] == "identity":
            lines.append(f"    {v} === {rhs};")
        else:
            lines.append(f"    {v} = {rhs};")
    src = "!parameters\n    " + ", ".join(pn) + "\n!equations\n" + "\n".join(lines) + "\n"
    return src, pn, names[:len(case["eqs"])]


def _seq_walk(case):
    """Harness-side interpretation: list of resolved steps and the final pool [(kind, origin, params, nv)]."""
    src, pn, _ = _seq_source(case)
    base = {}
    for i, e in enumerate(case["eqs"]):
        base[pn[2 * i]], base[pn[2 * i + 1]] = e["own"], e["exo"]
    pool = [{"kind": "original", "origin": None, "params": dict(base), "nv": 1, "struct": []}]
    steps = []
    for op in case["ops"]:
        if op[0] in SEQ_DERIVE:
            s = op[1] % len(pool)
            steps.append({"op": "derive", "kind": op[0], "src": s})
            pool.append({"kind": op[0], "origin": s, "params": dict(pool[s]["params"]), "nv": pool[s]["nv"],
                         "struct": list(pool[s]["struct"])})
        elif op[0] in ("reorder", "sequentialize"):
            i = op[1] % len(pool)
            what = ["reorder", list(op[2])] if op[0] == "reorder" else ["sequentialize"]
            steps.append({"op": op[0], "obj": i, "what": what})
            pool[i]["struct"].append(what)
        elif op[0] == "assign":
            i = op[1] % len(pool)
            vals = {pn[p % len(pn)]: v for p, v in op[2]}
            steps.append({"op": "assign", "obj": i, "values": vals})
            pool[i]["params"].update(vals)
        else:
            i = op[1] % len(pool)
            steps.append({"op": "alter", "obj": i, "k": op[2]})
            pool[i]["nv"] = op[2]
    return steps, pool


def _classify_seq(case):
    steps, pool = _seq_walk(case)
    labels = sorted({"derive_" + s["kind"] for s in steps if s["op"] == "derive"} | {"op_" + s["op"] for s in steps if s["op"] != "derive"})
    labels += sorted({f"variants_{o['nv']}" for o in pool})
    labels += sorted({"lhs_" + e["lhs"] for e in case["eqs"]})
    nontrivial = any(o["origin"] is not None and (o["params"] != pool[o["origin"]]["params"] or o["struct"] != pool[o["origin"]]["struct"])
                     for o in pool)
    return nontrivial, labels


def _seq_db(case, names):
    ir = _ir()
    start = ir.qq(2020, 1)
    db = ir.Databox()
    for j, v in enumerate(names):
        db[v] = ir.Series(start=start - 3, values=(1.0 + 0.1 * j, 1.2 - 0.1 * j, 0.9 + 0.05 * j))
        db["res_" + v] = ir.Series(start=start, values=tuple(0.05 * ((t + j) % 3 - 1) for t in range(NPER)))
    db["z"] = ir.Series(start=start - 3, values=tuple(0.5 + 0.1 * ((3 * t) % 7) for t in range(NPER + 3)))
    return db, start >> (start + NPER - 1)


def _seq_derive(col, kind, src, where):
    ir = _ir()
    try:
        if kind == "copy":
            return src.copy()
        if kind == "pickle":
            return pickle.loads(pickle.dumps(src))
        if kind == "dill":
            import dill
            return dill.loads(dill.dumps(src))
        d = tempfile.mkdtemp(prefix="c20_")
        try:
            path = os.path.join(d, "object.dill")
            ir.save(path, src)
            return ir.load(path)
        finally:
            shutil.rmtree(d, ignore_errors=True)
    except Exception as exc:  # noqa: BLE001 - must not raise
        col.fail(f"{where}:{kind}:raises:{type(exc).__name__}", f"{type(exc).__name__}: {exc}"[:1200])
        return None


@_silent
def _check_seq(case):
    ir = _ir()
    col = Collector()
    src, pn, names = _seq_source(case)
    steps, _ = _seq_walk(case)
    db, span = _seq_db(case, names)
    base = {}
    for i, e in enumerate(case["eqs"]):
        base[pn[2 * i]], base[pn[2 * i + 1]] = e["own"], e["exo"]
    cache = {}

    def reference(params, struct):
        """A fresh object from the source, the lineage's structural operations replayed on it (never derived, never shared)."""
        key = (tuple(sorted(params.items())), json.dumps(struct))
        if key not in cache:
            f = ir.Sequential.from_string(src)
            for what in struct:
                if what[0] == "reorder":
                    f.reorder_equations(list(what[1]))
                else:
                    f.sequentialize()
            f.assign(**params)
            out = f.simulate(db, span, execution_order=case["order"], when_simulates_nan="silent")
            cache[key] = ({v: np.asarray(out[v].get_data(span), dtype=float)[:, 0] for v in names},
                          tuple(f.lhs_names), tuple(f.get_equations()), planned(f))
        return cache[key]

    plan_var = next((names[i] for i, e in enumerate(case["eqs"]) if e["lhs"] != "identity"), None)

    def planned(obj):
        """Simulation with a plan that exogenizes a left-hand variable at one date: exercises the residual back-out of
        the equation objects, which a plain simulation never calls.  {name: column of the first variant} or None."""
        if plan_var is None:
            return None
        ir_ = _ir()
        pl = ir_.SimulationPlan(obj, span)
        pl.exogenize(span.start + 1, plan_var)
        dbp = db.copy()
        dbp[plan_var][span.start + 1] = 1.25
        outp = obj.simulate(dbp, span, plan=pl, execution_order=case["order"], when_simulates_nan="silent")
        return {v: np.asarray(outp[v].get_data(span), dtype=float)[:, 0] for v in list(names) + ["res_" + plan_var]}

    m = api("sequential:from_string", ir.Sequential.from_string, src)
    api("sequential:assign", lambda: m.assign(**base))
    real = [m]
    state = [{"kind": "original", "params": dict(base), "nv": 1, "dead": False, "struct": []}]

    def compare_all(where):
        for i, s in enumerate(state):
            if s["dead"]:
                continue
            tag = f"sequential:{s['kind']}"
            obj = real[i]
            n_before = len(col.items)
            w = f"{where}, object {i} [{s['kind']}]\n{src}"
            nv = api(f"{tag}:num_variants", lambda: obj.num_variants)
            if not col.check(nv == s["nv"], f"{tag}:num_variants", lambda: f"{w}: {nv} vs {s['nv']}"):
                s["dead"] = True
                continue
            gp = api(f"{tag}:get_parameters", obj.get_parameters, unpack_singleton=False)
            for n in pn:
                col.check(list(gp[n]) == [s["params"][n]] * nv, f"{tag}:parameter_value",
                          lambda: f"{w}: {n} reads {gp[n]!r}, assigned {s['params'][n]!r}")
            try:
                out = obj.simulate(db, span, execution_order=case["order"], when_simulates_nan="silent")
                got = {v: np.asarray(out[v].get_data(span), dtype=float) for v in names}
            except Exception as exc:  # noqa: BLE001
                col.fail(f"{tag}:simulate:raises:{type(exc).__name__}", f"{w}: {type(exc).__name__}: {exc}"[:1200])
                s["dead"] = True
                continue
            ref, ref_lhs, ref_eqs, ref_planned = reference(s["params"], s["struct"])
            if ref_planned is not None:
                try:
                    got_planned = planned(obj)
                except Exception as exc:  # noqa: BLE001
                    col.fail(f"{tag}:simulate_with_plan:raises:{type(exc).__name__}", f"{w}: {type(exc).__name__}: {exc}"[:1200])
                    s["dead"] = True
                    continue
                for v, a_ in got_planned.items():
                    d_ = _differs(a_, ref_planned[v])
                    if not col.check(d_ is None, f"{tag}:simulate_with_plan", lambda: f"{w}: planned simulation, {v}: {d_}"):
                        break
            lhs = api(f"{tag}:lhs_names", lambda: tuple(obj.lhs_names))
            col.check(lhs == ref_lhs, f"{tag}:lhs_names", lambda: f"{w}: {lhs} vs {ref_lhs} after {s['struct']}")
            eqs = api(f"{tag}:get_equations", lambda: tuple(obj.get_equations()))
            col.check(eqs == ref_eqs, f"{tag}:equation_order", lambda: f"{w}: {eqs} vs {ref_eqs} after {s['struct']}")
            for v in names:
                if not col.check(got[v].shape == (NPER, nv), f"{tag}:simulate_shape", lambda: f"{w}: {v} {got[v].shape}"):
                    break
                for k in range(nv):
                    d = _differs(got[v][:, k], ref[v])
                    if not col.check(d is None, f"{tag}:simulate", lambda: f"{w}: variant {k} {v}: {d}"):
                        break
            if len(col.items) > n_before:
                s["dead"] = True

    compare_all("initial")
    for k, st_ in enumerate(steps):
        where = f"step {k} {case['ops'][k]}"
        if st_["op"] == "derive":
            s = state[st_["src"]]
            new = None if s["dead"] else _seq_derive(col, st_["kind"], real[st_["src"]], "sequential")
            real.append(new)
            state.append({"kind": st_["kind"], "params": dict(s["params"]), "nv": s["nv"], "dead": new is None,
                          "struct": list(s["struct"])})
        else:
            s = state[st_["obj"]]
            if not s["dead"]:
                if st_["op"] == "assign":
                    api(f"sequential:{s['kind']}:assign", lambda: real[st_["obj"]].assign(**st_["values"]))
                    s["params"].update(st_["values"])
                elif st_["op"] == "reorder":
                    api(f"sequential:{s['kind']}:reorder_equations", real[st_["obj"]].reorder_equations, list(st_["what"][1]))
                    s["struct"].append(st_["what"])
                elif st_["op"] == "sequentialize":
                    api(f"sequential:{s['kind']}:sequentialize", real[st_["obj"]].sequentialize)
                    s["struct"].append(st_["what"])
                else:
                    api(f"sequential:{s['kind']}:alter_num_variants", real[st_["obj"]].alter_num_variants, st_["k"])
                    s["nv"] = st_["k"]
        compare_all(where)
    col.done()


# ===========================================================================
# 4. redvar_ops
# ===========================================================================

@st.composite
def _var_case(draw):
    ops = []
    for _ in range(draw(st.integers(1, 7))):
        kind = draw(st.sampled_from(["derive", "derive", "estimate", "estimate", "alter"]))
        t = draw(st.integers(0, 4))
        if kind == "derive":
            ops.append([draw(st.sampled_from(SEQ_DERIVE)), t])
        elif kind == "estimate":
            ops.append(["estimate", t, draw(st.integers(0, 2)), draw(st.booleans())])
        else:
            ops.append(["alter", t, draw(st.integers(1, 3))])
    return {
        "n": draw(st.integers(1, 2)), "nx": draw(st.integers(0, 1)), "order": draw(st.integers(1, 2)),
        "intercept": draw(st.booleans()), "seed": draw(st.integers(0, 2 ** 16)),
        "ops": ops,
    }


VAR_T = 36
VAR_SPANS = ((0, 35), (0, 23), (8, 35))       # (first, last) fitted period offsets after the initial condition


def _var_data(case):
    ir = _ir()
    n, nx, p = case["n"], case["nx"], case["order"]
    rng = np.random.default_rng(case["seed"])
    ynames, xnames = ["gdp", "cpi"][:n], ["oil"][:nx]
    total = VAR_T + p
    x = rng.standard_normal((total, nx))
    y = np.zeros((total, n))
    for t in range(total):
        y[t] = 0.3 + rng.standard_normal(n)
        if t >= 1:
            y[t] += 0.5 * y[t - 1]
        if nx:
            y[t] += 0.4 * x[t, 0]
    start = ir.qq(2015, 1)
    db = ir.Databox()
    for j, nm in enumerate(ynames):
        db[nm] = ir.Series(start=start, values=tuple(float(v) for v in y[:, j]))
    for j, nm in enumerate(xnames):
        db[nm] = ir.Series(start=start, values=tuple(float(v) for v in x[:, j]))
    return db, start + p, ynames, xnames


def _var_walk(case):
    pool = [{"kind": "original", "origin": None, "est": (0, False), "nv": 1}]
    steps = []
    for op in case["ops"]:
        if op[0] in SEQ_DERIVE:
            s = op[1] % len(pool)
            steps.append({"op": "derive", "kind": op[0], "src": s})
            pool.append({"kind": op[0], "origin": s, "est": pool[s]["est"], "nv": pool[s]["nv"]})
        elif op[0] == "estimate":
            i = op[1] % len(pool)
            steps.append({"op": "estimate", "obj": i, "est": (op[2] % len(VAR_SPANS), bool(op[3]))})
            pool[i]["est"] = (op[2] % len(VAR_SPANS), bool(op[3]))
            pool[i]["nv"] = pool[i]["nv"]
        else:
            i = op[1] % len(pool)
            steps.append({"op": "alter", "obj": i, "k": op[2]})
            pool[i]["nv"] = op[2]
    return steps, pool


def _classify_var(case):
    steps, pool = _var_walk(case)
    labels = sorted({"derive_" + s["kind"] for s in steps if s["op"] == "derive"} | {"op_" + s["op"] for s in steps if s["op"] != "derive"})
    labels += sorted({f"variants_{o['nv']}" for o in pool})
    labels += [f"order_{case['order']}", f"exogenous_{case['nx']}", "intercept" if case["intercept"] else "no_intercept"]
    nontrivial = any(o["origin"] is not None and o["est"] != pool[o["origin"]]["est"] for o in pool)
    return nontrivial, labels


def _var_observe(v, nv, sim_db, sim_span, ynames):
    sys_ = v.get_system_matrices(unpack_singleton=False)
    means = v.get_mean(unpack_singleton=False)
    eig = v.get_eigenvalues(unpack_singleton=False)
    stab = v.get_stability(unpack_singleton=False)
    out = []
    for k in range(nv):
        s = sys_[k]
        o = {"A": s.A, "B": s.B, "c": s.c, "cov_residuals": s.cov_residuals, "mean": means[k],
             "eig_re": np.sort(np.real(np.asarray(eig[k], dtype=complex))), "eig_abs": np.sort(np.abs(np.asarray(eig[k], dtype=complex))),
             "stable": bool(stab[k])}
        out.append(o)
    if all(o["stable"] for o in out):
        acov = v.get_acov(up_to_order=1, unpack_singleton=False)
        for k in range(nv):
            out[k]["acov0"], out[k]["acov1"] = acov[k][0], acov[k][1]
    sim = v.simulate(sim_db, sim_span)
    for k in range(nv):
        for nm in ynames:
            out[k]["sim_" + nm] = np.asarray(sim[nm].get_data(sim_span), dtype=float)[:, k]
    return out


@_silent
def _check_var(case):
    ir = _ir()
    col = Collector()
    db, first, ynames, xnames = _var_data(case)
    steps, _ = _var_walk(case)
    p = case["order"]

    def make():
        return ir.RedVAR(tuple(ynames), exogenous_names=tuple(xnames) or None, order=p, intercept=case["intercept"])

    def span_of(est):
        lo, hi = VAR_SPANS[est[0]]
        return (first + lo) >> (first + hi)

    sim_span = (first + 2) >> (first + 9)
    cache = {}

    def estimate(v, est):
        return v.estimate(db, span_of(est), dof_correction=est[1])

    sim_db = None

    def reference(est):
        if est not in cache:
            f = make()
            estimate(f, est)
            cache[est] = _var_observe(f, 1, sim_db, sim_span, ynames)[0]
        return cache[est]

    m = api("redvar:constructor", make)
    sim_db = api("redvar:estimate", estimate, m, (0, False))
    real = [m]
    state = [{"kind": "original", "est": (0, False), "nv": 1, "dead": False}]

    def compare_all(where):
        for i, s in enumerate(state):
            if s["dead"]:
                continue
            tag = f"redvar:{s['kind']}"
            n_before = len(col.items)
            w = f"{where}, object {i} [{s['kind']}], n={case['n']} nx={case['nx']} order={p} intercept={case['intercept']} seed={case['seed']}"
            nv = api(f"{tag}:num_variants", lambda: real[i].num_variants)
            if not col.check(nv == s["nv"], f"{tag}:num_variants", lambda: f"{w}: {nv} vs {s['nv']}"):
                s["dead"] = True
                continue
            try:
                got = _var_observe(real[i], nv, sim_db, sim_span, ynames)
            except Exception as exc:  # noqa: BLE001
                col.fail(f"{tag}:observe:raises:{type(exc).__name__}", f"{w}: {type(exc).__name__}: {exc}"[:1200])
                s["dead"] = True
                continue
            ref = reference(s["est"])
            for k in range(nv):
                for key, r in ref.items():
                    if key == "stable":
                        col.check(got[k].get(key) == r, f"{tag}:{key}", lambda: f"{w}: variant {k}")
                        continue
                    if key not in got[k]:
                        col.fail(f"{tag}:{key}:missing", f"{w}: variant {k}")
                        continue
                    if r is None or got[k][key] is None:
                        col.check(r is None and got[k][key] is None, f"{tag}:{key}", lambda: f"{w}: variant {k}: {got[k][key]!r} vs {r!r}")
                        continue
                    d = _differs(got[k][key], r)
                    col.check(d is None, f"{tag}:{key}", lambda: f"{w}: variant {k} {key}: {d}")
            if len(col.items) > n_before:
                s["dead"] = True

    compare_all("initial")
    for k, st_ in enumerate(steps):
        where = f"step {k} {case['ops'][k]}"
        if st_["op"] == "derive":
            s = state[st_["src"]]
            new = None if s["dead"] else _seq_derive(col, st_["kind"], real[st_["src"]], "redvar")
            real.append(new)
            state.append({"kind": st_["kind"], "est": s["est"], "nv": s["nv"], "dead": new is None})
        else:
            s = state[st_["obj"]]
            if not s["dead"]:
                if st_["op"] == "estimate":
                    api(f"redvar:{s['kind']}:estimate", estimate, real[st_["obj"]], st_["est"])
                    s["est"] = st_["est"]
                else:
                    api(f"redvar:{s['kind']}:alter_num_variants", real[st_["obj"]].alter_num_variants, st_["k"])
                    s["nv"] = st_["k"]
        compare_all(where)
    col.done()


# ===========================================================================
# Registration
# ===========================================================================

def _known_portable_transition_shocks(sub, case, bucket, message):
    """to_portable raises TypeError for models with auto-created quantities (attributes=None)."""
    return bucket == "portable:to_portable:raises:TypeError" and "can only join an iterable" in message


def _known_portable_flags_lost(sub, case, bucket, message):
    """from_portable drops the linear/flat/deterministic flags (they are passed to ModelSource, which ignores them)."""
    if bucket == "portable:flags":
        return True
    # with the deterministic flag lost the recreated model grows std_ parameters
    return bucket == "portable:names" and bool(case.get("deterministic")) and "std_" in message


def _known_sequential_pickle(sub, case, bucket, message):
    """pickle.dumps(Sequential) raises: the generated equation functions are stored on the object."""
    return bucket.startswith("sequential:pickle:raises:")


FINDING_MATCHERS = {
    "c20_portable_transition_shocks": _known_portable_transition_shocks,
    "c20_portable_flags_lost": _known_portable_flags_lost,
    "c20_sequential_pickle": _known_sequential_pickle,
}

SUBCHECKS = [
    HypSub("simultaneous_ops", _sim_case, _check_sim, _classify_sim, budget={"quick": 960, "thorough": 12000}),
    HypSub("portable", _port_case, _check_port, _classify_port, budget={"quick": 800, "thorough": 12000}),
    HypSub("sequential_ops", _seq_case, _check_seq, _classify_seq, budget={"quick": 400, "thorough": 6000}),
    HypSub("redvar_ops", _var_case, _check_var, _classify_var, budget={"quick": 320, "thorough": 5000}),
]
