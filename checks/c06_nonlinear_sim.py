"""
C06 - Nonlinear simulations satisfy the equations; match first order when linear.

Oracles: the harness's own evaluator of the equations as written on the
returned paths (frame by frame), and the differential relation with
method="first_order" on additive-linear and exactly log-linear models.
"""

import math

import numpy as np
from hypothesis import strategies as st

from vlib import linmodels as lm, simdata as sd
from vlib.runner import HypSub, Collector, api

PROPERTY = "C06"

RULE = (
    "families: additive linear, exactly log-linear (nonlinear for the solver, first order is exact) and anchored "
    "nonlinear models; spans 1-10; initial conditions; unanticipated shocks at several dates (several frames) and "
    "anticipated shocks; method stacked_time, or period_by_period for backward-looking models; terminal and "
    "initial_guess in {first_order, data}. Non-trivial iff the run reported success and the model has a lead and a "
    "shock dated after the first period, or (backward-looking) a lag >= 1 and a shock."
)

ASSUMPTIONS = [
    "non-success (an exception or a non-success exit status) is never a violation; it is counted",
    "solver_settings func_tolerance=1e-9 (step tolerance off) are passed explicitly; residual tolerance 1e-8 x (1 + largest term) on the equations as written; within a frame, leads are read from that frame's databox (the continuation under the frame's information set)",
    "the terminal condition in force is rebuilt by the harness (first-order continuation from the final simulated state, or the input data); the periods after the span in the returned databox hold the input data",
    "equality with first_order is asserted only with terminal='first_order' (or no leads), where it is exact for (log-)linear models",
    "log-linear family: a reported-success path whose log distance from the steady state exceeds 12 is a collapsed pseudo-solution of the absolute residual test and is not compared with first order",
    "the nonlinear simulators work in levels; deviation mode is not generated",
]


@st.composite
def _case(draw):
    fam = draw(st.sampled_from(["additive", "log", "nl"]))
    backward = draw(st.integers(0, 3)) == 0
    kw = dict(max_n=3, meas=(0, 1), allow_params=False)
    if backward:
        kw["max_lead"] = 0
    if fam == "nl":
        spec = draw(lm.nl_spec_strategy(**kw))
    else:
        spec = draw(lm.spec_strategy(**kw))
        spec["log"] = fam == "log"
    n = spec["n"]
    N = draw(st.integers(1, 10))
    val = st.sampled_from([0.5, -0.5, 0.3, 1.0, -0.2, 0.1])
    ushocks = draw(st.lists(st.tuples(st.integers(0, n - 1), st.integers(0, N - 1), val), min_size=1, max_size=3))
    ashocks = draw(st.lists(st.tuples(st.integers(0, n - 1), st.integers(0, N - 1), val), max_size=2))
    init = draw(st.lists(st.tuples(st.integers(0, n - 1), st.integers(1, 3), st.sampled_from([0.1, -0.1, 0.2, -0.05])), max_size=4))
    method = "period_by_period" if (backward and draw(st.booleans())) else "stacked_time"
    return {"spec": spec, "family": fam, "N": N, "method": method,
            "ushocks": [list(x) for x in ushocks], "ashocks": [list(x) for x in ashocks], "init": [list(x) for x in init],
            "terminal": draw(st.sampled_from(["first_order", "first_order", "data"])),
            "initial_guess": draw(st.sampled_from(["first_order", "data"]))}


def _classify(case):
    spec = case["spec"]
    L, F = lm.shifts(spec)
    u, a = sd.effective_shocks(spec, case["ushocks"], case["ashocks"])
    labels = [f"family_{case['family']}", case["method"], f"terminal_{case['terminal']}", f"guess_{case['initial_guess']}"]
    if len({x[1] for x in u}) >= 2:
        labels.append("several_frames")
    if a:
        labels.append("has_anticipated")
    late = any(x[1] > 0 for x in u + a)
    nontrivial = (sum(F) >= 1 and late) or (sum(F) == 0 and max(L) >= 1 and bool(u or a))
    return nontrivial, labels


def _check(case):
    import irispie as ir
    col = Collector()
    spec = case["spec"]
    if lm.steady(spec)[0] is None:
        return {"labels": ["singular_or_extreme_steady"], "nontrivial": False}
    kind, _ = lm.classify(spec, margin=0.1)
    if kind != "determinate":
        return {"labels": ["model_not_in_domain"], "nontrivial": False}
    L, F = lm.shifts(spec)
    N, method = case["N"], case["method"]
    if method == "period_by_period" and sum(F):
        method = "stacked_time"
    start = ir.qq(2020, 1)
    Lmax, Fmax = lm.max_lag_lead(spec)
    Lmax = max(Lmax, 1)
    m = api("build_and_solve", lm.build_model, spec)
    ush, ash = sd.effective_shocks(spec, case["ushocks"], case["ashocks"])
    if method == "period_by_period":
        ash = []
    db = sd.steady_db(m, spec, start, -Lmax, N + Fmax + 2, False)
    sd.apply_init(db, spec, start, case["init"], False)
    sd.apply_shocks(db, spec, start, ush, ash)
    span = start >> (start + N - 1)
    # the default tolerances (function AND step below 1e-12) are at rounding level; a run is only judged when it
    # reports success, so a looser, explicit solver tolerance is used and the residual test is 10x that
    kwargs = dict(method=method, return_info=True, remove_terminal=False,
                  solver_settings={"func_tolerance": 1e-9, "step_tolerance": float("inf"), "max_iterations": 200})
    if method == "stacked_time":
        kwargs.update(terminal=case["terminal"], initial_guess=case["initial_guess"])
    try:
        out, info = m.simulate(db, span, **kwargs)
    except Exception as exc:  # noqa: BLE001 - only reported success is judged
        return {"labels": [f"not_completed:{type(exc).__name__}"], "nontrivial": False}
    statuses = info.get("exit_status", ()) if isinstance(info, dict) else ()
    if not statuses or not all(getattr(s_, "is_success", False) for s_ in statuses):
        return {"labels": ["reported_non_success"], "nontrivial": False}

    names = spec["names"]
    last = N - 1 + (Fmax if method == "stacked_time" else 0)
    pO = sd.Paths(out, spec, start, -Lmax, last)
    # The terminal condition in force is not part of the returned databox (the periods after the span keep the
    # input data): rebuild it - first-order continuation from the final state, or the input data themselves.
    if method == "stacked_time" and Fmax:
        if case["terminal"] == "first_order":
            cont_in = db.copy()
            for nm in names:
                for t in range(N - Lmax, N):
                    cont_in[nm][start + t] = float(out[nm].get_data(start + t)[0, 0])
            cont = api("simulate_terminal_continuation", m.simulate, cont_in, (start + N) >> (start + N + Fmax - 1), method="first_order")
            for nm in names:
                pO.data[nm][Lmax + N:] = np.asarray(cont[nm].get_data((start + N) >> (start + N + Fmax - 1)))[:, 0]
        else:
            for nm in names:
                pO.data[nm][Lmax + N:] = np.asarray(db[nm].get_data((start + N) >> (start + N + Fmax - 1)))[:, 0]

    # ---- 2. measurement variables are left at their inputs ----------------------------------------
    for nm in lm.meas_names(spec):
        a = np.asarray(out[nm].get_data(span))[:, 0]
        b = np.asarray(db[nm].get_data(span))[:, 0]
        # log-variables pass through log/exp inside the simulator: equal up to the last bits
        col.check(bool(np.allclose(a, b, rtol=1e-12, atol=0.0, equal_nan=True)), "measurement_touched", lambda: f"{nm}: output {a.tolist()} differs from the input {b.tolist()} on the span")

    if spec["log"]:
        # values that underflowed to zero (or a continuation built from them): the collapsed pseudo-solution in its
        # final stage; x = 0 meets x - rhs = 0 exactly but is outside the domain of the equations in logs
        all_ = np.concatenate([pO.arr(nm) for nm in names])
        fin_ = all_[np.isfinite(all_)]
        edge_ = bool(np.any(all_ == 0) or np.any(np.isinf(all_)))
        far_ = bool(np.any((fin_ > 0) & ((fin_ < 1e-12) | (fin_ > 1e12))))
        if edge_ and far_:
            # exp() of the solver's log-values reached the edge of the float range (0.0 or inf) next to other values tens
            # of log units away from anything drawn; negative or otherwise wrong values are judged below
            return {"labels": ["collapsed_pseudo_solution"], "nontrivial": False}
    # ---- 1. residuals, frame by frame -----------------------------------------------------------------
    frames = info.get("frames", ())
    fdbs = info.get("frame_databoxes", ())
    taus = sorted({x[1] for x in ush})
    bounds = sorted(set([0] + taus)) if method == "stacked_time" else [0]
    single = len(bounds) == 1

    def check_path(paths, t_from, t_to, only_at, where):
        get = sd.getter(paths, spec, unanticipated_only_at=only_at)
        for t in range(t_from, t_to + 1):
            r, mag = lm.residuals_as_written(spec, get, t)
            tol = 1e-8 * (1.0 + mag)
            for i, ri in enumerate(r):
                if not (abs(ri) <= tol):
                    col.fail("equations:residual", f"equation {i} at t={t} {where}: residual {ri!r} (tolerance {tol:.1e}); "
                                                   f"method={method}, terminal={case['terminal']}, guess={case['initial_guess']}\n{lm.source(spec)}")
                    return False
        return True

    if method == "period_by_period":
        check_path(pO, 0, N - 1, None, "(period by period)")
    elif single:
        # one frame: the output with its terminal periods is the whole story
        check_path(pO, 0, N - 1, bounds[0] if ush else None, "(single frame)")
    else:
        col.check(len(fdbs) == len(bounds), "frames:count", lambda: f"{len(fdbs)} frame databoxes for unanticipated shock dates {taus}")
        if len(fdbs) == len(bounds):
            for bi, tau in enumerate(bounds):
                nxt = bounds[bi + 1] if bi + 1 < len(bounds) else N
                pF = sd.Paths(fdbs[bi], spec, start, -Lmax, N - 1)
                # the frame databox covers the base span only: history before the span comes from the output
                for nm_, arr in pF.data.items():
                    hist = pO.arr(nm_)[:Lmax] if nm_ in pO.data else None
                    if hist is not None:
                        arr[:Lmax] = np.where(np.isnan(arr[:Lmax]), hist, arr[:Lmax])
                upto = min(nxt - 1, N - 1 - Fmax)
                if upto >= tau:
                    check_path(pF, tau, upto, tau, f"(frame {bi} starting at t={tau})")
                # the frame agrees with the final output on the periods it owns
                for nm in names:
                    a = pF.arr(nm)[tau + Lmax: nxt + Lmax]
                    b = pO.arr(nm)[tau + Lmax: nxt + Lmax]
                    col.check(bool(np.allclose(a, b, rtol=1e-12, atol=1e-12, equal_nan=True)), "frames:write_back",
                              lambda: f"{nm}: frame {bi} and the output differ on [{tau},{nxt - 1}]")
    if col.items:
        col.done()

    # ---- 3. differential: equals first order on (log-)linear models -----------------------------------
    labels = ["success"]
    degenerate = False
    if spec["log"]:
        # Multiplicative equations are met to any absolute tolerance by values collapsing towards zero; the Newton
        # solver occasionally lands on such a pseudo-solution and reports success.  The first-order comparison is a
        # statement about the economically meaningful solution, so collapsed paths are counted, not compared.
        xs_, _ = lm.steady(spec)
        for j, nm in enumerate(names):
            a = pO.arr(nm)[Lmax: Lmax + N]
            if not np.all(np.isfinite(a)) or np.any(a <= 0) or float(np.max(np.abs(np.log(a) - xs_[j]))) > 12.0:
                degenerate = True
        if degenerate:
            labels.append("collapsed_pseudo_solution")
    if not degenerate and case["family"] in ("additive", "log") and (case["terminal"] == "first_order" or Fmax == 0 or method == "period_by_period"):
        fo = api("simulate_first_order", m.simulate, db, span, method="first_order")
        pF = sd.Paths(fo, spec, start, 0, N - 1)
        for nm in names:
            a, b = pO.arr(nm)[Lmax: Lmax + N], pF.arr(nm)
            d = np.abs(np.log(a) - np.log(b)) if spec["log"] else np.abs(a - b)
            sc = 1.0 + float(np.max(np.abs(np.log(b) if spec["log"] else b)))
            worst = float(np.max(d)) if np.all(np.isfinite(d)) else float("inf")
            col.check(worst <= 1e-7 * sc, "differs_from_first_order",
                      lambda: f"{nm}: {method} differs from first_order by {worst:.3e} (terminal={case['terminal']}, guess={case['initial_guess']})\n{lm.source(spec)}")
        labels.append("compared_with_first_order")
    col.done()
    return {"labels": labels, "nontrivial": True}


# ---------------------------------------------------------------------------
# Data variants: one call over a databox with two variants of the shock paths
# ---------------------------------------------------------------------------

@st.composite
def _variants_case(draw):
    case = draw(_case())
    n, N = case["spec"]["n"], case["N"]
    val = st.sampled_from([0.5, -0.5, 0.3, 1.0, -0.2, 0.1])
    case["ushocks2"] = [list(x) for x in draw(st.lists(st.tuples(st.integers(0, n - 1), st.integers(0, N - 1), val), min_size=1, max_size=3))]
    return case


def _classify_variants(case):
    nontrivial, labels = _classify(case)
    d0 = {x[1] for x in case["ushocks"]}
    d1 = {x[1] for x in case["ushocks2"]}
    labels = list(labels) + (["shock_dates_differ_across_variants"] if d0 != d1 else ["same_shock_dates"])
    return d0 != d1, labels


def _check_variants(case):
    """Each variant of one simulation over two data variants equals the simulation of that variant's data alone
    (which the sub-check above judges by the equations)."""
    import irispie as ir
    col = Collector()
    spec = case["spec"]
    if lm.steady(spec)[0] is None:
        return {"labels": ["singular_or_extreme_steady"], "nontrivial": False}
    if lm.classify(spec, margin=0.1)[0] != "determinate":
        return {"labels": ["model_not_in_domain"], "nontrivial": False}
    L, F = lm.shifts(spec)
    N, method = case["N"], case["method"]
    if method == "period_by_period" and sum(F):
        method = "stacked_time"
    start = ir.qq(2020, 1)
    Lmax, Fmax = lm.max_lag_lead(spec)
    Lmax = max(Lmax, 1)
    m = api("build_and_solve", lm.build_model, spec)
    span = start >> (start + N - 1)
    kwargs = dict(method=method, return_info=True,
                  solver_settings={"func_tolerance": 1e-10, "step_tolerance": float("inf"), "max_iterations": 200})
    if method == "stacked_time":
        kwargs.update(terminal=case["terminal"], initial_guess=case["initial_guess"])
    dbs = []
    for ushocks in (case["ushocks"], case["ushocks2"]):
        ush, ash = sd.effective_shocks(spec, ushocks, case["ashocks"])
        if method == "period_by_period":
            ash = []
        db = sd.steady_db(m, spec, start, -Lmax, N + Fmax + 2, False)
        sd.apply_init(db, spec, start, case["init"], False)
        sd.apply_shocks(db, spec, start, ush, ash)
        dbs.append(db)
    both = dbs[0].copy()
    full = (start - Lmax) >> (start + N + Fmax + 2)
    for s_ in [x for x in lm.shock_names(spec) if x]:
        cols = [np.asarray(d_[s_].get_data(full), dtype=float)[:, 0] for d_ in dbs]
        both[s_] = ir.Series(start=start - Lmax, values=np.column_stack(cols))

    def ok(info):
        infos = info if isinstance(info, (list, tuple)) else [info]
        return all(i_.get("exit_status") and all(getattr(x, "is_success", False) for x in i_["exit_status"]) for i_ in infos)
    try:
        singles = [m.simulate(d_, span, **kwargs) for d_ in dbs]
        out2, info2 = m.simulate(both, span, num_variants=2, **kwargs)
    except Exception as exc:  # noqa: BLE001 - only reported success is judged
        return {"labels": [f"not_completed:{type(exc).__name__}"], "nontrivial": False}
    if not (ok(info2) and all(ok(i_) for _, i_ in singles)):
        return {"labels": ["reported_non_success"], "nontrivial": False}
    for v in range(2):
        for nm in spec["names"] + lm.meas_names(spec):
            a = np.asarray(out2[nm].get_data(span), dtype=float)
            b = np.asarray(singles[v][0][nm].get_data(span), dtype=float)[:, 0]
            if not col.check(a.ndim == 2 and a.shape[1] == 2, "variants:columns", lambda: f"{nm}: shape {a.shape} for two data variants"):
                continue
            a = a[:, v]
            if spec["log"] and (np.any(a <= 0) or np.any(b <= 0) or float(np.max(np.abs(np.log(b)))) > 12 + 5):
                return {"labels": ["collapsed_pseudo_solution"], "nontrivial": False}
            d = np.abs(np.log(a) - np.log(b)) if spec["log"] else np.abs(a - b)
            sc = 1.0 + float(np.max(np.abs(np.log(b) if spec["log"] else b)))
            worst = float(np.max(d)) if np.all(np.isfinite(d)) else float("inf")
            col.check(worst <= 1e-6 * sc, "variants:differs_from_single_run",
                      lambda: f"variant {v}, {nm}: simulated together with the other variant differs from the same data simulated alone by {worst:.3e} "
                              f"({method}, terminal={case['terminal']}, guess={case['initial_guess']})\n{lm.source(spec)}")
    col.done()
    return {"labels": ["judged"], "nontrivial": True}


SUBCHECKS = [
    HypSub("nonlinear", _case, _check, _classify, budget={"quick": 600, "thorough": 40000}),
    HypSub("data_variants", _variants_case, _check_variants, _classify_variants, budget={"quick": 300, "thorough": 10000}),
]
