"""
C12 - Aggregation and disaggregation respect calendar membership, are consistent.

Oracles
* aggregate: membership from vlib.refcal / datetime only (a high-frequency
  period belongs to the low-frequency period that contains its start day),
  plain-Python grouping and the documented method applied to each group.
* disaggregate: the documented placements (flat/first/middle/last) on the same
  membership, and the round trips listed in the property statement.
* arip: an independent null-space solve of the documented criterion
      min  sum_t ((x_t - rho x_{t-1} - c) / sigma_t)^2   s.t.  Z x[group] = y,  x[targets] = values
  (rho, c, sigma as documented), the constraints themselves, the first-order
  condition (gradient orthogonal to the null space of the constraints) and the
  round trip through the declared aggregation.
"""

import datetime as dt
import math

import numpy as np
from hypothesis import strategies as st

from vlib import refcal, pgen, refseries as rs
from vlib.runner import HypSub, Collector, api

PROPERTY = "C12"

RULE = (
    "aggregate: drawn series (H/Q/M explicit values up to 40 periods, D seeded bulk values up to 800 days, 1-2 variants, "
    "sparse NaN cells) x every coarser regular frequency x every method of the method table (+ default, + a counting "
    "callable) x discard_missing x select x method/function form, compared cell by cell with plain-Python grouping by "
    "calendar membership; non-trivial iff the series does not start at a coarse-period boundary or contains an interior "
    "NaN or spans a 29 February.  disaggregate: Y/H/Q series x every finer regular frequency x flat/first/middle/last, "
    "placements compared cell by cell and aggregated back with every matching method; non-trivial iff the series does "
    "not start at a year boundary or contains an interior NaN or has 2 variants.  arip: Y/H/Q series x finer regular "
    "frequency x model form x aggregation x optional high-frequency targets, compared with the harness's own "
    "null-space solution; non-trivial iff >= 2 low-frequency observations and (interior NaN or targets or start off "
    "the year boundary or 2 variants)"
)

ASSUMPTIONS = [
    "periods outside the stored span of a series are missing observations (a Series is a period-indexed map, C10): an "
    "incomplete group at either end of the series is a group with missing members, so mean/sum/prod give missing there "
    "and first/last give the (possibly missing) first/last member of the whole low-frequency period",
    "a low-frequency period none of whose members holds an observation (before or after discard_missing/select) is "
    "required to be missing under every named method; it is not judged for callable methods (the library evaluates "
    "callables on the all-missing padding of the first and last calendar year)",
    "min/max (and the undocumented geometric_mean) of a group that contains a missing value are not judged unless "
    "discard_missing=True: the statement and the docstring are silent and the implementation (builtin min/max) is "
    "order dependent there",
    "select indexes are 0-based positions inside the group, drawn strictly increasing and smaller than the smallest "
    "group (28/90/181/365 days for daily sources), so order and out-of-range behaviour are not judged",
    "geometric_mean is in the method table of the code but not in the docstring; exercised on positive data only",
    "the return value of the in-place method forms is not judged (the aggregate docstring lists 'self' under Returns, "
    "the implementation returns None); only the contents after the call are compared",
    "trimming of all-missing leading/trailing periods of a result is C10's concern and is not asserted here; the "
    "reported span must cover every value",
    "disaggregate 'middle' for an even number k of members: either central member (k/2-1 or k/2, the same one "
    "throughout a result) is accepted, the docstring does not say which",
    "regular -> daily disaggregation is not generated (not offered meaningfully: factor 365//f)",
    "arip: rho is read as (y_last/y_first)**(1/d) and c as (y_last-y_first)/d over the first and last observed "
    "low-frequency values d periods apart (geometric/arithmetic average change), converted by the exponent/factor "
    "low_freq/high_freq; sigma_t = rho**t with sigma_0 = 1 (rate) or 1 (diff); rho = 1, c = 0 for a single observation",
    "arip rate form is exercised on positive data only and only where max(sigma)/min(sigma) <= 100 (conditioning "
    "bounded from the reference side; other cases are counted as rate_ill_conditioned_skipped)",
    "arip: every variant has at least one observation (an all-missing variant makes the problem singular; undocumented)",
    "arip targets: a single-variant high-frequency series applied to every variant (from the code; kwarg not in the "
    "docstring); generated so that the constraints stay linearly independent: never all members of one low-frequency "
    "period, never the member fixed by first/last aggregation (the library drops the aggregation constraint of fully "
    "targeted periods - undocumented, not generated)",
    "arip round trip: aggregate(arip(x)) is compared with x at the observed low-frequency periods only; interpolation "
    "necessarily fills periods where x is missing inside the span",
    "arip custom aggregation weights (a tuple of positive reals instead of a name) are taken from the type annotation of "
    "disaggregate_arip_data; aliases multiplicative/additive/avg from the Literal types in arip.py",
]

REGULAR = refcal.REGULAR
L = refcal.LETTER


def _ir():
    import irispie as ir
    return ir


def _single_threaded_blas():
    """Performance only: 16 forked shards x multi-threaded OpenBLAS oversubscribe the machine (50x slower).

    numpy is already imported when this module loads, so the environment variables come too late; the bundled
    OpenBLAS is told directly.  Failing to find it changes nothing but speed."""
    try:
        import ctypes
        import glob
        import os
        for path in glob.glob(os.path.join(os.path.dirname(os.path.dirname(np.__file__)), "numpy.libs", "libscipy_openblas*.so*")):
            lib = ctypes.CDLL(path)
            for name in ("scipy_openblas_set_num_threads64_", "scipy_openblas_set_num_threads",
                         "openblas_set_num_threads64_", "openblas_set_num_threads"):
                fn = getattr(lib, name, None)
                if fn is not None:
                    fn(1)
                    break
    except Exception:  # noqa: BLE001
        pass


_single_threaded_blas()


# ---------------------------------------------------------------------------
# Series descriptions (plain data) and their reference series
# ---------------------------------------------------------------------------
# {"f", "start": period desc, "nv", "n", "kind", "rows": [[..]] | None, "seed": int | None, "nans": [[row, variant], ..]}
# rows given explicitly for short series; seed => bulk values from numpy's default_rng(seed) (drawn seed).

_TAME = (0.5, 0.75, 1.0, 1.25, 1.5, 2.0, -0.5, -0.75, -1.0, -1.25, -1.5, -2.0)
_KIND_RANGE8 = {"any": (-40, 40), "positive": (2, 40), "rate": (4, 32)}


def _value_strategy(kind):
    if kind == "tame":
        return st.sampled_from(_TAME)
    lo8, hi8 = _KIND_RANGE8[kind]
    eighths = st.integers(lo8, hi8).map(lambda k: k / 8.0)
    return st.one_of(eighths, eighths, st.floats(lo8 / 8.0, hi8 / 8.0, allow_nan=False, allow_infinity=False, width=64))


def _bulk_values(kind, seed, n, nv):
    rng = np.random.default_rng(int(seed))
    if kind == "tame":
        return np.asarray(_TAME)[rng.integers(0, len(_TAME), size=(n, nv))]
    lo8, hi8 = _KIND_RANGE8[kind]
    return rng.integers(lo8, hi8 + 1, size=(n, nv)) / 8.0


@st.composite
def _series(draw, f, min_len=1, max_len=40, kind="any", bulk=False, keep_row=False, start=None, nan_modes=(0, 1, 1, 2, 3)):
    if start is None:
        start = draw(pgen.period_desc(freq=f, margin_years=60))
    n = draw(st.integers(min_len, max_len))
    nv = draw(st.sampled_from([1, 1, 2]))
    if bulk:
        rows, seed = None, draw(st.integers(0, 2**32 - 1))
    else:
        v = _value_strategy(kind)
        rows, seed = draw(st.lists(st.lists(v, min_size=nv, max_size=nv), min_size=n, max_size=n)), None
    mode = draw(st.sampled_from(nan_modes))
    cell = st.tuples(st.integers(0, n - 1), st.integers(0, nv - 1))
    if mode == 0:
        nans = []
    elif mode == 1:
        nans = draw(st.lists(cell, min_size=1, max_size=3, unique=True))
    elif mode == 2:
        nans = draw(st.lists(cell, min_size=1, max_size=max(2, n * nv // 5), unique=True))
    else:
        rws = draw(st.lists(st.integers(0, n - 1), min_size=1, max_size=2, unique=True))
        nans = [(r, v_) for r in rws for v_ in range(nv)]
    nans = sorted([int(r), int(v_)] for r, v_ in nans)
    if keep_row:
        r0 = draw(st.integers(0, n - 1))
        nans = [c for c in nans if c[0] != r0]
    return {"f": f, "start": start, "nv": nv, "n": n, "kind": kind, "rows": rows, "seed": seed, "nans": nans}


def _ref_of(d):
    f, nv, n = d["f"], d["nv"], d["n"]
    lo = pgen.ref_index(d["start"])
    vals = np.asarray(d["rows"], dtype=float).reshape(n, nv) if d["rows"] is not None else _bulk_values(d["kind"], d["seed"], n, nv)
    holes = {(int(r), int(v)) for r, v in d["nans"]}
    ref = rs.Ref(f, nv)
    for r in range(n):
        for v in range(nv):
            if (r, v) not in holes:
                ref.cells[(lo + r, v)] = float(vals[r, v])
    return ref


def _interior_nan(ref):
    sp = ref.span()
    if sp is None:
        return False
    return len(ref.cells) < (sp[1] - sp[0] + 1) * ref.nv


# ---------------------------------------------------------------------------
# Calendar membership (datetime / refcal only)
# ---------------------------------------------------------------------------

def _start_day(f, idx):
    if f == 365:
        return dt.date.fromordinal(idx)
    pd = pgen.from_index(f, idx)
    return refcal.start_day(f, pd["y"], pd["s"])


def _low_of(f_high, idx, f_low):
    """Index of the f_low period containing the start day of high-frequency period idx."""
    y, s = refcal.containing(f_low, _start_day(f_high, idx))
    return refcal.index_regular(f_low, y, s)


def _members(f_high, f_low, low_idx):
    """Ordered high-frequency periods whose start day lies inside the low-frequency period."""
    pd = pgen.from_index(f_low, low_idx)
    a, b = refcal.start_day(f_low, pd["y"], pd["s"]), refcal.end_day(f_low, pd["y"], pd["s"])
    if f_high == 365:
        return list(range(a.toordinal(), b.toordinal() + 1))
    ya, sa = refcal.containing(f_high, a)
    yb, sb = refcal.containing(f_high, b)
    cand = range(refcal.index_regular(f_high, ya, sa) - 1, refcal.index_regular(f_high, yb, sb) + 2)
    return [i for i in cand if a <= _start_day(f_high, i) <= b]


def _spans_leap_day(f, ref):
    sp = ref.span()
    if f != 365 or sp is None:
        return False
    for y in range(dt.date.fromordinal(sp[0]).year, dt.date.fromordinal(sp[1]).year + 1):
        if refcal.is_leap(y) and sp[0] <= dt.date(y, 2, 29).toordinal() <= sp[1]:
            return True
    return False


def _snapshot(x):
    return (repr(x.start), x.get_data().tobytes(), x.get_data().shape)


def _where(f, idx, v):
    return f"{pgen.describe(pgen.from_index(f, idx))} variant {v}"


def _compare_cells(x, exp, tol, skip, f, only_expected=False):
    """Series x against reference cells; tol[(i, v)] absolute tolerance (default exact); skip not judged;
    only_expected: judge nothing but the cells present in exp."""
    ir = _ir()
    if not isinstance(x, ir.Series):
        return f"result is {type(x).__name__}, not a Series"
    if x.num_variants != exp.nv:
        return f"number of variants {x.num_variants} != {exp.nv}"
    if x.start is None:
        got = rs.Ref(f, exp.nv)
    else:
        fr = int(x.start.frequency)
        if fr != f:
            return f"result has frequency {fr}, expected {f}"
        got = rs.read(x, f)
        if x.get_data().shape[0] != len(x.periods):
            return "span length disagrees with data length"
    for key in sorted(set(exp.cells) if only_expected else set(got.cells) | set(exp.cells)):
        if key in skip:
            continue
        a, b = got.get(*key), exp.get(*key)
        if math.isnan(a) or math.isnan(b):
            ok = math.isnan(a) and math.isnan(b)
        elif math.isinf(a) or math.isinf(b):
            ok = a == b
        else:
            ok = abs(a - b) <= tol.get(key, 0.0)
        if not ok:
            return f"cell {_where(f, key[0], key[1])}: got {a!r} expected {b!r}"
    return ""


# ---------------------------------------------------------------------------
# 1. aggregate
# ---------------------------------------------------------------------------

NAMED_METHODS = ("mean", "sum", "prod", "first", "last", "min", "max", "geometric_mean")
ALL_METHODS = NAMED_METHODS + ("default", "call_count")
_MIN_GROUP_DAYS = {12: 28, 4: 90, 2: 181, 1: 365}


def _count(w):
    return float(len(w))


def _ref_group_value(method, g):
    """(value, judged, abs tolerance) of the documented method on group g (list of floats, NaN = missing)."""
    nan = float("nan")
    obs = [x for x in g if not math.isnan(x)]
    if not obs:
        return nan, method != "call_count", 0.0
    has_nan = len(obs) < len(g)
    if method == "call_count":
        return float(len(g)), True, 0.0
    if method in ("first", "last"):
        return (g[0] if method == "first" else g[-1]), True, 0.0
    if method in ("min", "max"):
        if has_nan:
            return nan, False, 0.0
        return (min(g) if method == "min" else max(g)), True, 0.0
    if method == "geometric_mean":
        if has_nan:
            return nan, False, 0.0
        val = math.exp(math.fsum(math.log(x) for x in g) / len(g))
        return val, True, 1e-10 * abs(val)
    # mean (default), sum, prod: a missing member makes the result missing
    if has_nan:
        return nan, True, 0.0
    if method in ("mean", "default"):
        scale = math.fsum(abs(x) for x in g) / len(g)
        return math.fsum(g) / len(g), True, 1e-12 * scale + 1e-300
    if method == "sum":
        scale = math.fsum(abs(x) for x in g)
        return math.fsum(g), True, 1e-12 * scale + 1e-300
    if method == "prod":
        val = math.prod(g)
        if val != 0.0 and not (1e-250 < abs(val) < 1e250):
            return nan, False, 0.0      # overflow / underflow region: order of multiplication matters
        return val, True, 1e-10 * abs(val) + 1e-300
    raise ValueError(method)


def ref_aggregate(ref, f_low, method, discard, select):
    """Reference aggregation: (Ref at f_low, {cell: abs tol}, set of cells not judged)."""
    out, tol, skip = rs.Ref(f_low, ref.nv), {}, set()
    sp = ref.span()
    if sp is None:
        return out, tol, skip
    lo, hi = _low_of(ref.f, sp[0], f_low), _low_of(ref.f, sp[1], f_low)
    # two periods beyond either end: whatever the library pads must come out missing there
    for low in range(lo - 2, hi + 3):
        mem = _members(ref.f, f_low, low)
        for v in range(ref.nv):
            g = [ref.get(i, v) for i in mem]
            if select is not None:
                g = [g[j] for j in select]
            if discard:
                g = [x for x in g if not math.isnan(x)]
            val, judged, t = _ref_group_value(method, g)
            if not judged:
                skip.add((low, v))
                continue
            out.set(low, v, val)
            tol[(low, v)] = t
    return out, tol, skip


@st.composite
def _aggregate_case(draw):
    f = draw(st.sampled_from([2, 4, 12, 12, 365, 365]))
    f_low = draw(st.sampled_from([g for g in REGULAR if g < f]))
    method = draw(st.sampled_from(ALL_METHODS))
    kind = {"prod": "tame", "geometric_mean": "positive"}.get(method, "any")
    if f == 365:
        max_len = draw(st.sampled_from([45, 100, 400, 800]))
        start = None
        if draw(st.integers(0, 3)) == 0:
            # start shortly before a leap day
            y = draw(st.sampled_from([1904, 1996, 2000, 2004, 2020, 2024, 2400]))
            start = {"f": 365, "o": dt.date(y, 2, 29).toordinal() - draw(st.integers(0, 40))}
        x = draw(_series(365, 1, max_len, kind=kind, bulk=True, start=start))
    else:
        x = draw(_series(f, 1, 40, kind=kind))
    discard = draw(st.sampled_from([None, False, True, True]))
    select = None
    if draw(st.integers(0, 4)) == 0:
        size = _MIN_GROUP_DAYS[f_low] if f == 365 else f // f_low
        select = sorted(draw(st.lists(st.integers(0, size - 1), min_size=1, max_size=min(size, 4), unique=True)))
    return {"x": x, "to": f_low, "method": method, "discard": discard, "select": select,
            "form": draw(st.sampled_from(["function", "method"]))}


def _classify_aggregate(case):
    x = case["x"]
    ref = _ref_of(x)
    f, f_low = x["f"], case["to"]
    labels = [f"m_{case['method']}", f"{L[f]}->{L[f_low]}", f"nv{x['nv']}"]
    sp = ref.span()
    if sp is None:
        return False, labels + ["empty_input"]
    unaligned = _members(f, f_low, _low_of(f, sp[0], f_low))[0] != sp[0]
    has_nan = _interior_nan(ref)
    leap = _spans_leap_day(f, ref)
    labels.append("nan" if has_nan else "no_nan")
    if unaligned:
        labels.append("unaligned_start")
    if f == 365:
        labels.append("leap_day" if leap else "no_leap_day")
    if case["discard"]:
        labels.append("discard_missing")
    if case["select"] is not None:
        labels.append("select")
    return unaligned or has_nan or leap, labels


def _method_arg(method):
    if method == "call_count":
        return _count
    return method


def _check_aggregate(case):
    ir = _ir()
    col = Collector()
    ref = _ref_of(case["x"])
    if ref.is_empty():
        return {"labels": ["empty_input_left_to_C10"], "nontrivial": False}
    f_low, method, discard, select = case["to"], case["method"], case["discard"], case["select"]
    x = rs.build(ref)
    kwargs = {}
    if method != "default":
        kwargs["method"] = _method_arg(method)
    if discard is not None:
        kwargs["discard_missing"] = discard
    if select is not None:
        # the same selection as a list, a tuple or an integer array (chosen from the case, no extra draw)
        how = (sum(select) + len(select) + len(repr(case["x"]))) % 3
        if how == 0:
            kwargs["select"] = list(select)
        elif how == 1:
            kwargs["select"] = tuple(select)
        else:
            import numpy as _np_
            kwargs["select"] = _np_.array(select, dtype=int)
    tag = "aggregate:select" if select is not None else f"aggregate:{method}"
    before = _snapshot(x)
    if case["form"] == "function":
        y = api(tag, ir.aggregate, x, ir.Frequency(f_low), **kwargs)
        col.check(_snapshot(x) == before, "aggregate:input_modified", "the input series changed")
    else:
        y = x.copy()
        api(tag, y.aggregate, ir.Frequency(f_low), **kwargs)
    exp, tol, skip = ref_aggregate(ref, f_low, method, bool(discard), select)
    msg = _compare_cells(y, exp, tol, skip, f_low, only_expected=method == "call_count")
    col.check(not msg, f"{tag}:value",
              lambda: f"aggregate({L[ref.f]}->{L[f_low]}, method={method}, discard_missing={discard}, select={select}): {msg}")
    col.done()
    judged = len(exp.cells)
    return {"labels": ["values_judged" if judged else "no_value_judged"], "nontrivial": judged > 0}


# ---------------------------------------------------------------------------
# 2. disaggregate: placements and round trips
# ---------------------------------------------------------------------------

PLACEMENTS = ("flat", "first", "middle", "last")
_BACK = {"flat": ("mean", "first", "last", "min", "max"), "first": ("first",), "last": ("last",), "middle": ()}
_BACK_DISCARD = ("mean", "sum", "prod", "first", "last", "min", "max")


def ref_disaggregate(ref, f_high, method, middle_upper=True):
    out = rs.Ref(f_high, ref.nv)
    for (i, v), val in ref.cells.items():
        mem = _members(f_high, ref.f, i)
        k = len(mem)
        if method == "flat":
            pos = mem
        elif method == "first":
            pos = mem[:1]
        elif method == "last":
            pos = mem[-1:]
        else:
            pos = [mem[k // 2 if middle_upper else (k - 1) // 2]]
        for p in pos:
            out.cells[(p, v)] = val
    return out


@st.composite
def _disaggregate_case(draw):
    f = draw(st.sampled_from([1, 2, 4]))
    f_high = draw(st.sampled_from([g for g in REGULAR if g > f]))
    x = draw(_series(f, 1, 24, kind="any"))
    return {"x": x, "to": f_high, "method": draw(st.sampled_from(PLACEMENTS)),
            "back_discard": draw(st.sampled_from(_BACK_DISCARD)),
            "form": draw(st.sampled_from(["function", "method"]))}


def _classify_disaggregate(case):
    x = case["x"]
    ref = _ref_of(x)
    labels = [f"m_{case['method']}", f"{L[x['f']]}->{L[case['to']]}", f"nv{x['nv']}"]
    sp = ref.span()
    if sp is None:
        return False, labels + ["empty_input"]
    off_year = sp[0] % x["f"] != 0
    has_nan = _interior_nan(ref)
    labels.append("nan" if has_nan else "no_nan")
    if off_year:
        labels.append("start_off_year_boundary")
    return off_year or has_nan or x["nv"] >= 2, labels


def _check_disaggregate(case):
    ir = _ir()
    col = Collector()
    ref = _ref_of(case["x"])
    if ref.is_empty():
        return {"labels": ["empty_input_left_to_C10"], "nontrivial": False}
    f, f_high, method = ref.f, case["to"], case["method"]
    x = rs.build(ref)
    tag = f"disaggregate:{method}"
    before = _snapshot(x)
    if case["form"] == "function":
        y = api(tag, ir.disaggregate, x, ir.Frequency(f_high), method=method)
        col.check(_snapshot(x) == before, "disaggregate:input_modified", "the input series changed")
    else:
        y = x.copy()
        api(tag, y.disaggregate, ir.Frequency(f_high), method=method)
    where = f"disaggregate({L[f]}->{L[f_high]}, method={method})"
    msg = _compare_cells(y, ref_disaggregate(ref, f_high, method, True), {}, set(), f_high)
    if msg and method == "middle" and (f_high // f) % 2 == 0:
        msg2 = _compare_cells(y, ref_disaggregate(ref, f_high, method, False), {}, set(), f_high)
        msg = msg if msg2 else ""
    if not col.check(not msg, f"{tag}:placement", lambda: f"{where}: {msg}"):
        col.done()
    # round trips listed in the statement (matching method, nothing discarded)
    for back in _BACK[method]:
        z = api(f"aggregate:{back}", ir.aggregate, y, ir.Frequency(f), method=back)
        tol = {k: 1e-13 * abs(v) for k, v in ref.cells.items()} if back == "mean" else {}
        m = _compare_cells(z, ref, tol, set(), f)
        col.check(not m, f"round_trip:{method}:{back}", lambda: f"aggregate({where}, method={back}) is not the original: {m}")
    # one value per group: discarding the missing members returns it under any method
    if method != "flat":
        back = case["back_discard"]
        z = api(f"aggregate:{back}", ir.aggregate, y, ir.Frequency(f), method=back, discard_missing=True)
        tol = {k: 1e-13 * abs(v) for k, v in ref.cells.items()}
        m = _compare_cells(z, ref, tol, set(), f)
        col.check(not m, f"round_trip:{method}:discard_missing",
                  lambda: f"aggregate({where}, method={back}, discard_missing=True) is not the original: {m}")
    col.done()
    return None


# ---------------------------------------------------------------------------
# 3. arip
# ---------------------------------------------------------------------------

FORMS = {"rate": "rate", "multiplicative": "rate", "diff": "diff", "additive": "diff"}
AGGS = {"sum": "sum", "mean": "mean", "avg": "mean", "first": "first", "last": "last"}
SIGMA_RANGE_MAX = 100.0


def _agg_name(agg):
    return AGGS[agg] if isinstance(agg, str) else "custom"


def _agg_vector(agg, k):
    name = _agg_name(agg)
    if name == "sum":
        return [1.0] * k
    if name == "mean":
        return [1.0 / k] * k
    if name == "first":
        return [1.0] + [0.0] * (k - 1)
    if name == "last":
        return [0.0] * (k - 1) + [1.0]
    return [float(w) for w in agg]


def _sanitize_targets(targets, k, n_high, agg):
    """Keep the constraint rows linearly independent (see ASSUMPTIONS); deterministic."""
    name = _agg_name(agg)
    seen, per_low, out = set(), {}, []
    for p, val in targets or []:
        p = int(p)
        if p < 0 or p >= n_high or p in seen:
            continue
        if (name == "first" and p % k == 0) or (name == "last" and p % k == k - 1):
            continue
        if per_low.get(p // k, 0) >= k - 1:
            continue
        seen.add(p)
        per_low[p // k] = per_low.get(p // k, 0) + 1
        out.append((p, float(val)))
    return sorted(out)


def arip_reference(y, k, form, zvec, targets, f_low, f_high):
    """Independent solve of the documented problem for one variant.

    Returns dict(x, K, c, A, b, N, rho, const, sigma) or None if no observation."""
    n = len(y)
    nh = n * k
    obs = [i for i in range(n) if not math.isnan(y[i])]
    if not obs:
        return None
    d = obs[-1] - obs[0]
    conv = float(f_low) / float(f_high)
    if form == "rate":
        rho = ((y[obs[-1]] / y[obs[0]]) ** (1.0 / d)) ** conv if d else 1.0
        const = 0.0
        sigma = np.array([rho ** t for t in range(nh)])
    else:
        rho = 1.0
        const = ((y[obs[-1]] - y[obs[0]]) / d) * conv if d else 0.0
        sigma = np.ones(nh)
    K = np.zeros((max(nh - 1, 0), nh))
    c = np.zeros(max(nh - 1, 0))
    for t in range(1, nh):
        K[t - 1, t] = 1.0 / sigma[t]
        K[t - 1, t - 1] = -rho / sigma[t]
        c[t - 1] = const / sigma[t]
    rows, b = [], []
    for i in obs:
        r = np.zeros(nh)
        r[i * k:(i + 1) * k] = zvec
        rows.append(r)
        b.append(y[i])
    for p, val in targets:
        r = np.zeros(nh)
        r[p] = 1.0
        rows.append(r)
        b.append(val)
    A, b = np.array(rows), np.array(b)
    # null-space method: x = xp + N z, z = argmin ||K N z - (c - K xp)||
    u, s, vt = np.linalg.svd(A, full_matrices=True)
    rank = int(np.sum(s > 1e-10 * s[0]))
    if rank < A.shape[0]:
        raise AssertionError("harness: arip constraint rows are linearly dependent")
    xp = vt[:rank].T @ ((u[:, :rank].T @ b) / s[:rank])
    N = vt[rank:].T
    if N.shape[1]:
        z = np.linalg.lstsq(K @ N, c - K @ xp, rcond=None)[0]
        x = xp + N @ z
    else:
        x = xp
    return {"x": x, "K": K, "c": c, "A": A, "b": b, "N": N, "rho": rho, "const": const, "sigma": sigma}


@st.composite
def _arip_case(draw):
    f = draw(st.sampled_from([1, 2, 4]))
    f_high = draw(st.sampled_from([g for g in REGULAR if g > f]))
    k = f_high // f
    form = draw(st.sampled_from(["rate", "diff", "rate", "diff", "multiplicative", "additive"]))
    agg = draw(st.sampled_from(["sum", "mean", "first", "last", "sum", "mean", "first", "last", "avg", "custom"]))
    if agg == "custom":
        agg = draw(st.lists(st.integers(1, 8).map(lambda q: q / 4.0), min_size=k, max_size=k))
    n_max = max(1, min(14, 96 // k))
    x = draw(_series(f, 1, n_max, kind="rate" if FORMS[form] == "rate" else "any", keep_row=True,
                     nan_modes=(0, 0, 1, 2)))
    targets = None
    if draw(st.integers(0, 2)) == 0:
        tv = _value_strategy("rate")
        targets = [[p, v] for p, v in draw(st.lists(st.tuples(st.integers(0, x["n"] * k - 1), tv), min_size=1, max_size=5,
                                                    unique_by=lambda t: t[0]))]
    return {"x": x, "to": f_high, "form": form, "agg": agg, "targets": targets,
            "call": draw(st.sampled_from(["function", "method"]))}


def _arip_dims(case, ref):
    sp = ref.span()
    k = case["to"] // ref.f
    n = sp[1] - sp[0] + 1
    return sp, k, n, _sanitize_targets(case["targets"], k, n * k, case["agg"])


def _classify_arip(case):
    x = case["x"]
    ref = _ref_of(x)
    labels = [f"form_{case['form']}", f"agg_{case['agg'] if isinstance(case['agg'], str) else 'custom'}",
              f"{L[x['f']]}->{L[case['to']]}", f"nv{x['nv']}"]
    if ref.is_empty():
        return False, labels + ["empty_input"]
    sp, k, n, targets = _arip_dims(case, ref)
    has_nan = _interior_nan(ref)
    off_year = sp[0] % x["f"] != 0
    labels.append("nan" if has_nan else "no_nan")
    if targets:
        labels.append("targets")
    if off_year:
        labels.append("start_off_year_boundary")
    n_obs = min(sum(1 for (i, v) in ref.cells if v == vv) for vv in range(ref.nv))
    return n_obs >= 2 and (has_nan or bool(targets) or off_year or ref.nv >= 2), labels


def _check_arip(case):
    ir = _ir()
    col = Collector()
    ref = _ref_of(case["x"])
    if ref.is_empty():
        return {"labels": ["empty_input_left_to_C10"], "nontrivial": False}
    f, f_high = ref.f, case["to"]
    form, agg = FORMS[case["form"]], case["agg"]
    aname = _agg_name(agg)
    sp, k, n, targets = _arip_dims(case, ref)
    nh = n * k
    zvec = _agg_vector(agg, k)
    ys = [[ref.get(i, v) for i in range(sp[0], sp[1] + 1)] for v in range(ref.nv)]
    if any(all(math.isnan(a) for a in y) for y in ys):
        return {"labels": ["variant_without_observation_skipped"], "nontrivial": False}
    refs = [arip_reference(y, k, form, zvec, targets, f, f_high) for y in ys]
    if any(max(r["sigma"]) / min(r["sigma"]) > SIGMA_RANGE_MAX for r in refs):
        return {"labels": ["rate_ill_conditioned_skipped"], "nontrivial": False}
    high0 = _members(f_high, f, sp[0])[0]
    x = rs.build(ref)
    kwargs = {"method": "arip", "model": (case["form"], agg if isinstance(agg, str) else tuple(agg))}
    if targets:
        kwargs["target"] = rs.build(rs.Ref(f_high, 1, {(high0 + p, 0): val for p, val in targets}))
    tag = f"arip:{aname}"
    before = _snapshot(x)
    if case["call"] == "function":
        out = api(tag, ir.disaggregate, x, ir.Frequency(f_high), **kwargs)
        col.check(_snapshot(x) == before, "arip:input_modified", "the input series changed")
    else:
        out = x.copy()
        api(tag, out.disaggregate, ir.Frequency(f_high), **kwargs)
    where = f"disaggregate({L[f]}->{L[f_high]}, 'arip', model=({case['form']!r}, {agg!r}), targets={targets})"
    # ---- shape: every high-frequency period of the low-frequency span, all filled -------
    ok = isinstance(out, ir.Series) and out.start is not None and out.num_variants == ref.nv
    if ok:
        ok = int(out.start.frequency) == f_high and rs.idx_of(out.start, f_high) == high0 and out.get_data().shape == (nh, ref.nv) \
            and bool(np.all(np.isfinite(out.get_data())))
    if not col.check(ok, f"{tag}:span", lambda: f"{where}: result {out!r} does not fill {nh} periods from "
                                                f"{pgen.describe(pgen.from_index(f_high, high0))}"):
        col.done()
    data = out.get_data()
    for v, r in enumerate(refs):
        xg = np.array(data[:, v], dtype=float)
        A, b, K, c, N, xr = r["A"], r["b"], r["K"], r["c"], r["N"], r["x"]
        n_obs = len(b) - len(targets)
        # ---- constraints and targets to 1e-9 -----------------------------------------
        res = np.abs(A @ xg - b)
        scale = np.maximum(1.0, np.maximum(np.abs(b), np.abs(A) @ np.abs(xg)))
        bad = np.nonzero(res > 1e-9 * scale)[0]
        if bad.size:
            j = int(bad[0])
            if j < n_obs:
                col.fail(f"{tag}:constraint", f"{where} variant {v}: aggregation constraint {j} off by {res[j]!r}")
            else:
                col.fail(f"{tag}:target", f"{where} variant {v}: target at offset {targets[j - n_obs][0]} off by {res[j]!r}")
            continue
        # ---- optimality ---------------------------------------------------------------
        xs = max(1.0, float(np.max(np.abs(xr))))
        dx = float(np.max(np.abs(xg - xr)))
        j_got, j_ref = float(np.sum((K @ xg - c) ** 2)), float(np.sum((K @ xr - c) ** 2))
        kk = float(np.sum(K * K))
        grad = K.T @ (K @ xg - c)
        foc = float(np.linalg.norm(N.T @ grad)) if N.shape[1] else 0.0
        foc_scale = kk * float(np.linalg.norm(xg)) + float(np.linalg.norm(K.T @ c)) + 1e-300
        problems = []
        if dx > 1e-7 * xs:
            problems.append(f"differs from the constrained optimum by {dx:.3g}")
        if j_got > j_ref + 1e-7 * j_ref + 1e-10 * kk * xs * xs:
            problems.append(f"criterion {j_got!r} exceeds the optimum {j_ref!r}")
        if foc > 1e-7 * foc_scale:
            problems.append(f"gradient not orthogonal to the constraint null space (projected norm {foc:.3g}, scale {foc_scale:.3g})")
        col.check(not problems, f"{tag}:not_optimal",
                  lambda: f"{where} variant {v} (rho={r['rho']!r}, c={r['const']!r}): " + "; ".join(problems)
                          + f"; got {xg.tolist()[:8]} optimum {xr.tolist()[:8]}")
    # ---- round trip through the declared aggregation ----------------------------------
    if aname == "custom":
        w = np.array(zvec)
        back = lambda a: float(np.dot(np.asarray(a, dtype=float), w))   # noqa: E731
    else:
        back = aname
    z = api(f"aggregate:{aname}", ir.aggregate, out, ir.Frequency(f), method=back)
    tol = {key: 1e-9 * max(1.0, abs(val)) for key, val in ref.cells.items()}
    got = rs.read(z, f) if isinstance(z, ir.Series) and z.start is not None and int(z.start.frequency) == f else rs.Ref(f, ref.nv)
    for key in sorted(ref.cells):
        a, bb = got.get(*key), ref.cells[key]
        if not (abs(a - bb) <= tol[key]):
            col.fail(f"{tag}:round_trip", f"aggregate({where}, method={aname}) at {_where(f, key[0], key[1])}: got {a!r}, original {bb!r}")
            break
    col.done()
    return {"labels": ["single_observation" if n == 1 else "judged"], "nontrivial": True}


# ---------------------------------------------------------------------------
# Known-finding matchers (used only if known_findings.json names them)
# ---------------------------------------------------------------------------

def _match_select_raises(subcheck, case, bucket, message):
    return subcheck == "aggregate" and case.get("select") is not None and bucket.startswith("aggregate:select:raises")


def _match_arip_nonuniform_not_optimal(subcheck, case, bucket, message):
    return subcheck == "arip" and bucket.endswith(":not_optimal") and _agg_name(case.get("agg")) in ("first", "last", "custom")


FINDING_MATCHERS = {
    "select_raises": _match_select_raises,
    "arip_nonuniform_not_optimal": _match_arip_nonuniform_not_optimal,
}


SUBCHECKS = [
    HypSub("aggregate", _aggregate_case, _check_aggregate, _classify_aggregate, budget={"quick": 12000, "thorough": 160000}),
    HypSub("disaggregate", _disaggregate_case, _check_disaggregate, _classify_disaggregate, budget={"quick": 3200, "thorough": 40000}),
    HypSub("arip", _arip_case, _check_arip, _classify_arip, budget={"quick": 4800, "thorough": 64000}),
]
